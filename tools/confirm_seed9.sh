#!/bin/bash
# usage: tools/confirm_seed.sh <prop> <k> [checkprops...] : confirm a sub-agent's seeded change in its scratch worktree and file it under /verif/seeded
P=$1; K=$2; shift 2; CHECKS="${@:-$P}"
WT=/tmp/wt9_$P; OUT=/tmp/out9_$P; DEST=/verif/seeded/${P}_$((K+${OFF:-18}))
[ -f $OUT/patch$K.diff ] || { echo "no patch"; exit 1; }
cd $WT || exit 1
git checkout -q -- . ; 
PYTHONPATH=$WT /venv/bin/python $OUT/demo$K.py >/dev/null 2>&1; clean=$?
git apply $OUT/patch$K.diff || { echo "$P/$K: patch does not apply"; exit 1; }
PYTHONPATH=$WT /venv/bin/python $OUT/demo$K.py >/dev/null 2>&1; bad=$?
suite=$(PYTHONPATH=$WT /venv/bin/python -m pytest -q -p no:cacheprovider tests prysm 2>&1 | tail -1)
git checkout -q -- .
ok=no; [ $clean -eq 0 ] && [ $bad -ne 0 ] && echo "$suite" | grep -q "795 passed" && ok=yes
echo "$P/$K demo_clean=$clean demo_patched=$bad suite='$suite' confirmed=$ok"
if [ $ok = yes ]; then
  mkdir -p $DEST; cp $OUT/patch$K.diff $DEST/patch.diff; cp $OUT/demo$K.py $DEST/demo.py
  /venv/bin/python - "$OUT/meta$K.json" "$DEST/meta.json" "$P" "$suite" "$clean" "$bad" "$CHECKS" <<'PY'
import json,sys
src,dst,prop,suite,clean,bad,checks=sys.argv[1:8]
m=json.load(open(src))
out={"property":prop,"breaks":m.get("description",""),"needs":m.get("needs",""),"files":m.get("files",[]),
     "origin":"fresh sub-agent given only the property text and a scratch worktree (no access to /verif)",
     "confirmed":{"worktree":"/tmp/wt9_%s at a fix-commit HEAD of /repo (ninth wave: keystone windows and spiders, detector binning)"%prop,"demo_exit_clean":int(clean),"demo_exit_patched":int(bad),
                  "suite_with_patch":suite,"commands":["git apply patch.diff","PYTHONPATH=<wt> /venv/bin/python demo.py","PYTHONPATH=<wt> /venv/bin/python -m pytest -q -p no:cacheprovider tests prysm","git checkout -- ."]},
     "checks_expected_to_catch":checks.split()}
json.dump(out,open(dst,'w'),indent=1)
PY
fi
