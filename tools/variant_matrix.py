#!/venv/bin/python
"""usage: tools/variant_matrix.py [--write] [name ...]  -- run every claimed check on every behaviour-preserving variant patch
under /verif/seeded (meta kind == 'variant'); report the checks that raise a finding (exit1 = false alarm) or refuse (exit2).
With --write, meta.json `silent_for` becomes the list of properties that stay silent (those are replayed by the thorough tier)."""
import io
import json
import os
import shutil
import subprocess
import sys
import tempfile
from concurrent.futures import ProcessPoolExecutor
from contextlib import redirect_stdout

HERE = os.path.dirname(os.path.dirname(os.path.abspath(__file__)))
sys.path.insert(0, HERE)
ROOT = os.environ.get('PRYSM_ROOT', '/repo')


def one(job):
    import time
    t0 = time.time()
    r = _one(job)
    dt = time.time() - t0
    if dt > 45:
        print('SLOW %s %s %.0fs' % (job[0], job[1], dt), file=sys.stderr)
    return r


def _one(job):
    name, prop = job
    from sa.cli import run_property
    from sa.core import report
    patch = os.path.join(HERE, 'seeded', name, 'patch.diff')
    tmp = tempfile.mkdtemp(prefix='sa_vm_')
    try:
        shutil.copytree(os.path.join(ROOT, 'prysm'), os.path.join(tmp, 'prysm'), ignore=shutil.ignore_patterns('__pycache__', '*.pyc'))
        r = subprocess.run(['git', 'apply', '-p1', patch], cwd=tmp, capture_output=True, text=True)
        if r.returncode != 0:
            return name, prop, 'noapply', r.stderr.strip()[:120]
        known = {e['key'] for e in report.load_known() if e.get('kind') == 'known'}
        try:
            with redirect_stdout(io.StringIO()):
                code, run = run_property(prop, 'quick', tmp, write_evidence=False, quiet=True)
        except Exception as e:      # noqa
            return name, prop, 'exit2', repr(e)[:200]
        fs = [f for f in run.findings if f.key not in known]
        if fs:
            return name, prop, 'exit1', '%s @ %s: %s' % (fs[0].rule, fs[0].where if hasattr(fs[0], 'where') else '', fs[0].message[:200])
        if run.errors:
            return name, prop, 'exit2', str(run.errors[0])[:220]
        return name, prop, 'ok', ''
    finally:
        shutil.rmtree(tmp, ignore_errors=True)


if __name__ == '__main__':
    from sa.manifest_table import CLAIMS
    args = [a for a in sys.argv[1:] if a != '--write' and not a.startswith('@')]
    write = '--write' in sys.argv[1:]
    names = []
    for n in sorted(os.listdir(os.path.join(HERE, 'seeded'))):
        mp = os.path.join(HERE, 'seeded', n, 'meta.json')
        if os.path.isfile(mp) and json.load(open(mp)).get('kind') == 'variant' and (not args or n in args):
            names.append(n)
    jobs = [(n, p) for n in names for p in sorted(CLAIMS)]
    pairs = [a[1:] for a in sys.argv[1:] if a.startswith('@')]
    if pairs:        # @file: only the (variant, property) pairs listed there, one per line (the first two columns of an earlier report)
        want = {tuple(l.split()[:2]) for l in open(pairs[0]) if len(l.split()) >= 2}
        jobs = [(n, p) for n in sorted({w[0] for w in want}) for p in sorted(CLAIMS) if (n, p) in want]
        write = False
    with ProcessPoolExecutor(max_workers=16) as ex:
        res = list(ex.map(one, jobs, chunksize=2))
    by = {}
    cnt = {}
    for name, prop, st, msg in res:
        cnt[st] = cnt.get(st, 0) + 1
        by.setdefault(name, {})[prop] = st
        if st != 'ok':
            print('%-8s %s %-5s %s' % (name, prop, st, msg))
    print(cnt)
    if write:
        for name, d in by.items():
            mp = os.path.join(HERE, 'seeded', name, 'meta.json')
            m = json.load(open(mp))
            m['silent_for'] = sorted(p for p, st in d.items() if st == 'ok')
            json.dump(m, open(mp, 'w'), indent=1)
