#!/venv/bin/python
"""usage: tools/patch_matrix.py <patch.diff> ...   -- which checks report each patch (scratch copies, nothing executed from prysm)."""
import io
import json
import os
import shutil
import subprocess
import sys
import tempfile
from concurrent.futures import ProcessPoolExecutor
from contextlib import redirect_stdout

sys.path.insert(0, os.path.dirname(os.path.dirname(os.path.abspath(__file__))))
ROOT = os.environ.get('PRYSM_ROOT', '/repo')


def one(patch):
    from sa.cli import run_property
    from sa.core import report
    from sa.manifest_table import CLAIMS
    tmp = tempfile.mkdtemp(prefix='sa_pm_')
    try:
        shutil.copytree(os.path.join(ROOT, 'prysm'), os.path.join(tmp, 'prysm'), ignore=shutil.ignore_patterns('__pycache__', '*.pyc'))
        r = subprocess.run(['git', 'apply', '-p1', os.path.abspath(patch)], cwd=tmp, capture_output=True, text=True)
        if r.returncode != 0:
            return patch, None, 'patch does not apply: ' + r.stderr.strip()[:200]
        known = {e['key'] for e in report.load_known() if e.get('kind') == 'known'}
        hits = {}
        for prop in sorted(CLAIMS):
            try:
                with redirect_stdout(io.StringIO()):
                    code, run = run_property(prop, 'quick', tmp, write_evidence=False, quiet=True)
                fs = [f for f in run.findings if f.key not in known]
                if fs:
                    hits[prop] = sorted({f.rule for f in fs}) + [fs[0].message[:160]]
                elif run.errors:
                    hits[prop] = ['ANALYSIS-ERROR', str(run.errors[0])[:160]]
            except Exception as e:     # noqa
                hits[prop] = ['ANALYSIS-ERROR', repr(e)[:160]]
        return patch, hits, ''
    finally:
        shutil.rmtree(tmp, ignore_errors=True)


if __name__ == '__main__':
    patches = sys.argv[1:]
    with ProcessPoolExecutor(max_workers=16) as ex:
        for patch, hits, err in ex.map(one, patches):
            if hits is None:
                print('%s: %s' % (patch, err))
                continue
            real = {p: h for p, h in hits.items() if h[0] != 'ANALYSIS-ERROR'}
            print('%s: %s' % (patch, 'MISSED' if not real else ', '.join('%s[%s]' % (p, ' '.join(h[:-1])) for p, h in sorted(real.items()))))
            for p, h in sorted(hits.items()):
                print('      %s %s' % (p, h[-1]))
