#!/venv/bin/python
"""Which checks report which seeded change?  Applies every /verif/seeded/*/patch.diff to a scratch copy of /repo's prysm
tree (under $TMPDIR, removed at once), runs every property's quick analysis on it in-process and records the rules that
fire in meta.json ("caught_by").  Nothing is executed from prysm."""
import io
import json
import os
import shutil
import subprocess
import sys
import tempfile
from concurrent.futures import ProcessPoolExecutor
from contextlib import redirect_stdout

sys.path.insert(0, os.path.dirname(os.path.dirname(os.path.abspath(__file__))))
ROOT = '/repo'
ONLY = [a for a in sys.argv[1:] if not a.startswith('/')]        # optional: suffixes / names of the seeds to run (e.g. _16 _17 _18 or C07_11)
for a_ in sys.argv[1:]:
    if a_.startswith('/'):
        ROOT = a_
SEEDED = os.path.join(os.path.dirname(os.path.dirname(os.path.abspath(__file__))), 'seeded')


def one(name):
    from sa.cli import run_property
    from sa.core import report
    from sa.manifest_table import CLAIMS
    d = os.path.join(SEEDED, name)
    tmp = tempfile.mkdtemp(prefix='sa_seed_')
    try:
        shutil.copytree(os.path.join(ROOT, 'prysm'), os.path.join(tmp, 'prysm'), ignore=shutil.ignore_patterns('__pycache__', '*.pyc'))
        r = subprocess.run(['git', 'apply', '-p1', os.path.join(d, 'patch.diff')], cwd=tmp, capture_output=True, text=True)
        if r.returncode != 0:
            return name, None, 'patch does not apply: ' + r.stderr.strip()[:200]
        known = {e['key'] for e in report.load_known() if e.get('kind') == 'known'}
        hits = {}
        for prop in sorted(CLAIMS):
            buf = io.StringIO()
            try:
                with redirect_stdout(buf):
                    code, run = run_property(prop, 'quick', tmp, write_evidence=False, quiet=True)
                rules = sorted({f.rule for f in run.findings if f.key not in known})
                if rules:
                    hits[prop] = rules
                elif run.errors:
                    hits[prop] = ['ANALYSIS-ERROR']
            except Exception as e:     # noqa
                hits[prop] = ['ANALYSIS-ERROR: %r' % e]
        return name, hits, ''
    finally:
        shutil.rmtree(tmp, ignore_errors=True)


if __name__ == '__main__':
    def is_seed(n):
        mp = os.path.join(SEEDED, n, 'meta.json')
        return os.path.isfile(os.path.join(SEEDED, n, 'patch.diff')) and os.path.isfile(mp) and json.load(open(mp)).get('kind') != 'variant'
    names = sorted(n for n in os.listdir(SEEDED) if is_seed(n) and (not ONLY or any(n == o or n.endswith(o) for o in ONLY)))
    with ProcessPoolExecutor(max_workers=16) as ex:
        res = list(ex.map(one, names))
    miss = 0
    for name, hits, err in res:
        mp = os.path.join(SEEDED, name, 'meta.json')
        meta = json.load(open(mp))
        if hits is None:
            print('%-8s %s' % (name, err))
            continue
        real = {p: r for p, r in hits.items() if not r[0].startswith('ANALYSIS-ERROR')}
        meta['caught_by'] = real
        meta['checks_expected_to_catch'] = sorted(real) if real else meta.get('checks_expected_to_catch', [])
        json.dump(meta, open(mp, 'w'), indent=1)
        own = name.split('_')[0]
        flag = '' if own in real else ('   <-- not by its own property' if real else '   <-- MISSED')
        if not real:
            miss += 1
        print('%-8s %s%s' % (name, json.dumps(hits), flag))
    print('seeds: %d, missed: %d' % (len(res), miss))
