#!/venv/bin/python
"""Regenerate MANIFEST.json from sa/manifest_table.py (kept valid at all times)."""
import json, os, sys
sys.path.insert(0, os.path.dirname(os.path.dirname(os.path.abspath(__file__))))
from sa.manifest_table import CLAIMS, NOT_APPLICABLE, ENGINES

BASE = "cd /repo && /venv/bin/python -m pytest -ra -q -p no:cacheprovider --timeout=900 --continue-on-collection-errors"
MEMO = (" Also decided (rule <id>.memo): every module-level dict memo filled by a function this check analyses, or by anything such a function reaches, "
        "is keyed by everything its entries and the tests before the store depend on, and its arrays are not edited in place (DEP domain; the pinned tree has no such memo).")
checks = []
for pid in sorted(CLAIMS):
    c = CLAIMS[pid]
    checks.append({
        "property_id": pid,
        "quick_cmd": "./check %s --tier quick" % pid,
        "thorough_cmd": "./check %s --tier thorough" % pid,
        "evidence_file": "/verif/evidence/%s.json" % pid,
        "replay_cmd_template": "./check %s --replay {path}" % pid,
        "engine": c["engine"],
        "level_claimed": {"category": "other", "text": c["text"] + MEMO, "design_ref": c.get("design_ref", "DESIGN.md section 4, " + pid + "; sections 9.5b/9.5c for the rules re-stated on the interpretation")},
        "level_note": c["note"],
        "technique": c["technique"],
    })
man = {
    "version": 1,
    "setup_cmd": "cd /verif && ./check --selfcheck",
    "hooks": {"guard": "PRYSM_VERIF", "enable": "none needed: the checks are static analyses of the source text and need no instrumentation of prysm",
              "baseline_off_cmd": BASE, "source_commits": [], "add_only": True},
    "engines": ENGINES,
    "checks": checks,
    "notes": "Static analysis only: every verdict is computed from the source text of /repo as it stands when the check runs; nothing in prysm is imported or executed. Exit 0 clean (KNOWN-FINDING lines for recorded defects), 1 with VIOLATION lines, 2 with ANALYSIS-ERROR when the analysis cannot give a verdict (anchor vanished / idiom outside the analysable fragment). The thorough tier adds the discrimination run (seeded mutants on scratch copies under $TMPDIR must be reported; behaviour-preserving variants must stay silent).",
    "not_applicable": [{"property_id": k, "reason": v} for k, v in sorted(NOT_APPLICABLE.items())],
}
out = os.path.join(os.path.dirname(os.path.dirname(os.path.abspath(__file__))), 'MANIFEST.json')
json.dump(man, open(out, 'w'), indent=1)
open(out, 'a').write('\n')
try:
    import jsonschema
    jsonschema.validate(man, json.load(open('/root/.vp/MANIFEST.schema.json')))
    print('manifest valid;', len(checks), 'claimed,', len(NOT_APPLICABLE), 'not applicable')
except ImportError:
    print('written (jsonschema not available to validate)')
