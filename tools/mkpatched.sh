#!/bin/bash
# usage: tools/mkpatched.sh <seed-or-variant name> -> prints a scratch dir holding prysm/ with that patch applied (remove it afterwards)
D=$(mktemp -d /tmp/sa_mk_XXXXXX)
cp -r /repo/prysm $D/prysm
find $D -name __pycache__ -prune -exec rm -rf {} + 2>/dev/null
(cd $D && git apply -p1 /verif/seeded/$1/patch.diff) || { echo "patch failed" >&2; exit 1; }
echo $D
