#!/venv/bin/python
"""print source of a file (line range) with docstrings and blank lines removed, keeping line numbers"""
import ast, sys
path=sys.argv[1]; lo=int(sys.argv[2]) if len(sys.argv)>2 else 1; hi=int(sys.argv[3]) if len(sys.argv)>3 else 10**9
src=open(path).read(); tree=ast.parse(src); skip=set()
for n in ast.walk(tree):
    if isinstance(n,(ast.FunctionDef,ast.ClassDef,ast.Module)) and n.body and isinstance(n.body[0],ast.Expr) and isinstance(n.body[0].value,ast.Constant) and isinstance(n.body[0].value.value,str):
        d=n.body[0]; skip.update(range(d.lineno,d.end_lineno+1))
for i,l in enumerate(src.split('\n'),1):
    if lo<=i<=hi and i not in skip and l.strip() and not l.strip().startswith('#'): print('%4d %s'%(i,l))
