#!/venv/bin/python
"""Print the markdown table of DESIGN.md section 9.4 (seed | what it changes | rules that report it) from seeded/*/meta.json."""
import glob
import json
import os
import re

HERE = os.path.dirname(os.path.dirname(os.path.abspath(__file__)))


def key(d):
    b = os.path.basename(d)
    m = re.match(r'([A-Z])(\d+)_(\d+)', b)
    return (m.group(1), int(m.group(2)), int(m.group(3))) if m else (b, 0, 0)


if __name__ == '__main__':
    print('| seed | what it changes | rules that report it |')
    print('|---|---|---|')
    for d in sorted(glob.glob(os.path.join(HERE, 'seeded', '*')), key=key):
        mf = os.path.join(d, 'meta.json')
        if not os.path.isfile(mf):
            continue
        m = json.load(open(mf))
        if m.get('kind') == 'variant':
            continue
        txt = (m.get('breaks') or m.get('title') or '').replace('\n', ' ').replace('|', '/')
        txt = txt[:140] + ('...' if len(txt) > 140 else '')
        cb = '; '.join(', '.join(v) for k, v in sorted(m.get('caught_by', {}).items()))
        print('| %s | %s | %s |' % (os.path.basename(d), txt, cb))
