#!/bin/bash
# usage: tools/try_seed.sh <patch.diff> <prop> [more props...]   -- apply to /repo, run checks, undo
patch="$1"; shift
cd /repo || exit 9
if ! git diff --quiet; then echo "repo dirty"; exit 9; fi
git apply "$patch" || { echo "patch does not apply"; exit 9; }
for p in "$@"; do
  out=$(cd /verif && ./check "$p" --no-evidence 2>&1); code=$?
  echo "== $p exit=$code :: $(echo "$out" | grep -c '^VIOLATION') violations"
  echo "$out" | grep -E '^FINDING|^ANALYSIS-ERROR' | cut -c1-330 | head -6
done
git checkout -- . 
