#!/bin/bash
# usage: tools/confirm_variant.sh <prop> <k> : confirm a sub-agent's behaviour-preserving refactoring in its scratch worktree
# (equivalence program exits 0 on the clean and on the refactored tree; suite unchanged) and file it under /verif/seeded/R<prop>_<k>
P=$1; K=$2
WT=/tmp/wtr5_$P; OUT=/tmp/outr5_$P; DEST=/verif/seeded/R${P}_$((K+12))
[ -f $OUT/patch$K.diff ] || { echo "$P/$K: no patch"; exit 1; }
cd $WT || exit 1
git checkout -q -- . ; git clean -fdq prysm
PYTHONPATH=$WT /venv/bin/python $OUT/equiv$K.py >/dev/null 2>&1; clean=$?
git apply $OUT/patch$K.diff || { echo "$P/$K: patch does not apply"; exit 1; }
PYTHONPATH=$WT /venv/bin/python $OUT/equiv$K.py >/dev/null 2>&1; ref=$?
suite=$(PYTHONPATH=$WT /venv/bin/python -m pytest -q -p no:cacheprovider tests prysm 2>&1 | tail -1)
git checkout -q -- . ; git clean -fdq prysm
ok=no; [ $clean -eq 0 ] && [ $ref -eq 0 ] && echo "$suite" | grep -q "795 passed" && ! echo "$suite" | grep -q "[7-9] failed\|[1-9][0-9] failed" && ok=yes
echo "$P/$K equiv_clean=$clean equiv_refactored=$ref suite='$suite' confirmed=$ok"
if [ $ok = yes ]; then
  mkdir -p $DEST; cp $OUT/patch$K.diff $DEST/patch.diff; cp $OUT/equiv$K.py $DEST/equiv.py; [ -f $OUT/ref$K.npz ] && [ $(stat -c %s $OUT/ref$K.npz) -lt 300000 ] && cp $OUT/ref$K.npz $DEST/ref.npz
  /venv/bin/python - "$OUT/meta$K.json" "$DEST/meta.json" "$P" "$suite" <<'PY'
import json,sys
src,dst,prop,suite=sys.argv[1:5]
m=json.load(open(src))
out={"kind":"variant","property":prop,"what":m.get("description",""),"why_equivalent":m.get("why_equivalent",""),"files":m.get("files",[]),
     "origin":"fresh sub-agent given only the property text and a scratch worktree (no access to /verif), asked for a behaviour-preserving refactoring",
     "confirmed":{"equiv_exit_clean":0,"equiv_exit_refactored":0,"suite_with_patch":suite},
     "silent_for":[]}
json.dump(out,open(dst,'w'),indent=1)
PY
fi
