#!/bin/bash
# usage: tools/file5.sh <prop> : confirm the three fifth-wave changes of <prop>, file them, and run the property's check on each
P=$1
for K in 1 2 3; do
  /verif/tools/confirm_seed5.sh $P $K
  d=/verif/seeded/${P}_$((K+9))
  [ -f $d/patch.diff ] && /verif/tools/try_seed.sh $d/patch.diff $P
done
