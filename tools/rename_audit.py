#!/venv/bin/python
"""Brittleness audit: rename every local variable of one analysed function (behaviour preserved), re-run the checks that
mention that function, and report checks that raise a finding (exit 1 = a rule keyed to a name) or refuse (exit 2).
usage: tools/rename_audit.py [Cxx ...]"""
import ast
import io
import json
import os
import shutil
import sys
import tempfile
from concurrent.futures import ProcessPoolExecutor
from contextlib import redirect_stdout

HERE = os.path.dirname(os.path.dirname(os.path.abspath(__file__)))
sys.path.insert(0, HERE)
ROOT = '/repo'


def renamed_source(path, qual_parts):
    src = open(path).read()
    tree = ast.parse(src)
    node = tree
    for part in qual_parts:
        nxt = None
        for ch in ast.iter_child_nodes(node):
            if isinstance(ch, (ast.FunctionDef, ast.ClassDef)) and ch.name == part:
                nxt = ch
        if nxt is None:
            return None
        node = nxt
    if not isinstance(node, ast.FunctionDef):
        return None
    params = {a.arg for a in node.args.posonlyargs + node.args.args + node.args.kwonlyargs}
    if node.args.vararg:
        params.add(node.args.vararg.arg)
    if node.args.kwarg:
        params.add(node.args.kwarg.arg)
    declared = set()
    for n in ast.walk(node):
        if isinstance(n, (ast.Global, ast.Nonlocal)):
            declared |= set(n.names)
    inner_params = set()
    for n in ast.walk(node):
        if isinstance(n, (ast.FunctionDef, ast.Lambda)) and n is not node:
            a = n.args
            inner_params |= {x.arg for x in a.posonlyargs + a.args + a.kwonlyargs}
    stores = {n.id for n in ast.walk(node) if isinstance(n, ast.Name) and isinstance(n.ctx, ast.Store)}
    for n in ast.walk(node):
        if isinstance(n, ast.FunctionDef) and n is not node:
            stores.add(n.name)
    targets = stores - params - declared - inner_params
    if not targets:
        return None
    # textual, position-based replacement (keeps comments and layout)
    lines = src.split('\n')
    edits = []
    for n in ast.walk(node):
        if isinstance(n, ast.Name) and n.id in targets:
            edits.append((n.lineno, n.col_offset, n.id))
        if isinstance(n, ast.FunctionDef) and n is not node and n.name in targets:
            edits.append((n.lineno, n.col_offset + 4, n.name))
    for ln, col, name in sorted(set(edits), reverse=True):
        line = lines[ln - 1]
        b = line.encode('utf-8')
        if b[col:col + len(name)].decode('utf-8', 'replace') != name:
            return None
        lines[ln - 1] = (b[:col] + (name + '_rn').encode() + b[col + len(name):]).decode('utf-8')
    out = '\n'.join(lines)
    try:
        ast.parse(out)
    except SyntaxError:
        return None
    return out


def one(job):
    prop, qual = job
    from sa.cli import run_property
    from sa.core import report
    parts = qual.split('.')
    # locate the module file
    for k in range(len(parts), 0, -1):
        rel = os.path.join(*parts[:k]) + '.py'
        if os.path.isfile(os.path.join(ROOT, rel)):
            break
    else:
        return prop, qual, 'skip', 'module not found'
    new = renamed_source(os.path.join(ROOT, rel), parts[k:])
    if new is None:
        return prop, qual, 'skip', 'nothing to rename'
    tmp = tempfile.mkdtemp(prefix='sa_rn_')
    try:
        shutil.copytree(os.path.join(ROOT, 'prysm'), os.path.join(tmp, 'prysm'), ignore=shutil.ignore_patterns('__pycache__', '*.pyc'))
        open(os.path.join(tmp, rel), 'w').write(new)
        known = {e['key'] for e in report.load_known() if e.get('kind') == 'known'}
        try:
            with redirect_stdout(io.StringIO()):
                code, run = run_property(prop, 'quick', tmp, write_evidence=False, quiet=True)
        except Exception as e:      # noqa
            return prop, qual, 'exit2', repr(e)[:150]
        fs = [f for f in run.findings if f.key not in known]
        if fs:
            return prop, qual, 'exit1', '%s: %s' % (fs[0].rule, fs[0].message[:140])
        if run.errors:
            return prop, qual, 'exit2', str(run.errors[0])[:150]
        return prop, qual, 'ok', ''
    finally:
        shutil.rmtree(tmp, ignore_errors=True)


def mk(qual):
    parts = qual.split('.')
    for k in range(len(parts), 0, -1):
        rel = os.path.join(*parts[:k]) + '.py'
        if os.path.isfile(os.path.join(ROOT, rel)):
            break
    new = renamed_source(os.path.join(ROOT, rel), parts[k:])
    tmp = tempfile.mkdtemp(prefix='sa_rnk_')
    shutil.copytree(os.path.join(ROOT, 'prysm'), os.path.join(tmp, 'prysm'), ignore=shutil.ignore_patterns('__pycache__', '*.pyc'))
    open(os.path.join(tmp, rel), 'w').write(new)
    print(tmp)


if __name__ == '__main__':
    if sys.argv[1:2] == ['--mk']:
        mk(sys.argv[2])
        sys.exit(0)
    props = sys.argv[1:] or sorted(f[:-5] for f in os.listdir(os.path.join(HERE, 'evidence')) if f.endswith('.json'))
    jobs = []
    for p in props:
        ev = json.load(open(os.path.join(HERE, 'evidence', p + '.json')))
        text = json.dumps(ev)
        import re
        quals = sorted(set(re.findall(r'prysm(?:\.[A-Za-z_][A-Za-z0-9_]*)+', text)))
        for q in quals:
            jobs.append((p, q))
    with ProcessPoolExecutor(max_workers=16) as ex:
        res = list(ex.map(one, jobs, chunksize=2))
    cnt = {}
    for prop, qual, st, msg in res:
        cnt[st] = cnt.get(st, 0) + 1
        if st in ('exit1', 'exit2'):
            print('%s %-5s %s  %s' % (prop, st, qual, msg))
    print(cnt)
