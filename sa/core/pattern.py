"""Structural patterns with metavariables: rules that used to look for statement *text* (and were therefore keyed to the
names of local variables) look for statement *shape* instead.

A pattern is Python source in which every identifier starting with `V_` is a metavariable that binds one local name
(consistently across all patterns of one match), and `E_` a metavariable that binds any expression.  Everything else
(parameter names, attribute names, callee names, constants, operators, keyword names) is literal.

    match_all(func_node, ['V_F = V_Z - V_sag', 'V_Fp = _multi_dot(V_S, V_r)', 'V_s1 = V_s0 - V_F / V_Fp'])

returns a dict {metavariable: name or expression node} for the first consistent assignment, or None.
"""
import ast

from .db import walk_no_nested


def _parse(pat):
    tree = ast.parse(pat.strip())
    node = tree.body[0]
    if isinstance(node, ast.Expr):
        return node.value, 'expr'
    return node, 'stmt'


_SKIP = ('lineno', 'col_offset', 'end_lineno', 'end_col_offset', 'ctx', 'type_comment', 'kind')


def _same(a, b):
    return ast.dump(a) == ast.dump(b)


def _match(p, c, env):
    """Match pattern node p against candidate c; env is updated in place on success (caller copies)."""
    if isinstance(p, ast.Name) and p.id.startswith('V_'):
        if not isinstance(c, ast.Name):
            return False
        if p.id in env:
            return env[p.id] == c.id
        env[p.id] = c.id
        return True
    if isinstance(p, ast.Name) and p.id.startswith('E_'):
        if not isinstance(c, ast.AST):
            return False
        if p.id in env:
            return _same(env[p.id], c)
        env[p.id] = c
        return True
    if type(p) is not type(c):
        return False
    for f in p._fields:
        if f in _SKIP:
            continue
        pv, cv = getattr(p, f, None), getattr(c, f, None)
        if isinstance(pv, list):
            if not isinstance(cv, list) or len(pv) != len(cv):
                return False
            for x, y in zip(pv, cv):
                if isinstance(x, ast.AST):
                    if not _match(x, y, env):
                        return False
                elif x != y:
                    return False
        elif isinstance(pv, ast.AST):
            if not isinstance(cv, ast.AST) or not _match(pv, cv, env):
                return False
        else:
            if isinstance(pv, str) and pv.startswith('V_') and isinstance(cv, str):
                # metavariable in a non-Name position (e.g. keyword argument value names are Names; arg names are str)
                if pv in env:
                    if env[pv] != cv:
                        return False
                else:
                    env[pv] = cv
            elif pv != cv:
                return False
    return True


def candidates(scope, kind):
    nodes = []
    it = walk_no_nested(scope) if isinstance(scope, (ast.FunctionDef, ast.AsyncFunctionDef)) else (n for s in (scope if isinstance(scope, list) else [scope]) for n in ast.walk(s))
    for n in it:
        if kind == 'stmt' and isinstance(n, ast.stmt):
            nodes.append(n)
        elif kind == 'expr' and isinstance(n, ast.expr):
            nodes.append(n)
    return nodes


def match_all(scope, patterns, env=None, ordered=False):
    """First consistent binding of all patterns inside scope (a FunctionDef, a statement, or a list of statements)."""
    parsed = [_parse(p) for p in patterns]
    cands = {'stmt': candidates(scope, 'stmt'), 'expr': candidates(scope, 'expr')}

    def rec(i, env, after):
        if i == len(parsed):
            return env
        p, kind = parsed[i]
        for c in cands[kind]:
            if ordered and after is not None and (getattr(c, 'lineno', 0), getattr(c, 'col_offset', 0)) <= after:
                continue
            e2 = dict(env)
            if _match(p, c, e2):
                e2.setdefault('@nodes', [])
                e3 = dict(e2)
                e3['@nodes'] = list(e2['@nodes']) + [c]
                r = rec(i + 1, e3, (getattr(c, 'lineno', 0), getattr(c, 'col_offset', 0)))
                if r is not None:
                    return r
        return None
    return rec(0, dict(env or {}), None)


def find(scope, pattern, env=None):
    """All (binding, node) matches of one pattern."""
    p, kind = _parse(pattern)
    out = []
    for c in candidates(scope, kind):
        e2 = dict(env or {})
        if _match(p, c, e2):
            out.append((e2, c))
    return out
