"""Abstract interpreter over the Python subset prysm uses.

Path enumeration is by *re-execution*: one run is a deterministic walk of the
syntax tree; every branch whose condition the abstract domain cannot decide
consults a choice sequence, and the driver enumerates choice sequences
depth-first.  No prysm code is executed: values are abstract (domain objects),
calls to prysm functions are abstractly inlined (depth bounded), calls to
NumPy/SciPy/math go to the domain's transfer functions.
"""
import ast
import operator

from .db import AnalysisError, FuncInfo, ClassInfo, walk_no_nested


# --------------------------------------------------------------------------
# generic values
# --------------------------------------------------------------------------
class Value:
    pass


class Const(Value):
    __slots__ = ('v',)

    def __init__(self, v):
        self.v = v

    def __repr__(self):
        return 'Const(%r)' % (self.v,)

    def __eq__(self, o):
        return isinstance(o, Const) and type(o.v) is type(self.v) and o.v == self.v

    def __hash__(self):
        return hash(('Const', self.v))


class Unknown(Value):
    """Top: nothing known.  Carries the reason for diagnostics."""
    __slots__ = ('why',)

    def __init__(self, why=''):
        self.why = why

    def __repr__(self):
        return 'Unknown(%s)' % self.why

    def __eq__(self, o):
        return isinstance(o, Unknown)

    def __hash__(self):
        return hash('Unknown')


class Tup(Value):
    __slots__ = ('items', 'kind')

    def __init__(self, items, kind='tuple'):
        self.items = list(items)
        self.kind = kind

    def __repr__(self):
        return '%s%r' % (self.kind, tuple(self.items))

    def __eq__(self, o):
        return isinstance(o, Tup) and self.items == o.items

    def __hash__(self):
        return hash(('Tup', tuple(self.items)))


class NTup(Tup):
    """an instance of a collections.namedtuple / typing.NamedTuple class: a tuple whose items also have names (and, for a class
    statement deriving from one, methods)"""
    __slots__ = ('fields', 'ci')

    def __init__(self, items, fields, ci=None):
        Tup.__init__(self, items, 'tuple')
        self.fields = list(fields)
        self.ci = ci

    def field(self, name):
        return self.items[self.fields.index(name)] if name in self.fields else None


class GenExpV(Tup):
    """the items of a generator expression (evaluated eagerly: the expressions analysed are pure), with how many were consumed by
    next() / a loop -- an iterator, unlike a list"""
    __slots__ = ('pos',)

    def __init__(self, items):
        Tup.__init__(self, items, 'tuple')
        self.pos = 0


class NTClass(Value):
    """what collections.namedtuple(...) returns (ci: the class statement deriving from it, if any)"""

    def __init__(self, name, fields, defaults=(), ci=None):
        self.name, self.fields, self.defaults, self.ci = name, list(fields), list(defaults), ci

    def make(self, args, kwargs):
        n = len(self.fields)
        if len(args) > n or any(k not in self.fields for k in kwargs):
            return Unknown('namedtuple %s called with arguments it does not take' % self.name)
        items = list(args) + [None] * (n - len(args))
        for k, v in kwargs.items():
            i = self.fields.index(k)
            if items[i] is not None:
                return Unknown('namedtuple %s: field %s given twice' % (self.name, k))
            items[i] = v
        for i in range(n):
            if items[i] is None:
                di = i - (n - len(self.defaults))
                if di < 0:
                    return Unknown('namedtuple %s: field %s missing' % (self.name, self.fields[i]))
                items[i] = self.defaults[di]
        return NTup(items, self.fields, self.ci)

    def __repr__(self):
        return 'namedtuple %s%r' % (self.name, tuple(self.fields))


class PropertyV(Value):
    """property(fget, fset) made by a call (a class attribute built by a helper instead of the decorator)"""

    def __init__(self, fget, fset):
        self.fget, self.fset = fget, fset


class IterV(Value):
    """an iterator over a known finite sequence (iter(seq), itertools.islice(...)): the items and how many were consumed"""

    def __init__(self, items):
        self.items, self.pos = list(items), 0


class CountV(Value):
    """itertools.count(start, step) with constant integers: unbounded"""

    def __init__(self, start, step):
        self.start, self.step, self.pos = start, step, 0


class LazySeqV(Value):
    """enumerate(...) / zip(...) over at least one iterator that may be unbounded (a generator, itertools.count): items are produced on
    demand by the loop that walks it"""

    def __init__(self, kind, srcs, start=0):
        self.kind, self.srcs, self.start, self.pos = kind, list(srcs), start, 0


class MethodCallerV(Value):
    """operator.methodcaller(name, *args, **kwargs)"""

    def __init__(self, name, args, kwargs):
        self.name, self.args, self.kwargs = name, list(args), dict(kwargs)


class PartialV(Value):
    """functools.partial(func, *args, **kwargs)"""

    def __init__(self, func, args, kwargs):
        self.func, self.args, self.kwargs = func, list(args), dict(kwargs)

    def __repr__(self):
        return 'partial(%r)' % (self.func,)


class Slice(Value):
    __slots__ = ('lo', 'hi', 'step')

    def __init__(self, lo, hi, step):
        self.lo, self.hi, self.step = lo, hi, step

    def __repr__(self):
        return 'Slice(%r,%r,%r)' % (self.lo, self.hi, self.step)

    def __eq__(self, o):
        return isinstance(o, Slice) and (self.lo, self.hi, self.step) == (o.lo, o.hi, o.step)

    def __hash__(self):
        return hash(('Slice', self.lo, self.hi, self.step))


class FuncRef(Value):
    def __init__(self, fi, bound=None, closure=None):
        self.fi = fi
        self.bound = bound
        self.closure = closure

    def __repr__(self):
        return 'FuncRef(%s)' % self.fi.qual


class LambdaRef(Value):
    def __init__(self, node, frame):
        self.node = node
        self.frame = frame


class ClassRef(Value):
    def __init__(self, ci):
        self.ci = ci

    def __repr__(self):
        return 'ClassRef(%s)' % self.ci.qual


class ExtRef(Value):
    """A name in an external library: numpy.exp, math.ceil, collections.abc.Iterable."""
    __slots__ = ('dotted',)

    def __init__(self, dotted):
        self.dotted = dotted

    def __repr__(self):
        return 'Ext(%s)' % self.dotted

    def __eq__(self, o):
        return isinstance(o, ExtRef) and o.dotted == self.dotted

    def __hash__(self):
        return hash(self.dotted)


class ModRef(Value):
    def __init__(self, name):
        self.name = name


class Obj(Value):
    """Instance of a prysm class."""

    def __init__(self, ci):
        self.ci = ci
        self.attrs = {}

    def __repr__(self):
        return 'Obj(%s)' % self.ci.qual


def _concrete(v):
    return isinstance(v, Const) or (isinstance(v, Tup) and all(_concrete(x) for x in v.items))


class DictV(Value):
    default_factory = None
    strict_keys = False     # True: a key that is not structurally one of the stored keys is a KeyError (memo dicts of the DEP audit)
    open = False            # keys that are not followed were looked up / stored (a defaultdict filled under unknown keys): its key set is unknown

    def __init__(self):
        self.entries = []       # (key value, value)

    def get(self, k):
        for kk, v in self.entries:
            if kk == k:
                return v
        return None

    def set(self, k, v):
        for i, (kk, _) in enumerate(self.entries):
            if kk == k:
                self.entries[i] = (k, v)
                return
        self.entries.append((k, v))


class BuiltinRef(Value):
    __slots__ = ('name',)

    def __init__(self, name):
        self.name = name

    def __repr__(self):
        return 'Builtin(%s)' % self.name


class BoundMethod(Value):
    """Method of a domain value or generic value: x.conj, d.append."""

    def __init__(self, recv, name):
        self.recv = recv
        self.name = name


# control flow signals
class _GenStop(Exception):
    """enough items were taken from a generator body"""


class _GenAbort(Exception):
    """a generator body cannot be followed"""


class GenV(Value):
    """A generator object.  Its body is (re-)run from the start whenever items are wanted, up to the number wanted: a pure generator
    gives the same items however it is consumed.  `take(limit)` -> (items or None, finished?)."""

    def __init__(self, interp, fi, args, kwargs, self_obj, closure):
        self.interp, self.fi, self.args, self.kwargs, self.self_obj, self.closure = interp, fi, list(args), dict(kwargs), self_obj, closure
        self.pos = 0        # how many items have been consumed (next(), a finished for loop)
        # iterators handed to the generator are consumed by its body: every re-run of the body starts them where they stood at the call
        self._iter_args = [(a, a.pos) for a in list(args) + list(kwargs.values()) if hasattr(a, 'pos') and isinstance(getattr(a, 'pos'), int)]

    def rest(self, limit):
        """(items not yet consumed or None, finished?), consuming them"""
        items, fin = self.take(self.pos + limit)
        if items is None:
            return None, False
        out = items[self.pos:]
        self.pos = len(items)
        return out, fin

    def take(self, limit):
        it = self.interp
        ctx = {'items': [], 'limit': limit}
        for a, p0 in self._iter_args:
            a.pos = p0
        it._gen_stack.append(ctx)
        finished = True
        try:
            it.call_funcinfo(self.fi, self.args, self.kwargs, self.self_obj, None, closure=self.closure, _gen=True)
        except _GenStop:
            finished = False
        except _GenAbort:
            return None, False
        finally:
            it._gen_stack.pop()
        return ctx['items'], finished

    def __repr__(self):
        return 'Gen(%s)' % self.fi.name


class _Return(Exception):
    def __init__(self, value):
        self.value = value


class _Break(Exception):
    pass


class _Continue(Exception):
    pass


class AbsRaise(Exception):
    """An abstract exception raised on this path."""

    def __init__(self, exc, node=None):
        self.exc = exc          # name of the exception class ('KeyError', 'ValueError', ...)
        self.node = node


class PathLimit(Exception):
    pass


class Frame:
    def __init__(self, fi, module, env, parent=None):
        self.fi = fi
        self.module = module
        self.env = env
        self.parent = parent    # lexical parent (closures)


class PathResult:
    def __init__(self, conds, outcome, value, frame, events):
        self.conds = conds          # [(text, truth)]
        self.outcome = outcome      # 'return' | 'raise'
        self.value = value
        self.frame = frame
        self.events = events

    def cond_is(self, text, truth):
        return (text, truth) in self.conds


BUILTIN_NAMES = {'isinstance', 'len', 'range', 'zip', 'enumerate', 'tuple', 'list', 'float', 'int',
                 'max', 'min', 'abs', 'sum', 'hasattr', 'callable', 'getattr', 'round', 'bool', 'str',
                 'reversed', 'sorted', 'print', 'divmod', 'set', 'dict', 'slice', 'type', 'map', 'any', 'all',
                 'complex', 'super', 'iter', 'next', 'pow', 'id', 'repr', 'setattr', 'delattr', 'filter', 'frozenset', 'issubclass',
                 'format', 'vars', 'object', 'bytes', 'bytearray', 'ord', 'chr', 'hash', 'open', 'memoryview', 'property'}
EXC_NAMES = {'KeyError', 'ValueError', 'TypeError', 'Exception', 'AttributeError', 'IndexError',
             'NotImplementedError', 'ZeroDivisionError', 'RuntimeError', 'ImportError', 'StopIteration',
             'FileNotFoundError', 'OSError', 'UserWarning', 'DeprecationWarning', 'Warning'}

_BINOPS = {ast.Add: operator.add, ast.Sub: operator.sub, ast.Mult: operator.mul, ast.Div: operator.truediv,
           ast.FloorDiv: operator.floordiv, ast.Mod: operator.mod, ast.Pow: operator.pow,
           ast.LShift: operator.lshift, ast.RShift: operator.rshift, ast.BitOr: operator.or_,
           ast.BitAnd: operator.and_, ast.BitXor: operator.xor}
_CMPOPS = {ast.Eq: operator.eq, ast.NotEq: operator.ne, ast.Lt: operator.lt, ast.LtE: operator.le,
           ast.Gt: operator.gt, ast.GtE: operator.ge}


class Domain:
    """Default domain: everything non-constant is Unknown.  Override hooks."""
    name = 'generic'

    def bind(self, interp):
        self.interp = interp

    def const(self, v, node):
        return Const(v)

    def binop(self, op, a, b, node):
        return None

    def unary(self, op, a, node):
        return None

    def compare(self, op, a, b, node):
        return None

    def truth(self, v):
        return None

    def call_ext(self, dotted, args, kwargs, node):
        return None

    def getattr(self, v, name, node):
        return None

    def method(self, v, name, args, kwargs, node):
        return None

    def subscript(self, v, idx, node):
        return None

    def store_subscript(self, target, idx, val, node):
        return None

    def store_attr(self, target, name, val, node):
        return None

    def augassign(self, op, target, val, node):
        return None

    def call_prysm(self, fi, args, kwargs, node):
        """Give the domain the chance to summarise a prysm function (return a Value)."""
        return None

    def instantiate(self, ci, args, kwargs, node):
        return None

    def param(self, fi, name, default):
        return Unknown('param %s' % name)

    def loop(self, node, frame):
        """Custom handling of a loop the interpreter cannot unroll.  Return True if handled."""
        return False

    def join(self, values):
        first = values[0]
        if all(v == first for v in values[1:]):
            return first
        return Unknown('join')

    def iterate(self, v, node):
        """Return a list of element values for iteration over a domain value, or None."""
        return None

    def on_stmt(self, node, frame):
        pass


class Interp:
    MAX_PATHS = 3000
    RUN_BUDGET_S = 150       # wall clock for enumerating the paths of one routine; beyond it the analysis refuses
    CALL_BUDGET = 400000     # inlined calls on one path (a routine that re-evaluates helpers combinatorially is not followed)
    MAX_DEPTH = 16

    def __init__(self, db, domain):
        self.db = db
        self.dom = domain
        domain.bind(self)
        self._reset_run([])

    # -- path enumeration --------------------------------------------------
    def _reset_run(self, prefix):
        self.prefix = list(prefix)
        self.trace = []         # [(choice, n)]
        self.conds = []
        self.branch_memo = {}
        self.events = []
        self.globals_cache = {}
        self.depth = 0
        self.callstack = []
        self.fwd = {}           # id(old abstract array) -> (old, new) after an in-place operation
        self._gen_stack = []    # generator bodies being run: {'items': [...], 'limit': n or None}
        self.ncalls = 0

    def choose(self, n, label=''):
        i = len(self.trace)
        c = self.prefix[i] if i < len(self.prefix) else 0
        self.trace.append((c, n))
        return c

    def emit(self, kind, **data):
        data['kind'] = kind
        data['stack'] = [f.qual for f in self.callstack]
        self.events.append(data)

    def run(self, fi, args=None, kwargs=None, self_obj=None, setup=None):
        """Enumerate all paths of fi under the given abstract arguments.

        args/kwargs may be callables (invoked per run, to build fresh heap values).
        """
        results = []
        prefix = []
        snap = self.dom.snapshot_state() if hasattr(self.dom, 'snapshot_state') else None
        import time as _time
        self._deadline = _time.time() + self.RUN_BUDGET_S
        while True:
            if _time.time() > self._deadline:
                raise AnalysisError('analysis budget (%d s) exceeded analysing %s: the paths of this routine are not enumerated' % (self.RUN_BUDGET_S, fi.qual))
            self._reset_run(prefix)
            if snap is not None:
                self.dom.restore_state(snap)          # facts learnt from the branches of one path do not leak into the next
            a = args() if callable(args) else (args or [])
            k = kwargs() if callable(kwargs) else (kwargs or {})
            so = self_obj() if callable(self_obj) else self_obj
            if setup:
                setup(self)
            frame_holder = {}
            try:
                val = self.call_funcinfo(fi, list(a), dict(k), so, None, frame_holder=frame_holder, toplevel=True)
                if self.fwd:
                    val = self._settle(val, {})
                    fr_ = frame_holder.get('frame')
                    if fr_ is not None:
                        for nm_ in list(fr_.env):
                            fr_.env[nm_] = self._settle(fr_.env[nm_], {})
                    if so is not None:
                        self._settle(so, {})
                results.append(PathResult(list(self.conds), 'return', val, frame_holder.get('frame'), list(self.events)))
            except AbsRaise as e:
                results.append(PathResult(list(self.conds), 'raise', Const(e.exc), frame_holder.get('frame'), list(self.events)))
            if len(results) > self.MAX_PATHS:
                raise AnalysisError('path limit exceeded analysing %s' % fi.qual)
            # next prefix (DFS)
            tr = self.trace
            while tr and tr[-1][0] + 1 >= tr[-1][1]:
                tr.pop()
            if not tr:
                break
            prefix = [c for c, _ in tr[:-1]] + [tr[-1][0] + 1]
        if getattr(self.dom, 'skip_coincidences', False):
            results = [r for r in results if not any(e.get('kind') == 'coincidence' for e in r.events)]
        return results

    def _settle(self, v, seen):
        """the value with every in-place update applied (so that a rule inspecting a result sees current arrays)."""
        v = self.deref(v)
        if id(v) in seen:
            return v
        seen[id(v)] = True
        if isinstance(v, Obj):
            for k_ in list(v.attrs):
                v.attrs[k_] = self._settle(v.attrs[k_], seen)
        elif isinstance(v, Tup):
            v.items[:] = [self._settle(x, seen) for x in v.items]
        elif isinstance(v, DictV):
            v.entries[:] = [(k_, self._settle(x, seen)) for k_, x in v.entries]
        return v

    # -- calling -----------------------------------------------------------
    GEN_FUEL = 48

    def _is_generator(self, fi):
        g = getattr(fi, '_is_gen', None)
        if g is None:
            g = any(isinstance(n, (ast.Yield, ast.YieldFrom)) for n in walk_no_nested(fi.node))
            try:
                fi._is_gen = g
            except Exception:
                pass
        return g

    def call_funcinfo(self, fi, args, kwargs, self_obj, node, closure=None, frame_holder=None, toplevel=False, _gen=False):
        if not _gen and not toplevel and self._is_generator(fi):
            return GenV(self, fi, args, kwargs, self_obj, closure)
        if self.depth >= self.MAX_DEPTH:
            return Unknown('inlining depth')
        self.ncalls = getattr(self, 'ncalls', 0) + 1
        if self.ncalls > self.CALL_BUDGET:
            raise AnalysisError('call budget exceeded analysing %s (%d inlined calls on one path)' % (fi.qual, self.ncalls))
        if not toplevel and self.callstack.count(fi) >= 3:
            return Unknown('recursion %s' % fi.qual)          # a routine that calls itself is followed three levels deep
        a = fi.node.args
        params = [x.arg for x in a.posonlyargs + a.args]
        env = {}
        pos = list(args)
        if self_obj is not None and params and not any(d == 'staticmethod' for d in fi.decorators):
            pos = [self_obj] + pos
        defaults = a.defaults
        ndef = len(defaults)
        npar = len(params)
        frame = Frame(fi, fi.module, env, parent=closure)
        if frame_holder is not None:
            frame_holder['frame'] = frame
        for i, p in enumerate(params):
            if i < len(pos):
                env[p] = pos[i]
            elif p in kwargs:
                env[p] = kwargs.pop(p)
            else:
                di = i - (npar - ndef)
                if di >= 0:
                    dv = self.ev(defaults[di], frame)
                    env[p] = self.dom.param(fi, p, dv) if toplevel else dv
                elif toplevel:
                    env[p] = self.dom.param(fi, p, None)
                else:
                    env[p] = Unknown('missing arg %s' % p)
        if a.vararg:
            env[a.vararg.arg] = Tup(pos[npar:])
        for kw, d in zip(a.kwonlyargs, a.kw_defaults):
            if kw.arg in kwargs:
                env[kw.arg] = kwargs.pop(kw.arg)
            elif d is not None:
                env[kw.arg] = self.ev(d, frame)
            else:
                env[kw.arg] = Unknown('missing kwonly %s' % kw.arg)
        if a.kwarg:
            dv = DictV()
            for k, v in kwargs.items():
                dv.set(Const(k), v)
            env[a.kwarg.arg] = dv
        self.depth += 1
        self.callstack.append(fi)
        try:
            try:
                self.exec_block(fi.node.body, frame)
            except _Return as r:
                return r.value
            return Const(None)
        finally:
            self.depth -= 1
            self.callstack.pop()

    def call_value(self, f, args, kwargs, node, frame):
        if isinstance(f, FuncRef):
            r = self.dom.call_prysm(f.fi, ([f.bound] if f.bound is not None else []) + list(args), kwargs, node)
            if r is not None:
                return r
            return self.call_funcinfo(f.fi, args, kwargs, f.bound, node, closure=f.closure)
        if isinstance(f, LambdaRef):
            env = {}
            a = f.node.args
            names = [x.arg for x in a.posonlyargs + a.args]
            kw = dict(kwargs)
            for i, p in enumerate(names):
                if i < len(args):
                    env[p] = args[i]
                elif p in kw:
                    env[p] = kw.pop(p)
                else:
                    di = i - (len(names) - len(a.defaults))
                    env[p] = self.ev(a.defaults[di], f.frame) if di >= 0 else Unknown('missing arg %s' % p)
            if a.vararg:
                env[a.vararg.arg] = Tup(list(args[len(names):]))
            for k_, d in zip(a.kwonlyargs, a.kw_defaults):
                env[k_.arg] = kw.pop(k_.arg) if k_.arg in kw else (self.ev(d, f.frame) if d is not None else Unknown('missing kwonly %s' % k_.arg))
            if a.kwarg:
                dv = DictV()
                for k_, v in kw.items():
                    dv.set(Const(k_), v)
                env[a.kwarg.arg] = dv
            fr = Frame(f.frame.fi, f.frame.module, env, parent=f.frame)
            return self.ev(f.node.body, fr)
        if isinstance(f, PartialV):
            kw = dict(f.kwargs)
            kw.update(kwargs)
            return self.call_value(f.func, f.args + list(args), kw, node, frame)
        if isinstance(f, NTClass):
            return f.make(list(args), dict(kwargs))
        if isinstance(f, MethodCallerV) and len(args) == 1 and not kwargs:
            return self.call_value(self.getattr(args[0], f.name, node, frame), list(f.args), dict(f.kwargs), node, frame)
        if isinstance(f, ClassRef):
            r = self.dom.instantiate(f.ci, args, kwargs, node)
            if r is not None:
                return r
            nt = self._namedtuple_class(f.ci)
            if nt is not None:
                return nt.make(list(args), dict(kwargs))
            o = Obj(f.ci)
            init = self.db.method(f.ci, '__init__')
            if init is not None:
                self.call_funcinfo(init, args, kwargs, o, node)
            return o
        if isinstance(f, ExtRef) and isinstance(kwargs.get('out'), Value) and not isinstance(kwargs['out'], (Const, Unknown, Tup)) \
                and type(kwargs['out']).__module__ != __name__ and getattr(self.dom, 'alias_inplace', True):
            # np.<ufunc>(..., out=x): the result is computed as without out=, and x (through every alias of it) becomes that result
            # (whatever stands for x -- also an elementwise symbol: only an array can be given as out=)
            out = kwargs['out']
            r = self.call_value(f, args, {k: v for k, v in kwargs.items() if k != 'out'}, node, frame)
            if r is not out:
                self.fwd[id(out)] = (out, r)
            return r
        if isinstance(f, ExtRef) and f.dotted.split('.')[0] in ('functools', 'operator', 'collections', 'typing', 'itertools'):
            r = self._stdlib_ext(f.dotted, args, kwargs, node, frame)
            if r is not None:
                return r
        if isinstance(f, ExtRef):
            self.emit('extcall', name=f.dotted, args=list(args), kwargs=dict(kwargs), node=node)
            r = self._concrete_ext(f.dotted, args, kwargs)
            if r is not None:
                return r
            r = self.dom.call_ext(f.dotted, args, kwargs, node)
            if r is not None:
                return r
            r = self._generic_ext(f.dotted, args, kwargs, node)
            if r is not None:
                return r
            return Unknown('ext call %s' % f.dotted)
        if isinstance(f, BuiltinRef):
            return self.call_builtin(f.name, args, kwargs, node, frame)
        if isinstance(f, BoundMethod):
            return self.call_method(f.recv, f.name, args, kwargs, node)
        hook = getattr(self.dom, 'call_object', None)
        if hook is not None:
            r = hook(f, args, kwargs, node)
            if r is not None:
                return r
        if isinstance(f, Unknown) and f.why.startswith('unresolved name '):
            # a call of something the analysis cannot even name may do anything to its arguments: nothing after it is believed
            raise AnalysisError('%s is called (line %d of %s) and is not resolved: the effects of that call are not followed'
                                % (f.why[len('unresolved name '):], getattr(node, 'lineno', 0), self.callstack[-1].qual if self.callstack else '?'))
        return Unknown('call of %r' % (f,))

    _OPERATOR = {'add': ast.Add, 'sub': ast.Sub, 'mul': ast.Mult, 'truediv': ast.Div, 'floordiv': ast.FloorDiv, 'mod': ast.Mod, 'pow': ast.Pow,
                 'and_': ast.BitAnd, 'or_': ast.BitOr, 'xor': ast.BitXor, 'matmul': ast.MatMult,
                 'iadd': ast.Add, 'isub': ast.Sub, 'imul': ast.Mult, 'itruediv': ast.Div}
    _OPERATOR_CMP = {'eq': ast.Eq, 'ne': ast.NotEq, 'lt': ast.Lt, 'le': ast.LtE, 'gt': ast.Gt, 'ge': ast.GtE}

    def _stdlib_ext(self, dotted, args, kwargs, node, frame):
        """functools.partial / reduce, operator.*, collections.namedtuple: plain plumbing, the same in every domain"""
        if dotted == 'functools.partial' and args:
            return PartialV(args[0], args[1:], kwargs)
        if dotted == 'functools.reduce' and 2 <= len(args) <= 3 and not kwargs:
            its = self.iterate(args[1], node)
            if its is None:
                return Unknown('reduce over a sequence that is not followed')
            its = list(its)
            if len(args) == 3:
                acc = args[2]
            elif its:
                acc = its.pop(0)
            else:
                return Unknown('reduce of an empty sequence')
            for x in its:
                acc = self.call_value(args[0], [acc, x], {}, node, frame)
            return acc
        if dotted == 'collections.namedtuple' and len(args) >= 2 and isinstance(args[0], Const):
            fl = args[1]
            names = None
            if isinstance(fl, Const) and isinstance(fl.v, str):
                names = fl.v.replace(',', ' ').split()
            elif isinstance(fl, Tup) and all(isinstance(x, Const) and isinstance(x.v, str) for x in fl.items):
                names = [x.v for x in fl.items]
            if names is None:
                return Unknown('namedtuple with fields that are not followed')
            dflt = kwargs.get('defaults')
            dl = self.iterate(dflt, node) if dflt is not None and not (isinstance(dflt, Const) and dflt.v is None) else []
            if dl is None:
                return Unknown('namedtuple with defaults that are not followed')
            return NTClass(args[0].v, names, dl)
        if dotted == 'itertools.count' and len(args) <= 2 and not kwargs and all(isinstance(a, Const) and isinstance(a.v, int) for a in args):
            return CountV(args[0].v if args else 0, args[1].v if len(args) > 1 else 1)
        if dotted == 'itertools.islice' and 2 <= len(args) <= 4 and not kwargs and all(isinstance(a, Const) and (a.v is None or isinstance(a.v, int)) for a in args[1:]):
            lo, hi, st_ = (0, args[1].v, 1) if len(args) == 2 else (args[1].v or 0, args[2].v, (args[3].v if len(args) > 3 else None) or 1)
            src = args[0]
            if hi is None and isinstance(src, (GenV, CountV, LazySeqV)):
                lz = LazySeqV('slice', [src], lo)           # everything from item lo on, in steps: produced on demand
                lz.step = st_
                return lz
            if hi is None and not isinstance(src, (Tup, IterV)):
                return Unknown('islice without an end of something unbounded')
            if isinstance(src, GenV):
                items, fin = src.rest(hi)
            elif isinstance(src, CountV):
                items = [Const(src.start + src.step * (src.pos + k)) for k in range(hi)]
                src.pos += hi
            else:
                items = self.iterate(src, node)
                if isinstance(src, IterV) and items is not None:
                    src.pos += min(len(items), hi if hi is not None else len(items))
            if items is None:
                return Unknown('islice of a sequence that is not followed')
            return IterV(items[lo:hi:st_])
        if dotted == 'operator.methodcaller' and args and isinstance(args[0], Const) and isinstance(args[0].v, str):
            return MethodCallerV(args[0].v, args[1:], kwargs)
        if dotted.startswith('operator.'):
            nm = dotted.split('.', 1)[1]
            if nm in self._OPERATOR and len(args) == 2:
                return self.binop(self._OPERATOR[nm](), args[0], args[1], node)
            if nm in self._OPERATOR_CMP and len(args) == 2:
                t = self.compare(self._OPERATOR_CMP[nm](), args[0], args[1], node)
                return Const(t) if t is not None else None
            if nm == 'neg' and len(args) == 1:
                return self.ev_unary_value(ast.USub(), args[0], node)
            if nm == 'getitem' and len(args) == 2:
                return self.subscript(args[0], args[1], node)
            if nm in ('itemgetter', 'attrgetter') and args and all(isinstance(a, Const) for a in args):
                return PartialV(ExtRef('operator._' + nm), list(args), {})
            if nm in ('_itemgetter', '_attrgetter') and len(args) >= 2:
                keys, obj = args[:-1], args[-1]
                get = (lambda k: self.subscript(obj, k, node)) if nm == '_itemgetter' else (lambda k: self.getattr(obj, k.v, node, frame))
                vals = [get(k) for k in keys]
                return vals[0] if len(vals) == 1 else Tup(vals)
        return None

    def _namedtuple_class(self, ci):
        """NTClass for a class statement that derives from a namedtuple (class X(namedtuple('X', 'a b')), class X(_XBase) with
        _XBase = namedtuple(...), class X(NamedTuple) with annotated fields); None for any other class"""
        cache = self.__dict__.setdefault('_nt_cache', {})
        if ci.qual in cache:
            return cache[ci.qual]
        cache[ci.qual] = None
        out = None
        if not any(m in ci.methods for m in ('__new__', '__init__')):
            for b in ci.node.bases:
                txt = ast.unparse(b)
                if txt in ('NamedTuple', 'typing.NamedTuple'):
                    fr = Frame(None, ci.module, {})
                    defaults = [self.ev(v, fr) for _, v in ci.fields if v is not None]
                    out = NTClass(ci.name, [n for n, _ in ci.fields], defaults, ci)
                    break
                if isinstance(b, ast.Call) or (isinstance(b, ast.Name) and b.id in ci.module.assigns):
                    fr = Frame(None, ci.module, {})
                    v = self.ev(b, fr)
                    if isinstance(v, NTClass):
                        out = NTClass(ci.name, v.fields, v.defaults, ci)
                        break
                if isinstance(b, ast.Name):
                    r = self.db.resolve_name(ci.module, b.id)
                    from .db import ClassInfo as _CI
                    if isinstance(r, _CI):
                        base = self._namedtuple_class(r)
                        if base is not None:
                            out = NTClass(ci.name, base.fields, base.defaults, ci)
                            break
        cache[ci.qual] = out
        return out

    def _concrete_ext(self, dotted, args, kwargs):
        """numpy bookkeeping functions on fully concrete integer sequences (request lists, orders): evaluated exactly"""
        if not dotted.startswith('numpy.') or not args:
            return None
        last = dotted.rsplit('.', 1)[-1]
        if last not in ('abs', 'absolute', 'unique', 'arange', 'sort', 'max', 'min', 'amax', 'amin', 'ndindex'):
            return None

        def seq(v):
            if isinstance(v, Tup) and v.items and all(isinstance(x, Const) and isinstance(x.v, int) and not isinstance(x.v, bool) for x in v.items):
                return [x.v for x in v.items]
            return None
        if last == 'ndindex' and not kwargs:
            dims = [a.v for a in (args[0].items if len(args) == 1 and isinstance(args[0], Tup) else args) if isinstance(a, Const) and isinstance(a.v, int) and not isinstance(a.v, bool)]
            n_given = len(args[0].items) if len(args) == 1 and isinstance(args[0], Tup) else len(args)
            if len(dims) == n_given and all(0 <= d <= 16 for d in dims):
                import itertools
                return GenExpV([Tup([Const(i) for i in idx]) for idx in itertools.product(*[range(d) for d in dims])])
            return None
        if last == 'arange':
            if all(isinstance(a, Const) and isinstance(a.v, int) and not isinstance(a.v, bool) for a in args) and set(kwargs) <= {'dtype'} \
                    and not (len(args) == 1 and args[0].v > 64):
                return Tup([Const(k) for k in range(*[a.v for a in args])], 'list')
            return None
        if kwargs or len(args) != 1:
            return None
        xs = seq(args[0])
        if xs is None:
            return None
        if last in ('abs', 'absolute'):
            return Tup([Const(abs(k)) for k in xs], 'list')
        if last == 'unique':
            return Tup([Const(k) for k in sorted(set(xs))], 'list')
        if last == 'sort':
            return Tup([Const(k) for k in sorted(xs)], 'list')
        return Const(max(xs) if last in ('max', 'amax') else min(xs))

    _UFUNC_BINOP = {'multiply': ast.Mult, 'add': ast.Add, 'subtract': ast.Sub, 'divide': ast.Div, 'true_divide': ast.Div, 'power': ast.Pow,
                    'floor_divide': ast.FloorDiv, 'mod': ast.Mod, 'remainder': ast.Mod, 'matmul': ast.MatMult}

    def _generic_ext(self, dotted, args, kwargs, node):
        if dotted.startswith('numpy.') and not kwargs:
            last = dotted[6:]
            # the function spelling of an operator (np.multiply(a, b) is a * b): whatever the domain makes of the operator
            if last in self._UFUNC_BINOP and len(args) == 2:
                return self.binop(self._UFUNC_BINOP[last](), args[0], args[1], node)
            if last == 'square' and len(args) == 1:
                return self.binop(ast.Mult(), args[0], args[0], node)
            if last == 'negative' and len(args) == 1:
                return self.ev_unary_value(ast.USub(), args[0], node)
            if last == 'reciprocal' and len(args) == 1:
                return self.binop(ast.Div(), Const(1), args[0], node)
        if dotted in ('math.ceil', 'math.floor') and args and isinstance(args[0], Const) and isinstance(args[0].v, (int, float)):
            import math
            return Const(getattr(math, dotted.split('.')[1])(args[0].v))
        if dotted in ('itertools.chain', 'itertools.chain.from_iterable'):
            seqs = args
            if dotted.endswith('from_iterable') and args:
                seqs = self.iterate(args[0], node) or []
            out = []
            for a in seqs:
                it = self.iterate(a, node)
                if it is None:
                    return Unknown('chain over unknown')
                out.extend(it)
            return Tup(out, 'tuple')
        if dotted == 'warnings.warn':
            self.emit('warn', node=node)
            return Const(None)
        if dotted == 'collections.defaultdict' and len(args) <= 1 and not kwargs:
            d = DictV()
            d.default_factory = args[0] if args else None
            return d
        return None

    def call_method(self, recv, name, args, kwargs, node):
        if name == '__getitem__' and len(args) == 1 and not kwargs and not isinstance(recv, (BuiltinRef, NTClass)):
            return self.subscript(recv, args[0], node)          # seq.__getitem__ handed around as a function
        if isinstance(recv, BuiltinRef) and recv.name == 'dict' and name == 'fromkeys' and 1 <= len(args) <= 2:
            keys = self.iterate(args[0], node)
            if keys is not None:
                d = DictV()
                for k_ in keys:
                    d.set(k_, args[1] if len(args) > 1 else Const(None))
                return d
        if isinstance(recv, NTClass) and name == '_make' and len(args) == 1:
            its = self.iterate(args[0], node)
            return recv.make(its, {}) if its is not None else Unknown('_make of a sequence that is not followed')
        if isinstance(recv, NTup):
            if name == '_replace' and not args:
                items = list(recv.items)
                for k, v in kwargs.items():
                    if k not in recv.fields:
                        return Unknown('_replace of a field the tuple does not have')
                    items[recv.fields.index(k)] = v
                return NTup(items, recv.fields, recv.ci)
            if name == '_asdict' and not args:
                d = DictV()
                for k, v in zip(recv.fields, recv.items):
                    d.set(Const(k), v)
                return d
        if isinstance(recv, Tup):
            if name == 'append' and recv.kind == 'list':
                recv.items.append(args[0])
                return Const(None)
            if name == 'add' and recv.kind == 'set' and len(args) == 1 and isinstance(args[0], Const) and all(isinstance(i, Const) for i in recv.items):
                if args[0] not in recv.items:
                    recv.items.append(args[0])
                return Const(None)
            if name == 'extend' and recv.kind == 'list' and isinstance(args[0], Tup):
                recv.items.extend(args[0].items)
                return Const(None)
            if name == 'count' and len(args) == 1 and isinstance(args[0], Const) and all(isinstance(i_, Const) for i_ in recv.items):
                return Const(sum(1 for i_ in recv.items if i_ == args[0]))
            if name == 'index':
                for i, it in enumerate(recv.items):
                    if it == args[0]:
                        return Const(i)
                return Unknown('index')
            if recv.kind == 'list':
                if name == 'reverse' and not args and not kwargs:
                    recv.items.reverse()
                    return Const(None)
                if name == 'copy' and not args:
                    return Tup(list(recv.items), 'list')
                if name == 'clear' and not args:
                    del recv.items[:]
                    return Const(None)
                if name == 'insert' and len(args) == 2 and isinstance(args[0], Const) and isinstance(args[0].v, int):
                    recv.items.insert(args[0].v, args[1])
                    return Const(None)
                if name == 'pop' and len(args) <= 1 and (not args or (isinstance(args[0], Const) and isinstance(args[0].v, int))):
                    k_ = args[0].v if args else -1
                    if recv.items and -len(recv.items) <= k_ < len(recv.items):
                        return recv.items.pop(k_)
                    raise AbsRaise('IndexError', node)
                if name == 'sort' and not args and set(kwargs) <= {'reverse'} and all(isinstance(i_, Const) and isinstance(i_.v, (int, float, str)) for i_ in recv.items) \
                        and isinstance(kwargs.get('reverse', Const(False)), Const):
                    try:
                        recv.items.sort(key=lambda c_: c_.v, reverse=bool(kwargs.get('reverse', Const(False)).v))
                        return Const(None)
                    except TypeError:
                        pass
                if name in ('reverse', 'sort', 'insert', 'pop', 'remove', 'clear', 'extend', 'append', '__setitem__', '__delitem__', '__iadd__', '__imul__'):
                    # a mutation of a list the analysis holds, in a form it does not model: nothing read from the list afterwards would be right
                    raise AnalysisError('list.%s(...) at line %d is not followed: the list it changes is no longer known' % (name, getattr(node, 'lineno', 0)))
            if recv.kind == 'set' and name in ('add', 'discard', 'remove', 'update', 'clear', 'pop', 'difference_update', 'intersection_update'):
                raise AnalysisError('set.%s(...) at line %d is not followed: the set it changes is no longer known' % (name, getattr(node, 'lineno', 0)))
        if isinstance(recv, DictV):
            if name == 'get':
                v = recv.get(args[0])
                if v is not None:
                    return v
                return args[1] if len(args) > 1 else Const(None)
            if name == 'setdefault' and 1 <= len(args) <= 2 and not isinstance(args[0], Unknown):
                v = recv.get(args[0])
                if v is None and recv.open:
                    return Unknown('setdefault on a dictionary whose keys are not all known')
                if v is None:
                    v = args[1] if len(args) > 1 else Const(None)
                    recv.set(args[0], v)
                return v
            if name == 'pop' and 1 <= len(args) <= 2 and not isinstance(args[0], Unknown):
                v = recv.get(args[0])
                if v is None and recv.open:
                    return Unknown('pop from a dictionary whose keys are not all known')
                if v is None:
                    return args[1] if len(args) > 1 else Unknown('pop of a missing key')
                recv.entries = [(k, x) for k, x in recv.entries if not (k == args[0])]
                return v
            if name == 'copy' and not args and not recv.open:
                d = DictV()
                d.entries = list(recv.entries)
                d.default_factory = getattr(recv, 'default_factory', None)
                return d
            if name == 'update' and len(args) <= 1 and not recv.open and (not args or (isinstance(args[0], DictV) and not args[0].open)):
                for k, x in (args[0].entries if args else []):
                    recv.set(k, x)
                for k, x in kwargs.items():
                    recv.set(Const(k), x)
                return Const(None)
            if name == 'clear' and not args:
                recv.entries = []
                recv.open = False
                return Const(None)
            if name in ('keys', 'values', 'items') and recv.open:
                return Unknown('%s of a dictionary whose keys are not all known' % name)
            if name == 'keys':
                return Tup([k for k, _ in recv.entries])
            if name == 'values':
                return Tup([v for _, v in recv.entries])
            if name == 'items':
                return Tup([Tup([k, v]) for k, v in recv.entries])
        if isinstance(recv, Const) and isinstance(recv.v, str):
            try:
                if all(isinstance(a, Const) for a in args):
                    return Const(getattr(recv.v, name)(*[a.v for a in args]))
            except Exception:
                pass
        r = self.dom.method(recv, name, args, kwargs, node)
        if r is not None:
            return r
        return Unknown('method %s' % name)

    def call_builtin(self, name, args, kwargs, node, frame):
        r = self.dom.call_ext('builtins.' + name, args, kwargs, node)
        if r is not None:
            return r
        if name == 'isinstance' and len(args) == 2:
            return self._isinstance(args[0], args[1])
        if name == 'len' and args:
            if isinstance(args[0], Tup):
                return Const(len(args[0].items))
            if isinstance(args[0], Const) and isinstance(args[0].v, (str, tuple, list)):
                return Const(len(args[0].v))
            if isinstance(args[0], DictV) and not args[0].open:
                return Const(len(args[0].entries))
            return Unknown('len')
        if name == 'set' and len(args) <= 1 and not kwargs:
            if not args:
                return Tup([], 'set')
            its = self.iterate(args[0], node)
            if its is not None and all(isinstance(i, Const) for i in its):
                out = []
                for i in its:
                    if i not in out:
                        out.append(i)
                return Tup(out, 'set')
            return Unknown('set')
        if name in ('tuple', 'list'):
            if not args:
                return Tup([], name)
            if isinstance(args[0], Tup):
                return Tup(args[0].items, name)
            it = self.iterate(args[0], node)
            if it is not None:
                return Tup(it, name)
            return Unknown(name)
        if name == 'range':
            if all(isinstance(a, Const) and isinstance(a.v, int) for a in args) and args:
                rg = range(*[a.v for a in args])
                if len(rg) <= 64:
                    return Tup([Const(i) for i in rg], 'range')
            return Unknown('range')
        if name == 'iter' and len(args) == 1 and not kwargs:
            if isinstance(args[0], (GenV, IterV, CountV)):
                return args[0]
            its = self.iterate(args[0], node)
            return IterV(its) if its is not None else Unknown('iter of something that is not followed')
        if name == 'next' and args and isinstance(args[0], LazySeqV) and len(args) <= 2 and not kwargs:
            try:
                nxt = self._lazy_item(args[0], 0, node)
            except _GenAbort:
                return Unknown('next() of an iterator that is not followed')
            if nxt is None:
                return args[1] if len(args) == 2 else Unknown('next() of an exhausted iterator')
            self._lazy_advance(args[0], 1)
            return nxt[0]
        if name == 'next' and args and isinstance(args[0], (IterV, CountV, GenExpV)) and len(args) <= 2 and not kwargs:
            g = args[0]
            if isinstance(g, CountV):
                g.pos += 1
                return Const(g.start + g.step * (g.pos - 1))
            if g.pos < len(g.items):
                g.pos += 1
                return g.items[g.pos - 1]
            return args[1] if len(args) == 2 else Unknown('next() of an exhausted iterator')
        if name == 'divmod' and len(args) == 2 and all(isinstance(a, Const) and isinstance(a.v, int) and not isinstance(a.v, bool) for a in args) and args[1].v != 0:
            q, r_ = divmod(args[0].v, args[1].v)
            return Tup([Const(q), Const(r_)])
        if name == 'next' and args and isinstance(args[0], GenV) and len(args) <= 2 and not kwargs:
            g = args[0]
            items, fin = g.take(g.pos + 1)
            if items is None:
                return Unknown('next() of a generator that is not followed')
            if len(items) > g.pos:
                g.pos += 1
                return items[g.pos - 1]
            if len(args) == 2:
                return args[1]
            return Unknown('next() of an exhausted generator')
        def _endless(a):
            if isinstance(a, (CountV, LazySeqV)):
                return True
            if isinstance(a, GenV):
                if self._gen_stack:
                    return True
                probe, fin_ = a.take(a.pos + self.GEN_FUEL)
                return probe is not None and not fin_
            return False
        if name == 'enumerate' and args and _endless(args[0]):
            st_ = args[1] if len(args) > 1 else kwargs.get('start', Const(0))
            if isinstance(st_, Const) and isinstance(st_.v, int):
                return LazySeqV('enumerate', [args[0]], st_.v)
        if name == 'zip' and args and all(_endless(a) for a in args):
            return LazySeqV('zip', list(args))
        if name in ('zip', 'enumerate') and any(isinstance(a, CountV) for a in args):
            if name == 'zip':
                others = [self.iterate(a, node) if not isinstance(a, (CountV, GenV)) else None for a in args]
                if any(isinstance(a, GenV) for a in args):
                    fin_n = min([len(o) for o in others if o is not None], default=None)
                    for k, a in enumerate(args):
                        if isinstance(a, GenV):
                            items, fin = a.rest(fin_n if fin_n is not None else self.GEN_FUEL)
                            if items is None or (fin_n is None and not fin):
                                return Unknown('zip over generators that are not followed')
                            others[k] = items
                            fin_n = len(items) if fin_n is None else min(fin_n, len(items))
                n_ = min([len(o) for o in others if o is not None], default=None)
                if n_ is None:
                    return Unknown('zip of unbounded iterators only')
                cols = []
                for a, o in zip(args, others):
                    if isinstance(a, CountV):
                        cols.append([Const(a.start + a.step * (a.pos + k)) for k in range(n_)])
                        # zip asks every iterator in turn: the counter is advanced once more than the pairs made when a later
                        # iterator is the one that runs out first
                        later_shorter = any(o2 is not None and len(o2) == n_ for a2, o2 in list(zip(args, others))[args.index(a) + 1:])
                        a.pos += n_ + (1 if later_shorter else 0)
                    else:
                        cols.append(o[:n_])
                return Tup([Tup(list(x)) for x in zip(*cols)], 'zip')
            return Unknown('enumerate of an unbounded counter')
        if name == 'zip' and any(isinstance(a, GenV) and a.pos for a in args):
            return Unknown('zip over a partly consumed generator')
        if name == 'zip' and any(isinstance(a, GenV) for a in args):
            # demand driven: the shortest finite argument bounds how much is taken from the others
            its = [None if isinstance(a, GenV) else self.iterate(a, node) for a in args]
            if any(i is None and not isinstance(a, GenV) for i, a in zip(its, args)):
                return Unknown('zip')
            n = min([len(i) for i in its if i is not None], default=None)
            pending = [k for k, a in enumerate(args) if isinstance(a, GenV)]
            for attempt in range(2):
                for k in list(pending):
                    items, fin = args[k].take(n if n is not None else self.GEN_FUEL)
                    if items is None:
                        return Unknown('zip over a generator that is not followed')
                    if fin or n is not None:
                        its[k] = items
                        n = len(items) if n is None else min(n, len(items))
                        pending.remove(k)
                if not pending or n is None:
                    break
            if pending:
                return Unknown('zip over generators that do not end')
            return Tup([Tup(list(x)) for x in zip(*[i[:n] for i in its])], 'zip')
        if name == 'zip':
            its = [self.iterate(a, node) for a in args]
            if all(i is not None for i in its):
                return Tup([Tup(list(x)) for x in zip(*its)], 'zip')
            return Unknown('zip')
        if name == 'enumerate':
            it = self.iterate(args[0], node)
            if it is not None:
                st_ = args[1] if len(args) > 1 else kwargs.get('start')
                if st_ is not None and not (isinstance(st_, Const) and isinstance(st_.v, int)):
                    return Unknown('enumerate with a non-constant start')
                start = st_.v if st_ is not None else 0
                return Tup([Tup([Const(i + start), x]) for i, x in enumerate(it)], 'enumerate')
            return Unknown('enumerate')
        if name == 'reversed':
            it = self.iterate(args[0], node)
            if it is not None:
                return Tup(list(reversed(it)))
            return Unknown('reversed')
        if name == 'sorted' and len(args) == 1 and set(kwargs) <= {'reverse'}:
            it = self.iterate(args[0], node)
            rev = kwargs.get('reverse', Const(False))
            if it is not None and isinstance(rev, Const) and all(isinstance(x, Const) and isinstance(x.v, (int, float, str)) and not isinstance(x.v, bool) for x in it) \
                    and len({type(x.v) is str for x in it}) <= 1:
                return Tup(sorted(it, key=lambda c: c.v, reverse=bool(rev.v)), 'list')
            return Unknown('sorted')
        if name in ('float', 'int', 'bool', 'abs', 'round', 'str', 'complex') and args and all(isinstance(a, Const) for a in args):
            try:
                return Const({'float': float, 'int': int, 'bool': bool, 'abs': abs, 'round': round, 'str': str, 'complex': complex}[name](*[a.v for a in args]))
            except Exception:
                return Unknown(name)
        if name in ('max', 'min'):
            vals = args
            if len(args) == 1:
                it = self.iterate(args[0], node)
                vals = it if it is not None else None
            if vals and all(isinstance(a, Const) and isinstance(a.v, (int, float)) for a in vals):
                return Const((max if name == 'max' else min)(a.v for a in vals))
            if vals is not None and not vals and len(args) == 1 and 'default' in kwargs:
                return kwargs['default']
            return Unknown(name)
        if name == 'sum':
            it = self.iterate(args[0], node) if args else None
            if it is not None:
                acc = args[1] if len(args) > 1 else Const(0)
                for x in it:
                    acc = self.binop(ast.Add(), acc, x, node)
                return acc
            return Unknown('sum')
        if name in ('any', 'all') and len(args) == 1:
            it = self.iterate(args[0], node)
            if it is not None:
                ts = [self.truth(x) for x in it]
                if all(t is not None for t in ts):
                    return Const(any(ts) if name == 'any' else all(ts))
                if name == 'any' and any(t is True for t in ts):
                    return Const(True)
                if name == 'all' and any(t is False for t in ts):
                    return Const(False)
            return Unknown(name)
        if name == 'hasattr' and len(args) == 2 and isinstance(args[1], Const):
            if isinstance(args[0], Obj):
                return Const(args[1].v in args[0].attrs or self.db.method(args[0].ci, args[1].v) is not None)
            if isinstance(args[0], NTup):
                return Const(args[1].v in args[0].fields or hasattr((), args[1].v) or (args[0].ci is not None and self.db.method(args[0].ci, args[1].v) is not None))
            if isinstance(args[0], Tup) and args[0].kind in ('list', 'tuple', 'set', 'range'):
                return Const(hasattr({'list': [], 'tuple': (), 'set': set(), 'range': range(0)}[args[0].kind], args[1].v))
            if isinstance(args[0], DictV):
                return Const(hasattr({}, args[1].v))
            if isinstance(args[0], Const) and not isinstance(args[0].v, type(Ellipsis)):
                return Const(hasattr(args[0].v, args[1].v))
            return Unknown('hasattr')
        if name == 'callable' and args:
            if isinstance(args[0], (FuncRef, LambdaRef, ClassRef, ExtRef, BuiltinRef, BoundMethod)):
                return Const(True)
            if isinstance(args[0], (Const, Tup)):
                return Const(False)
            return Unknown('callable')
        if name == 'getattr' and len(args) >= 2 and isinstance(args[1], Const):
            if len(args) == 3:
                # getattr(o, name, default) is `o.name if hasattr(o, name) else default`: the same decision as hasattr takes
                h = self.call_builtin('hasattr', [args[0], args[1]], {}, node, frame)
                if isinstance(h, Const) and h.v is False:
                    return args[2]
            return self.getattr(args[0], args[1].v, node, frame)
        if name == 'setattr' and len(args) == 3 and isinstance(args[1], Const) and isinstance(args[1].v, str):
            self.setattr(args[0], args[1].v, args[2], node, frame)
            return Const(None)
        if name == 'property' and len(args) <= 4:
            g = kwargs.get('fget', args[0] if args else Const(None))
            st_ = kwargs.get('fset', args[1] if len(args) > 1 else Const(None))
            return PropertyV(g, st_)
        if name == 'dict' and not args:
            d = DictV()
            for k, v in kwargs.items():
                d.set(Const(k), v)
            return d
        if name == 'dict' and len(args) == 1:
            # dict(mapping) / dict(iterable of pairs), plus keywords
            d = DictV()
            src = args[0]
            if isinstance(src, DictV):
                d.entries = list(src.entries)
                d.open = src.open
            else:
                pairs = self.iterate(src, node)
                if pairs is None or not all(isinstance(p_, Tup) and len(p_.items) == 2 for p_ in pairs):
                    return Unknown('dict of a non-pair iterable')
                for p_ in pairs:
                    d.set(p_.items[0], p_.items[1])
            for k, v in kwargs.items():
                d.set(Const(k), v)
            return d
        if name == 'slice':
            a = list(args) + [Const(None)] * 3
            if len(args) == 1:
                return Slice(Const(None), args[0], Const(None))
            return Slice(a[0], a[1], a[2])
        if name == 'print':
            return Const(None)
        if name == 'filter' and len(args) == 2:
            its = self.iterate(args[1], node)
            if its is not None:
                keep = []
                for x in its:
                    t = self.truth(x if (isinstance(args[0], Const) and args[0].v is None) else self.call_value(args[0], [x], {}, node, frame))
                    if t is None:
                        return Unknown('filter with a test that is not decided')
                    if t:
                        keep.append(x)
                return Tup(keep)
        if name == 'map' and len(args) >= 2:
            its = [self.iterate(a, node) for a in args[1:]]
            if all(i is not None for i in its):
                return Tup([self.call_value(args[0], list(xs), {}, node, frame) for xs in zip(*its)])
        return Unknown('builtin %s' % name)

    def _isinstance(self, v, t):
        types = t.items if isinstance(t, Tup) else [t]
        names = []
        for x in types:
            if isinstance(x, BuiltinRef):
                names.append(x.name)
            elif isinstance(x, ExtRef):
                names.append(x.dotted.split('.')[-1])
            elif isinstance(x, ClassRef):
                names.append(x.ci)
            else:
                return Unknown('isinstance type')
        r = self.dom.isinstance(v, names) if hasattr(self.dom, 'isinstance') else None
        if r is not None:
            return Const(r)
        if isinstance(v, Tup):
            k = v.kind if v.kind in ('tuple', 'list') else 'tuple'
            return Const(any(n in (k, 'Iterable', 'Sequence') for n in names if isinstance(n, str)))
        if isinstance(v, Const):
            pyt = type(v.v).__name__
            ok = False
            for n in names:
                if not isinstance(n, str):
                    continue
                if n == pyt or (n == 'int' and pyt == 'bool') or (n == 'Number' and pyt in ('int', 'float', 'complex')) \
                        or (n == 'Iterable' and pyt in ('str', 'tuple', 'list')) or (n == 'Real' and pyt in ('int', 'float')) \
                        or (n == 'Integral' and pyt == 'int'):
                    ok = True
            return Const(ok)
        if isinstance(v, Obj):
            chain = self.db.class_chain(v.ci)
            for n in names:
                if isinstance(n, ClassInfo) and n in chain:
                    return Const(True)
            return Const(False)
        return Unknown('isinstance')

    def iterate(self, v, node):
        if isinstance(v, GenExpV):
            out = v.items[v.pos:]
            v.pos = len(v.items)
            return out
        if isinstance(v, IterV):
            out = v.items[v.pos:]
            v.pos = len(v.items)
            return out
        if isinstance(v, GenV):
            items, fin = v.rest(self.GEN_FUEL)
            return items if (items is not None and fin) else None
        if isinstance(v, Tup):
            return list(v.items)
        if isinstance(v, Const) and isinstance(v.v, (tuple, list, str)):
            return [Const(x) for x in v.v]
        if isinstance(v, DictV):
            if v.open:
                return None
            return [k for k, _ in v.entries]
        return self.dom.iterate(v, node)

    # -- statements --------------------------------------------------------
    def exec_block(self, stmts, frame):
        for st in stmts:
            self.exec_stmt(st, frame)

    def exec_stmt(self, st, frame):
        self.dom.on_stmt(st, frame)
        m = getattr(self, 'st_' + type(st).__name__, None)
        if m is None:
            # a statement kind the interpreter has no rule for (match, a class statement inside a function, async forms ...): its effect on
            # the state is not known, so the routine is not followed -- never skipped
            raise AnalysisError('`%s` statement at line %d of %s is not followed' % (type(st).__name__, getattr(st, 'lineno', 0), frame.fi.qual if frame.fi is not None else '<module>'))
        return m(st, frame)

    def st_Nonlocal(self, st, frame):
        # assignments to these names go to the enclosing function's frame
        frame.outer_names = set(getattr(frame, 'outer_names', ())) | set(st.names)

    def st_Global(self, st, frame):
        frame.global_names = set(getattr(frame, 'global_names', ())) | set(st.names)

    def st_Expr(self, st, frame):
        if isinstance(st.value, ast.Constant):
            return
        self.ev(st.value, frame)

    def st_Return(self, st, frame):
        raise _Return(self.ev(st.value, frame) if st.value is not None else Const(None))

    def st_Raise(self, st, frame):
        name = 'Exception'
        e = st.exc
        if isinstance(e, ast.Call):
            e = e.func
        if isinstance(e, ast.Name):
            name = e.id
        raise AbsRaise(name, st)

    def st_Assert(self, st, frame):
        t = self.truth(self.ev(st.test, frame))
        if t is False:
            raise AbsRaise('AssertionError', st)

    def st_Pass(self, st, frame):
        pass

    def st_Break(self, st, frame):
        raise _Break()

    def st_Continue(self, st, frame):
        raise _Continue()

    def st_FunctionDef(self, st, frame):
        fi = FuncInfo(frame.module, '%s.<locals>.%s' % (frame.fi.qual if frame.fi else frame.module.name, st.name), st)
        frame.env[st.name] = FuncRef(fi, closure=frame)

    def st_Import(self, st, frame):
        for a in st.names:
            frame.env[a.asname or a.name.split('.')[0]] = ExtRef(a.name if a.asname else a.name.split('.')[0])

    def st_ImportFrom(self, st, frame):
        for a in st.names:
            frame.env[a.asname or a.name] = ExtRef('%s.%s' % (st.module, a.name))

    def st_Assign(self, st, frame):
        w = getattr(self, 'watch', None)
        reads = None
        if w and id(st) in w:
            reads = {x.id: frame.env.get(x.id) for x in ast.walk(st.value) if isinstance(x, ast.Name) and x.id in frame.env}
        v = self.ev(st.value, frame)
        for t in st.targets:
            self.assign(t, v, frame, st)
        if reads is not None:
            # a rule asked to see what this statement binds (and what it read), in whichever frame (helper) it is executed
            names = [x.id for t in st.targets for x in ast.walk(t) if isinstance(x, ast.Name)]
            self.emit('watched', node=st, env={nm: frame.env.get(nm) for nm in names}, reads=reads)

    def st_AnnAssign(self, st, frame):
        if st.value is not None:
            self.assign(st.target, self.ev(st.value, frame), frame, st)

    def st_AugAssign(self, st, frame):
        cur = self.ev(_load(st.target), frame)
        val = self.ev(st.value, frame)
        r = self.dom.augassign(st.op, cur, val, st)
        if r is None:
            r = self.binop(st.op, cur, val, st)
        # an in-place operation on an array is seen through every alias of that array (another local bound by a plain
        # copy, an element of an argument tuple, the caller's variable when a helper shifts its argument in place):
        # the old abstract value forwards to the new one
        if getattr(cur, 'is_array', False) and hasattr(self.dom, 'mark_array'):
            r = self.dom.mark_array(r)          # still an array after the operation
        if isinstance(st.target, ast.Name) and isinstance(cur, Value) and r is not cur and type(cur).__module__ != __name__ \
                and (type(cur).__name__ not in ('Sym', 'Dim', 'Scalar') or getattr(cur, 'is_array', False)) and getattr(self.dom, 'alias_inplace', True):
            # (symbolic scalars are immutable Python numbers: `k += 1` rebinds k only)
            self.fwd[id(cur)] = (cur, r)
        self.assign(st.target, r, frame, st, aug=True)

    def st_Delete(self, st, frame):
        for t in st.targets:
            if isinstance(t, ast.Name):
                frame.env.pop(t.id, None)
            elif isinstance(t, ast.Subscript):
                o = self.ev(t.value, frame)
                idx = self.ev_index(t.slice, frame)
                if isinstance(o, DictV) and _concrete(idx):
                    n0 = len(o.entries)
                    o.entries = [(k, v) for k, v in o.entries if not (k == idx)]
                    if len(o.entries) == n0 and not o.open:
                        raise AbsRaise('KeyError', st)
                elif isinstance(o, Tup) and o.kind == 'list' and isinstance(idx, Const) and isinstance(idx.v, int) and -len(o.items) <= idx.v < len(o.items):
                    del o.items[idx.v]
                elif isinstance(o, Tup) and o.kind == 'list' and isinstance(idx, Slice) and all(isinstance(x, Const) for x in (idx.lo, idx.hi, idx.step)):
                    del o.items[slice(idx.lo.v, idx.hi.v, idx.step.v)]
                elif isinstance(o, Unknown):
                    pass
                else:
                    # an entry removed from a container under a key that is not followed: what the container holds afterwards is not known
                    raise AnalysisError('`%s` at line %d is not followed' % (ast.unparse(st)[:60], st.lineno))
            elif isinstance(t, ast.Attribute):
                o = self.ev(t.value, frame)
                if isinstance(o, Obj):
                    o.attrs.pop(t.attr, None)
                elif not isinstance(o, Unknown):
                    raise AnalysisError('`%s` at line %d is not followed' % (ast.unparse(st)[:60], st.lineno))

    def st_If(self, st, frame):
        if self.branch(st.test, frame):
            self.exec_block(st.body, frame)
        else:
            self.exec_block(st.orelse, frame)

    def st_With(self, st, frame):
        for item in st.items:
            v = self.ev(item.context_expr, frame)
            if item.optional_vars is not None:
                self.assign(item.optional_vars, v, frame, st)
        self.exec_block(st.body, frame)

    def st_Try(self, st, frame):
        try:
            self.exec_block(st.body, frame)
        except AbsRaise as e:
            for h in st.handlers:
                if self._handler_matches(h, e.exc):
                    if h.name:
                        frame.env[h.name] = Unknown('exception object')
                    self.exec_block(h.body, frame)
                    break
            else:
                self.exec_block(st.finalbody, frame)
                raise
        else:
            self.exec_block(st.orelse, frame)
        self.exec_block(st.finalbody, frame)

    def _handler_matches(self, h, exc):
        if h.type is None:
            return True
        names = []
        t = h.type
        for x in (t.elts if isinstance(t, ast.Tuple) else [t]):
            names.append(x.id if isinstance(x, ast.Name) else getattr(x, 'attr', ''))
        if 'Exception' in names or 'BaseException' in names:
            return True
        return exc in names

    def _lazy_item(self, v, k, node):
        """the k-th not yet consumed item of an iterator that is walked on demand: (item,) or None when it is exhausted; _GenAbort
        when it cannot be followed"""
        if isinstance(v, CountV):
            return (Const(v.start + v.step * (v.pos + k)),)
        if isinstance(v, GenV):
            items, fin = v.take(v.pos + k + 1)
            if items is None:
                raise _GenAbort()
            return (items[v.pos + k],) if len(items) > v.pos + k else None
        if isinstance(v, (IterV, GenExpV)):
            return (v.items[v.pos + k],) if v.pos + k < len(v.items) else None
        if isinstance(v, LazySeqV):
            if v.kind == 'slice':
                return self._lazy_item(v.srcs[0], v.start + (v.pos + k) * getattr(v, 'step', 1), node)
            parts = [self._lazy_item(x, v.pos + k, node) for x in v.srcs]
            if any(p_ is None for p_ in parts):
                return None
            vals = [p_[0] for p_ in parts]
            return (Tup([Const(v.start + v.pos + k), vals[0]]),) if v.kind == 'enumerate' else (Tup(vals),)
        its = self.iterate(v, node) if not isinstance(v, (CountV, GenV, LazySeqV)) else None
        if its is None:
            raise _GenAbort()
        if isinstance(v, Tup):
            return (its[k],) if k < len(its) else None
        raise _GenAbort()

    def _lazy_advance(self, v, n):
        if isinstance(v, LazySeqV) and v.kind == 'slice':
            v.pos += n
        elif isinstance(v, LazySeqV):
            for x in v.srcs:
                self._lazy_advance(x, n)
            v.pos += n
        elif isinstance(v, (CountV, GenV, IterV, GenExpV)):
            v.pos += n

    def st_For(self, st, frame):
        itv = self.ev(st.iter, frame)
        unbounded_gen = False
        if isinstance(itv, GenV) and not self._gen_stack:
            probe, fin_ = itv.take(itv.pos + self.GEN_FUEL)
            unbounded_gen = probe is not None and not fin_
        if isinstance(itv, (CountV, LazySeqV)) or (isinstance(itv, GenV) and (self._gen_stack or unbounded_gen)):
            # an iterator that may never end: walked item by item; the walk ends when it is exhausted, at a break / return, or when the
            # generator this loop sits in has yielded as much as was asked of it
            k, broke = 0, False
            try:
                while k < 4 * self.GEN_FUEL:
                    nxt = self._lazy_item(itv, k, st)
                    if nxt is None:
                        break
                    k += 1
                    self.assign(st.target, nxt[0], frame, st)
                    try:
                        self.exec_block(st.body, frame)
                    except _Break:
                        broke = True
                        break
                    except _Continue:
                        continue
                else:
                    raise AnalysisError('a loop over an unbounded iterator did not end within %d passes (line %d)' % (4 * self.GEN_FUEL, getattr(st, 'lineno', 0)))
            except _GenAbort:
                if not self._gen_stack:
                    raise AnalysisError('a loop over an iterator that is not followed (line %d)' % getattr(st, 'lineno', 0))
                raise
            finally:
                self._lazy_advance(itv, k)
            if not broke:
                self.exec_block(st.orelse, frame)
            return
        items = self.iterate(itv, st)
        if items is None:
            if self.dom.loop(st, frame):
                return
            self._havoc_loop(st, frame)
            return
        broke = False
        for it in items:
            self.assign(st.target, it, frame, st)
            try:
                self.exec_block(st.body, frame)
            except _Break:
                broke = True
                break
            except _Continue:
                continue
        if not broke:
            self.exec_block(st.orelse, frame)

    def st_While(self, st, frame):
        if self._gen_stack:
            # inside a generator body a loop with a decided test is run for real: the consumer's demand (_GenStop) ends it
            for _ in range(4 * self.GEN_FUEL):
                t = self.truth(self.ev(st.test, frame))
                if t is None:
                    raise _GenAbort()
                if not t:
                    self.exec_block(st.orelse, frame)
                    return
                try:
                    self.exec_block(st.body, frame)
                except _Break:
                    return
                except _Continue:
                    continue
            raise _GenAbort()
        if self.dom.loop(st, frame):
            return
        self._havoc_loop(st, frame)

    def _havoc_loop(self, st, frame):
        """Sound fallback: names assigned in the loop become Unknown; the body is walked once
        (for sinks/events) under that havoc'd state."""
        assigned = set()
        for n in walk_no_nested(st):
            if isinstance(n, ast.Name) and isinstance(n.ctx, ast.Store):
                assigned.add(n.id)
        for a in assigned:
            frame.env[a] = Unknown('loop-carried %s' % a)
        for n in walk_no_nested(st):
            if isinstance(n, ast.Subscript) and isinstance(n.ctx, ast.Store) and isinstance(n.value, ast.Name) and isinstance(frame.env.get(n.value.id), DictV):
                frame.env[n.value.id].open = True          # filled an unknown number of times under keys that are not followed
        if isinstance(st, ast.For):
            self.assign(st.target, Unknown('loop element'), frame, st)
        try:
            self.exec_block(st.body, frame)
        except (_Break, _Continue):
            pass
        except _Return:
            pass
        except AbsRaise:
            pass
        for a in assigned:
            frame.env[a] = Unknown('loop-carried %s' % a)

    # -- assignment --------------------------------------------------------
    def assign(self, target, v, frame, node, aug=False):
        if isinstance(target, ast.Name):
            if target.id in getattr(frame, 'global_names', ()):
                raise AnalysisError('assignment to the module-level name `%s` from inside a function (line %d) is not followed' % (target.id, getattr(node, 'lineno', 0)))
            if target.id in getattr(frame, 'outer_names', ()):
                f_ = frame.parent
                while f_ is not None and target.id not in f_.env:
                    f_ = f_.parent
                if f_ is None:
                    raise AnalysisError('nonlocal `%s` has no binding in an enclosing function (line %d)' % (target.id, getattr(node, 'lineno', 0)))
                f_.env[target.id] = v
                return
            frame.env[target.id] = v
        elif isinstance(target, (ast.Tuple, ast.List)):
            items = self.iterate(v, node)
            star = [i for i, t in enumerate(target.elts) if isinstance(t, ast.Starred)]
            if items is None:
                for t in target.elts:
                    self.assign(t.value if isinstance(t, ast.Starred) else t, Unknown('unpack of %r' % (v,)), frame, node)
                return
            if star:
                i = star[0]
                n_after = len(target.elts) - i - 1
                for t, x in zip(target.elts[:i], items[:i]):
                    self.assign(t, x, frame, node)
                self.assign(target.elts[i].value, Tup(items[i:len(items) - n_after], 'list'), frame, node)
                for t, x in zip(target.elts[i + 1:], items[len(items) - n_after:]):
                    self.assign(t, x, frame, node)
            else:
                if len(items) != len(target.elts):
                    for t in target.elts:
                        self.assign(t, Unknown('unpack arity'), frame, node)
                    return
                for t, x in zip(target.elts, items):
                    self.assign(t, x, frame, node)
        elif isinstance(target, ast.Attribute):
            self.setattr(self.ev(target.value, frame), target.attr, v, node, frame)
        elif isinstance(target, ast.Subscript):
            o = self.ev(target.value, frame)
            idx = self.ev_index(target.slice, frame)
            if isinstance(o, DictV):
                if isinstance(idx, Unknown):
                    o.open = True
                o.set(idx, v)
            elif isinstance(o, Tup) and isinstance(idx, Const) and isinstance(idx.v, int) and -len(o.items) <= idx.v < len(o.items):
                o.items[idx.v] = v
            elif isinstance(o, Tup) and o.kind == 'list' and isinstance(idx, Slice) and all(isinstance(x, Const) for x in (idx.lo, idx.hi, idx.step)):
                # lst[a:b:c] = values
                new = self.iterate(v, node)
                if new is None:
                    o.items[:] = [Unknown('slice of a list assigned from a value that is not followed') for _ in o.items]
                else:
                    try:
                        o.items[slice(idx.lo.v, idx.hi.v, idx.step.v)] = list(new)
                    except ValueError:
                        raise AbsRaise('ValueError', node)
            else:
                r_ = self.dom.store_subscript(o, idx, v, node)
                if r_ is None and isinstance(o, Tup) and o.kind == 'list':
                    # a store into a list under an index that is not followed: any element may have changed
                    o.items[:] = [Unknown('list element after a store under an index that is not followed') for _ in o.items]
        elif isinstance(target, ast.Starred):
            self.assign(target.value, v, frame, node)

    def setattr(self, o, attr, v, node, frame):
        if isinstance(o, Obj):
            setter = self.db.method(o.ci, attr + '.setter')
            if setter is not None:
                self.call_funcinfo(setter, [v], {}, o, node)
                return
            if self.db.method(o.ci, attr) is None:
                cv = self._class_attr(o.ci, attr)
                if isinstance(cv, PropertyV):
                    if isinstance(cv.fset, Const) and cv.fset.v is None:
                        raise AbsRaise('AttributeError', node)
                    self.call_value(cv.fset, [o, v], {}, node, frame)
                    return
            o.attrs[attr] = v
        else:
            self.dom.store_attr(o, attr, v, node)

    # -- expressions -------------------------------------------------------
    def branch(self, test, frame):
        v = self.ev(test, frame)
        t = self.truth(v)
        if t is None:
            key = self._branch_key(test, frame)
            if key is not None and key in self.branch_memo:
                return self.branch_memo[key]         # the same test on the same values was decided earlier on this path
            c = self.choose(2)
            t = (c == 0)
            if key is not None:
                self.branch_memo[key] = t
            self.conds.append((ast.unparse(test), t))
            hook = getattr(self.dom, 'on_branch', None)
            if hook is not None:
                hook(test, t, frame)
        return t

    _PURE_TEST = (ast.Name, ast.Constant, ast.Compare, ast.BoolOp, ast.UnaryOp, ast.BinOp, ast.Load, ast.cmpop, ast.boolop, ast.unaryop, ast.operator)

    def _branch_key(self, test, frame):
        """Key identifying `test` evaluated on the current values of its names (None if it is not a pure scalar test)."""
        names = []
        for n in ast.walk(test):
            if not isinstance(n, self._PURE_TEST):
                return None
            if isinstance(n, ast.Name):
                names.append(n.id)
        vals = []
        for nm in sorted(set(names)):
            v = self.lookup(nm, frame) if True else None
            if isinstance(v, Unknown) or v is None:
                return None
            vals.append((nm, repr(v)))
        return (ast.unparse(test), tuple(vals))

    def truth(self, v):
        if isinstance(v, Const):
            return bool(v.v)
        if isinstance(v, Tup):
            return len(v.items) > 0
        if isinstance(v, DictV) and v.entries:
            return True             # a dictionary with known entries is truthy
        if isinstance(v, (FuncRef, ClassRef, Obj, ExtRef, LambdaRef)):
            return True
        return self.dom.truth(v)

    def ev(self, node, frame):
        m = getattr(self, 'ev_' + type(node).__name__, None)
        if m is None:
            return Unknown('expr %s' % type(node).__name__)
        return m(node, frame)

    def ev_Yield(self, node, frame):
        if not self._gen_stack:
            raise _GenAbort()
        ctx = self._gen_stack[-1]
        ctx['items'].append(self.ev(node.value, frame) if node.value is not None else Const(None))
        if ctx['limit'] is not None and len(ctx['items']) >= ctx['limit']:
            raise _GenStop()
        return Const(None)

    def ev_YieldFrom(self, node, frame):
        if not self._gen_stack:
            raise _GenAbort()
        ctx = self._gen_stack[-1]
        src = self.ev(node.value, frame)
        room = None if ctx['limit'] is None else ctx['limit'] - len(ctx['items'])
        if isinstance(src, GenV):
            items, fin = src.take(room)
        else:
            items, fin = self.iterate(src, node), True
        if items is None:
            raise _GenAbort()
        for x in items:
            ctx['items'].append(x)
            if ctx['limit'] is not None and len(ctx['items']) >= ctx['limit']:
                raise _GenStop()
        if not fin:
            raise _GenStop()
        return Const(None)

    def ev_Constant(self, node, frame):
        return self.dom.const(node.value, node)

    def ev_Name(self, node, frame):
        return self.lookup(node.id, frame, node)

    def deref(self, v):
        """follow in-place updates: the current abstract value of the array object `v` denotes."""
        n = 0
        while id(v) in self.fwd and self.fwd[id(v)][0] is v and n < 64:
            v = self.fwd[id(v)][1]
            n += 1
        return v

    def lookup(self, name, frame, node=None):
        f = frame
        while f is not None:
            if name in f.env:
                v = f.env[name]
                return self.deref(v) if self.fwd else v
            f = f.parent
        return self.lookup_global(name, frame.module, node)

    def lookup_global(self, name, module, node=None):
        key = (module.name, name)
        if key in self.globals_cache:
            return self.globals_cache[key]
        r = self.db.resolve_name(module, name)
        v = self._wrap_resolved(r, name)
        self.globals_cache[key] = v
        return v

    def _wrap_resolved(self, r, name):
        if r is None:
            if name in BUILTIN_NAMES:
                return BuiltinRef(name)
            if name in EXC_NAMES:
                return ExtRef('builtins.' + name)
            if name in ('True', 'False', 'None'):
                return Const({'True': True, 'False': False, 'None': None}[name])
            return Unknown('unresolved name %s' % name)
        if isinstance(r, FuncInfo):
            return FuncRef(r)
        if isinstance(r, ClassInfo):
            return ClassRef(r)
        if r[0] == 'ext':
            return ExtRef(r[1])
        if r[0] == 'module':
            return ModRef(r[1])
        if r[0] == 'global':
            _, mod, expr = r
            fr = Frame(None, mod, {})
            gk = (mod.name, name)
            self.globals_cache[gk] = Unknown('global %s (in evaluation)' % name)
            v = self.ev(expr, fr)
            # module-level statements that fill the object after it was made (TABLE['key'] = ..., TABLE.update(...), LIST.append(...))
            edits = getattr(mod, 'global_edits', {}).get(name, [])
            if edits and isinstance(v, (DictV, Tup)):
                self.globals_cache[gk] = v
                fr.env[name] = v
                try:
                    for st in edits:
                        self.exec_stmt(st, fr)
                except Exception:
                    return Unknown('global %s (module-level edits not followed)' % name)
                v = fr.env.get(name, v)
            return v
        return Unknown('resolved %r' % (r,))

    def ev_Attribute(self, node, frame):
        o = self.ev(node.value, frame)
        return self.getattr(o, node.attr, node, frame)

    def getattr(self, o, name, node, frame):
        if isinstance(o, ExtRef):
            return ExtRef(o.dotted + '.' + name)
        if isinstance(o, ModRef):
            mod = self.db.modules.get(o.name)
            if mod is not None:
                sub = o.name + '.' + name
                r = self.db.resolve_name(mod, name)
                if r is None and sub in self.db.modules:
                    return ModRef(sub)
                key = (mod.name, name)
                if key in self.globals_cache:
                    return self.globals_cache[key]
                v = self._wrap_resolved(r, name)
                self.globals_cache[key] = v
                return v
        if isinstance(o, Obj):
            if name in o.attrs:
                return self.deref(o.attrs[name]) if self.fwd else o.attrs[name]
            mi = self.db.method(o.ci, name)
            if mi is not None:
                if any(d.endswith('cached_property') for d in mi.decorators):
                    v = self.call_funcinfo(mi, [], {}, o, node)
                    o.attrs[name] = v          # functools.cached_property: computed on first access, then an instance attribute
                    return v
                if 'property' in mi.decorators:
                    return self.call_funcinfo(mi, [], {}, o, node)
                if 'staticmethod' in mi.decorators:
                    return FuncRef(mi)
                return FuncRef(mi, bound=o)
            r = self.dom.getattr(o, name, node)
            if r is not None:
                return r
            cv = self._class_attr(o.ci, name)
            if isinstance(cv, PropertyV):
                return self.call_value(cv.fget, [o], {}, node, frame)
            if cv is not None:
                return cv
            return Unknown('attr %s of %s' % (name, o.ci.name))
        if isinstance(o, ClassRef):
            mi = self.db.method(o.ci, name)
            if mi is not None:
                if 'classmethod' in mi.decorators:
                    return FuncRef(mi, bound=o)          # cls.other_factory(...): the class is the first argument
                return FuncRef(mi)
            cv = self._class_attr(o.ci, name)
            if cv is not None:
                return cv
            if name == '_make' and self._namedtuple_class(o.ci) is not None:
                return BoundMethod(self._namedtuple_class(o.ci), '_make')
        if isinstance(o, NTup):
            if name in o.fields:
                return o.field(name)
            if name == '_fields':
                return Tup([Const(x) for x in o.fields])
            if o.ci is not None:
                mi = self.db.method(o.ci, name)
                if mi is not None:
                    if 'property' in mi.decorators:
                        return self.call_funcinfo(mi, [], {}, o, node)
                    if 'staticmethod' in mi.decorators:
                        return FuncRef(mi)
                    if 'classmethod' in mi.decorators:
                        return FuncRef(mi, bound=ClassRef(o.ci))
                    return FuncRef(mi, bound=o)
                cv = self._class_attr(o.ci, name)
                if cv is not None:
                    return cv
        if isinstance(o, NTClass) and name in ('_make', '_fields'):
            return Tup([Const(x) for x in o.fields]) if name == '_fields' else BoundMethod(o, '_make')
        r = self.dom.getattr(o, name, node)
        if r is not None:
            return r
        if isinstance(o, Slice) and name in ('start', 'stop', 'step'):
            return {'start': o.lo, 'stop': o.hi, 'step': o.step}[name]
        if isinstance(o, (Tup, DictV)) or (isinstance(o, Const) and isinstance(o.v, str)):
            return BoundMethod(o, name)
        if isinstance(o, Const) and isinstance(o.v, (int, float, complex)):
            if name == 'real':
                return Const(o.v.real)
            if name == 'imag':
                return Const(o.v.imag)
        return BoundMethod(o, name)

    def _class_attr(self, ci, name):
        """a name bound in the body of the class (or of a class it derives from): evaluated in its module"""
        for c in self.db.class_chain(ci):
            if name in c.assigns:
                key = (c.qual, name)
                if key not in self.globals_cache:
                    self.globals_cache[key] = Unknown('class attribute %s (in evaluation)' % name)
                    self.globals_cache[key] = self.ev(c.assigns[name], Frame(None, c.module, {}))
                return self.globals_cache[key]
        return None

    def ev_Call(self, node, frame):
        # super().method(...): the method of the next class in the chain of the class that defines the current method, bound to self
        if isinstance(node.func, ast.Attribute) and isinstance(node.func.value, ast.Call) and isinstance(node.func.value.func, ast.Name) \
                and node.func.value.func.id == 'super' and not node.func.value.args and frame.fi is not None and frame.fi.cls is not None:
            me = self.lookup(frame.fi.params[0], frame, node) if frame.fi.params else None
            if isinstance(me, Obj):
                chain = self.db.class_chain(frame.fi.cls)
                target = None
                for c in chain[1:]:
                    if node.func.attr in c.methods:
                        target = c.methods[node.func.attr]
                        break
                if target is not None:
                    args = [self.ev(a, frame) for a in node.args]
                    kwargs = {k.arg: self.ev(k.value, frame) for k in node.keywords if k.arg is not None}
                    return self.call_funcinfo(target, args, kwargs, me, node)
        f = self.ev(node.func, frame)
        args = []
        for a in node.args:
            if isinstance(a, ast.Starred):
                v = self.ev(a.value, frame)
                it = self.iterate(v, node)
                if it is None:
                    args.append(Unknown('starred'))
                else:
                    args.extend(it)
            else:
                args.append(self.ev(a, frame))
        kwargs = {}
        for k in node.keywords:
            if k.arg is None:
                v = self.ev(k.value, frame)
                if isinstance(v, DictV):
                    for kk, vv in v.entries:
                        if isinstance(kk, Const):
                            kwargs[kk.v] = vv
                else:
                    kwargs['**'] = v
            else:
                kwargs[k.arg] = self.ev(k.value, frame)
        if isinstance(f, BoundMethod) and isinstance(f.recv, (BuiltinRef, NTClass)):
            return self.call_method(f.recv, f.name, args, kwargs, node)
        if isinstance(f, BoundMethod) and not isinstance(f.recv, (Tup, DictV, Const)):
            r = self.dom.method(f.recv, f.name, args, kwargs, node)
            if r is not None:
                return r
            return Unknown('method %s on %r' % (f.name, f.recv))
        return self.call_value(f, args, kwargs, node, frame)

    def ev_BinOp(self, node, frame):
        a = self.ev(node.left, frame)
        b = self.ev(node.right, frame)
        return self.binop(node.op, a, b, node)

    def binop(self, op, a, b, node):
        r = self.dom.binop(op, a, b, node)
        if r is not None:
            return r
        if isinstance(a, Const) and isinstance(b, Const):
            try:
                return Const(_BINOPS[type(op)](a.v, b.v))
            except ZeroDivisionError:
                raise AbsRaise('ZeroDivisionError', node)
            except Exception:
                return Unknown('const binop')
        if isinstance(op, ast.Add) and isinstance(a, Tup) and isinstance(b, Tup):
            return Tup(a.items + b.items, a.kind)
        if isinstance(op, ast.Mult) and isinstance(a, Tup) and isinstance(b, Const) and isinstance(b.v, int):
            return Tup(a.items * b.v, a.kind)
        if isinstance(op, ast.Mult) and isinstance(b, Tup) and isinstance(a, Const) and isinstance(a.v, int):
            return Tup(b.items * a.v, b.kind)
        if __import__('os').environ.get('SA_DEBUG_UNKNOWN'):
            print('UNKNOWN-BINOP', type(op).__name__, repr(a)[:150], '|', repr(b)[:150], 'line', getattr(node, 'lineno', 0), file=__import__('sys').stderr)
        return Unknown('binop')

    def ev_UnaryOp(self, node, frame):
        a = self.ev(node.operand, frame)
        if isinstance(node.op, ast.Not):
            t = self.truth(a)
            if t is not None:
                return Const(not t)
            r = self.dom.unary(node.op, a, node)          # a domain may keep what the negated test depends on
            return r if r is not None else Unknown('not')
        r = self.dom.unary(node.op, a, node)
        if r is not None:
            return r
        if isinstance(a, Const):
            try:
                if isinstance(node.op, ast.USub):
                    return Const(-a.v)
                if isinstance(node.op, ast.UAdd):
                    return Const(+a.v)
                if isinstance(node.op, ast.Invert):
                    return Const(~a.v)
            except Exception:
                pass
        return Unknown('unary')

    def ev_unary_value(self, op, a, node):
        r = self.dom.unary(op, a, node)
        if r is not None:
            return r
        if isinstance(a, Const):
            try:
                if isinstance(op, ast.USub):
                    return Const(-a.v)
                if isinstance(op, ast.UAdd):
                    return Const(+a.v)
            except Exception:
                pass
        return Unknown('unary')

    def ev_BoolOp(self, node, frame):
        is_and = isinstance(node.op, ast.And)
        last = None
        unknown = False
        for v in node.values:
            val = self.ev(v, frame)
            t = self.truth(val)
            last = val
            if t is None:
                unknown = True
                continue
            if is_and and not t:
                return val if not unknown else Unknown('and')
            if (not is_and) and t:
                return val if not unknown else Unknown('or')
        if unknown:
            return Unknown('boolop')
        return last

    def ev_Compare(self, node, frame):
        left = self.ev(node.left, frame)
        result = True
        unknown = False
        for op, rn in zip(node.ops, node.comparators):
            right = self.ev(rn, frame)
            r = self.compare(op, left, right, node)
            if isinstance(r, Value) and len(node.ops) == 1:
                return r                        # a domain-level predicate value (elementwise comparison)
            if r is None:
                unknown = True
            elif not r:
                return Const(False)
            left = right
        if unknown:
            return Unknown('compare')
        return Const(result)

    def compare(self, op, a, b, node):
        r = self.dom.compare(op, a, b, node)
        if r is not None:
            return r
        if isinstance(op, (ast.Is, ast.IsNot)):
            neg = isinstance(op, ast.IsNot)
            if isinstance(a, Const) and isinstance(b, Const):
                same = (a.v is b.v) or (a.v is None and b.v is None)
                if a.v is None or b.v is None or isinstance(a.v, bool) or isinstance(b.v, bool):
                    return same != neg
            none_side = a if (isinstance(b, Const) and b.v is None) else (b if (isinstance(a, Const) and a.v is None) else None)
            other = a if none_side is b else b
            if isinstance(b, Const) and b.v is None and not isinstance(a, (Unknown, Const)):
                return neg
            if isinstance(a, Const) and a.v is None and not isinstance(b, (Unknown, Const)):
                return neg
            return None
        if isinstance(op, (ast.In, ast.NotIn)):
            neg = isinstance(op, ast.NotIn)
            items = None
            if isinstance(b, Tup):
                items = b.items
            elif isinstance(b, DictV):
                items = [k for k, _ in b.entries]
                if not items and not b.open:
                    return neg              # nothing is in a dictionary that holds nothing
                if b.open and not any(i == a for i in items):
                    return None
            elif isinstance(b, Const) and isinstance(b.v, (tuple, list, str)) and isinstance(a, Const):
                try:
                    return (a.v in b.v) != neg
                except Exception:
                    return None
            if items is not None and isinstance(a, Const) and all(isinstance(i, Const) for i in items):
                return (a in items) != neg
            if items is not None and any(i == a for i in items) and not isinstance(a, Unknown):
                return not neg
            return None
        if isinstance(a, Const) and isinstance(b, Const):
            try:
                return bool(_CMPOPS[type(op)](a.v, b.v))
            except Exception:
                return None
        if isinstance(a, Tup) and isinstance(b, Tup) and isinstance(op, (ast.Eq, ast.NotEq)):
            if all(isinstance(x, Const) for x in a.items + b.items):
                return (a.items == b.items) == isinstance(op, ast.Eq)
            if len(a.items) != len(b.items):
                return isinstance(op, ast.NotEq)
            # elementwise: all components decided equal -> equal; one decided different -> different
            parts = [self.compare(ast.Eq(), x, y, node) for x, y in zip(a.items, b.items)]
            if any(pv is False for pv in parts):
                return isinstance(op, ast.NotEq)
            if all(pv is True for pv in parts):
                return isinstance(op, ast.Eq)
            return None
        return None

    def ev_IfExp(self, node, frame):
        if self.branch(node.test, frame):
            return self.ev(node.body, frame)
        return self.ev(node.orelse, frame)

    def ev_Tuple(self, node, frame):
        return Tup(self._elts(node.elts, frame), 'tuple')

    def ev_List(self, node, frame):
        return Tup(self._elts(node.elts, frame), 'list')

    def ev_Set(self, node, frame):
        return Tup(self._elts(node.elts, frame), 'set')

    def _elts(self, elts, frame):
        out = []
        for e in elts:
            if isinstance(e, ast.Starred):
                it = self.iterate(self.ev(e.value, frame), e)
                if it is None:
                    out.append(Unknown('starred'))
                else:
                    out.extend(it)
            else:
                out.append(self.ev(e, frame))
        return out

    def ev_Dict(self, node, frame):
        d = DictV()
        for k, v in zip(node.keys, node.values):
            if k is None:
                # {**other, ...}: the entries of the other dictionary, when they are known
                o = self.ev(v, frame)
                if isinstance(o, DictV):
                    for kk, vv in o.entries:
                        d.set(kk, vv)
                    if o.open:
                        d.open = True
                else:
                    d.open = True
                continue
            d.set(self.ev(k, frame), self.ev(v, frame))
        return d

    def ev_Lambda(self, node, frame):
        return LambdaRef(node, frame)

    def ev_JoinedStr(self, node, frame):
        parts = []
        for v in node.values:
            if isinstance(v, ast.Constant):
                parts.append(str(v.value))
            else:
                return Unknown('fstring')
        return Const(''.join(parts))

    def ev_Starred(self, node, frame):
        return self.ev(node.value, frame)

    def ev_Slice(self, node, frame):
        return Slice(self.ev(node.lower, frame) if node.lower else Const(None),
                     self.ev(node.upper, frame) if node.upper else Const(None),
                     self.ev(node.step, frame) if node.step else Const(None))

    def ev_index(self, node, frame):
        return self.ev(node, frame)

    def ev_Subscript(self, node, frame):
        o = self.ev(node.value, frame)
        idx = self.ev_index(node.slice, frame)
        return self.subscript(o, idx, node)

    def subscript(self, o, idx, node):
        if isinstance(o, DictV):
            v = o.get(idx)
            if v is None:
                if isinstance(idx, Unknown):
                    if getattr(o, 'default_factory', None) is not None:
                        o.open = True
                    return Unknown('dict lookup with unknown key')
                fac = getattr(o, 'default_factory', None)
                if fac is not None and not (isinstance(fac, Const) and fac.v is None):
                    v = self.call_value(fac, [], {}, node, None)          # a defaultdict fills the missing entry
                    o.set(idx, v)
                    return v
                if not o.strict_keys and not _concrete(idx) and all(_concrete(k) for k, _ in o.entries) and o.entries:
                    # a table with constant keys looked up under a value that is not a constant (a flag computed from an argument):
                    # which entry is fetched is not decided -- the domain may say what any of them gives, else the value is not followed
                    r = self.dom.subscript(o, idx, node)
                    return r if r is not None else Unknown('dict lookup with a key that is not decided')
                raise AbsRaise('KeyError', node)
            return v
        if isinstance(o, Tup):
            if isinstance(idx, Const) and isinstance(idx.v, int):
                if -len(o.items) <= idx.v < len(o.items):
                    return self.deref(o.items[idx.v]) if self.fwd else o.items[idx.v]
                raise AbsRaise('IndexError', node)
            if isinstance(idx, Slice) and all(isinstance(x, Const) for x in (idx.lo, idx.hi, idx.step)):
                return Tup(o.items[slice(idx.lo.v, idx.hi.v, idx.step.v)], o.kind)
        if isinstance(o, Const) and isinstance(o.v, (str, tuple, list)) and isinstance(idx, Const):
            try:
                return Const(o.v[idx.v])
            except Exception:
                return Unknown('const subscript')
        r = self.dom.subscript(o, idx, node)
        if r is not None:
            return r
        return Unknown('subscript')

    def _comp(self, node, frame, elt_fn):
        out = []
        fr = Frame(frame.fi, frame.module, {}, parent=frame)

        def rec(gi):
            if gi == len(node.generators):
                out.append(elt_fn(fr))
                return True
            g = node.generators[gi]
            items = self.iterate(self.ev(g.iter, fr), node)
            if items is None:
                return False
            for it in items:
                self.assign(g.target, it, fr, node)
                ok = True
                for c in g.ifs:
                    t = self.truth(self.ev(c, fr))
                    if t is None:
                        return False
                    if not t:
                        ok = False
                        break
                if ok and not rec(gi + 1):
                    return False
            return True
        if not rec(0):
            r = self.dom.comprehension(node, frame) if hasattr(self.dom, 'comprehension') else None
            return r if r is not None else Unknown('comprehension over unknown iterable')
        return out

    def ev_ListComp(self, node, frame):
        r = self._comp(node, frame, lambda fr: self.ev(node.elt, fr))
        return Tup(r, 'list') if isinstance(r, list) else r

    def ev_GeneratorExp(self, node, frame):
        r = self._comp(node, frame, lambda fr: self.ev(node.elt, fr))
        return GenExpV(r) if isinstance(r, list) else r

    def ev_SetComp(self, node, frame):
        r = self._comp(node, frame, lambda fr: self.ev(node.elt, fr))
        return Tup(r, 'set') if isinstance(r, list) else r

    def ev_DictComp(self, node, frame):
        r = self._comp(node, frame, lambda fr: (self.ev(node.key, fr), self.ev(node.value, fr)))
        if isinstance(r, list):
            d = DictV()
            for k, v in r:
                d.set(k, v)
            return d
        return r

    def ev_NamedExpr(self, node, frame):
        v = self.ev(node.value, frame)
        self.assign(node.target, v, frame, node)
        return v


def _load(target):
    """Copy of a store-context target in load context."""
    t = ast.parse(ast.unparse(target), mode='eval').body
    ast.copy_location(t, target)
    for n in ast.walk(t):
        if not hasattr(n, 'lineno'):
            n.lineno = getattr(target, 'lineno', 0)
            n.col_offset = 0
    return t
