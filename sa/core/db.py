"""Program database: parsed modules of /repo/prysm, symbol resolution."""
import ast
import hashlib
import os


class AnalysisError(Exception):
    """The analysis cannot give a verdict (anchor vanished, idiom unsupported)."""


# aliases of the swappable backend shims (prysm/mathops.py) -> real libraries
SHIMS = {
    'np': 'numpy', 'fft': 'scipy.fft', 'ndimage': 'scipy.ndimage',
    'special': 'scipy.special', 'interpolate': 'scipy.interpolate',
}


class FuncInfo:
    def __init__(self, module, qual, node, cls=None):
        self.module = module
        self.qual = qual                  # e.g. prysm.fttools.MatrixDFTExecutor._key
        self.node = node
        self.cls = cls
        self.name = node.name
        self.decorators = [ast.unparse(d) for d in node.decorator_list]
        if any(d in ('cached_property', 'functools.cached_property') for d in self.decorators):
            self.decorators.append('property')       # computed on first access and kept: for a pure getter the same value

    @property
    def params(self):
        a = self.node.args
        return [x.arg for x in a.posonlyargs + a.args]

    @property
    def file(self):
        return self.module.relpath

    def loc(self, node=None):
        node = node or self.node
        return '%s:%d' % (self.module.relpath, getattr(node, 'lineno', 0))

    def __repr__(self):
        return '<func %s>' % self.qual


class ClassInfo:
    def __init__(self, module, qual, node):
        self.module = module
        self.qual = qual
        self.node = node
        self.name = node.name
        self.methods = {}
        self.bases = [ast.unparse(b) for b in node.bases]
        # class-level names: NAME = expr, and annotated fields NAME: T [= expr] (typing.NamedTuple / dataclass style), in order
        self.assigns = {}
        self.fields = []
        for b in node.body:
            if isinstance(b, ast.Assign):
                for t in b.targets:
                    if isinstance(t, ast.Name):
                        self.assigns[t.id] = b.value
            elif isinstance(b, ast.AnnAssign) and isinstance(b.target, ast.Name):
                self.fields.append((b.target.id, b.value))
                if b.value is not None:
                    self.assigns[b.target.id] = b.value

    def __repr__(self):
        return '<class %s>' % self.qual


class Module:
    def __init__(self, name, path, relpath, src):
        self.name = name
        self.path = path
        self.relpath = relpath
        self.src = src
        self.tree = ast.parse(src, filename=path)
        self.functions = {}
        self.classes = {}
        self.imports = {}     # local alias -> ('module', dotted) | ('symbol', module, name)
        self.assigns = {}     # module-level name -> value expression (last)
        self.global_edits = {}  # module-level name -> statements that edit the object after its assignment (X[k] = v, X.update(..), X.append(..))
        self.package = name.rsplit('.', 1)[0] if not path.endswith('__init__.py') else name
        self._index()

    def _index(self):
        for st in self.tree.body:
            self._index_stmt(st)

    def _index_stmt(self, st):
        if isinstance(st, (ast.FunctionDef,)):
            self.functions[st.name] = FuncInfo(self, '%s.%s' % (self.name, st.name), st)
        elif isinstance(st, ast.ClassDef):
            ci = ClassInfo(self, '%s.%s' % (self.name, st.name), st)
            for b in st.body:
                if isinstance(b, ast.FunctionDef):
                    fi = FuncInfo(self, '%s.%s' % (ci.qual, b.name), b, cls=ci)
                    # property setter/getter pairs: keep the getter under the name,
                    # the setter under name + '.setter'
                    if any(d.endswith('.setter') for d in fi.decorators):
                        ci.methods[b.name + '.setter'] = fi
                    else:
                        ci.methods[b.name] = fi
            self.classes[st.name] = ci
        elif isinstance(st, ast.Import):
            for a in st.names:
                self.imports[a.asname or a.name.split('.')[0]] = ('module', a.name if a.asname else a.name.split('.')[0])
        elif isinstance(st, ast.ImportFrom):
            base = self._resolve_from(st)
            for a in st.names:
                self.imports[a.asname or a.name] = ('symbol', base, a.name)
        elif isinstance(st, ast.Assign):
            for t in st.targets:
                if isinstance(t, ast.Name):
                    self.assigns[t.id] = st.value
                    self.global_edits.pop(t.id, None)
                elif isinstance(t, (ast.Tuple, ast.List)) and all(isinstance(e, ast.Name) for e in t.elts):
                    # A, B = x, y  /  A, B = pair: each name is the matching component
                    for k, e in enumerate(t.elts):
                        if isinstance(st.value, (ast.Tuple, ast.List)) and len(st.value.elts) == len(t.elts) \
                                and not any(isinstance(x, ast.Starred) for x in st.value.elts):
                            self.assigns[e.id] = st.value.elts[k]
                        else:
                            sub = ast.Subscript(value=st.value, slice=ast.Constant(value=k), ctx=ast.Load())
                            ast.copy_location(sub, st.value)
                            ast.fix_missing_locations(sub)
                            self.assigns[e.id] = sub
                        self.global_edits.pop(e.id, None)
                elif isinstance(t, ast.Subscript) and isinstance(t.value, ast.Name) and t.value.id in self.assigns:
                    self.global_edits.setdefault(t.value.id, []).append(st)
        elif isinstance(st, ast.Expr) and isinstance(st.value, ast.Call) and isinstance(st.value.func, ast.Attribute) and isinstance(st.value.func.value, ast.Name) \
                and st.value.func.value.id in self.assigns and st.value.func.attr in ('update', 'append', 'extend', 'setdefault', 'insert'):
            self.global_edits.setdefault(st.value.func.value.id, []).append(st)
        elif isinstance(st, (ast.If, ast.Try)):
            for b in st.body:
                self._index_stmt(b)

    def _resolve_from(self, st):
        if st.level == 0:
            return st.module
        pkg = self.package.split('.')
        if st.level > 1:
            pkg = pkg[:len(pkg) - (st.level - 1)]
        return '.'.join(pkg + ([st.module] if st.module else []))


class DB:
    def __init__(self, root):
        self.root = os.path.abspath(root)
        self.modules = {}
        self._probes = {}
        self.files = []
        pkg = os.path.join(self.root, 'prysm')
        if not os.path.isdir(pkg):
            raise AnalysisError('no prysm package under %s' % self.root)
        for dp, dn, fn in os.walk(pkg):
            dn[:] = sorted(d for d in dn if d != '__pycache__')
            for f in sorted(fn):
                if not f.endswith('.py') or f.startswith('test_'):
                    continue
                path = os.path.join(dp, f)
                rel = os.path.relpath(path, self.root)
                name = rel[:-3].replace(os.sep, '.')
                if name.endswith('.__init__'):
                    name = name[:-9]
                with open(path, encoding='utf-8') as fh:
                    src = fh.read()
                try:
                    self.modules[name] = Module(name, path, rel, src)
                except SyntaxError as e:
                    raise AnalysisError('cannot parse %s: %s' % (rel, e))
                self.files.append(rel)

    def digest(self):
        h = hashlib.sha256()
        for name in sorted(self.modules):
            h.update(self.modules[name].src.encode())
        return h.hexdigest()[:16]

    # -- lookup ------------------------------------------------------------
    def module(self, name):
        m = self.modules.get(name)
        if m is None:
            raise AnalysisError('anchor module %s not found' % name)
        return m

    def func(self, qual):
        """Resolve prysm.mod.func or prysm.mod.Class.method (fail closed)."""
        parts = qual.split('.')
        for i in range(len(parts) - 1, 0, -1):
            mname = '.'.join(parts[:i])
            if mname in self.modules:
                m = self.modules[mname]
                rest = parts[i:]
                if len(rest) == 1 and rest[0] in m.functions:
                    return m.functions[rest[0]]
                if len(rest) == 2 and rest[0] in m.classes:
                    mi = self.method(m.classes[rest[0]], rest[1])
                    if mi is not None:
                        return mi
                    # not a def in the class body, but a name bound there (NAME = property(...), NAME = helper(...)): the anchor is
                    # read through a one-line probe `return self.NAME`, so that rules which interpret the getter still can
                    for c in self.class_chain(m.classes[rest[0]]):
                        if rest[1] in c.assigns:
                            key = (c.qual, rest[1])
                            if key not in self._probes:
                                node = ast.parse('def %s(self):\n    return self.%s\n' % (rest[1], rest[1])).body[0]
                                ast.increment_lineno(node, getattr(c.assigns[rest[1]], 'lineno', 1) - 1)
                                fi = FuncInfo(c.module, '%s.%s' % (c.qual, rest[1]), node, cls=c)
                                fi.synthetic = True
                                self._probes[key] = fi
                            return self._probes[key]
                if len(rest) == 3 and rest[2] == 'setter' and rest[0] in m.classes:
                    mi = self.method(m.classes[rest[0]], rest[1] + '.setter')
                    if mi is not None:
                        return mi
                break
        raise AnalysisError('anchor function %s not found' % qual)

    def has_func(self, qual):
        try:
            self.func(qual)
            return True
        except AnalysisError:
            return False

    def cls(self, qual):
        mname, cname = qual.rsplit('.', 1)
        m = self.module(mname)
        if cname not in m.classes:
            raise AnalysisError('anchor class %s not found' % qual)
        return m.classes[cname]

    def method(self, ci, name):
        """Method lookup through the (single inheritance, name-resolved) hierarchy."""
        seen = set()
        while ci is not None and ci.qual not in seen:
            seen.add(ci.qual)
            if name in ci.methods:
                return ci.methods[name]
            nxt = None
            for b in ci.bases:
                r = self.resolve_name(ci.module, b.split('.')[-1])
                if isinstance(r, ClassInfo):
                    nxt = r
                    break
            ci = nxt
        return None

    def class_chain(self, ci):
        out = []
        seen = set()
        while ci is not None and ci.qual not in seen:
            seen.add(ci.qual)
            out.append(ci)
            nxt = None
            for b in ci.bases:
                r = self.resolve_name(ci.module, b.split('.')[-1])
                if isinstance(r, ClassInfo):
                    nxt = r
                    break
            ci = nxt
        return out

    def resolve_name(self, module, name, _depth=0):
        """Resolve a module-level name to FuncInfo / ClassInfo / ('ext', dotted)
        / ('global', module, expr) / None."""
        if _depth > 8:
            return None
        if name in module.functions:
            return module.functions[name]
        if name in module.classes:
            return module.classes[name]
        if name in module.assigns and name not in module.imports:
            return ('global', module, module.assigns[name])
        imp = module.imports.get(name)
        if imp is None:
            if name in module.assigns:
                return ('global', module, module.assigns[name])
            return None
        if imp[0] == 'module':
            dotted = imp[1]
            if dotted in self.modules:
                return ('module', dotted)
            return ('ext', dotted)
        _, base, sym = imp
        if base in self.modules:
            target = self.modules[base]
            if base == 'prysm.mathops' and sym in SHIMS:
                return ('ext', SHIMS[sym])
            sub = base + '.' + sym
            if sub in self.modules and sym not in target.functions and sym not in target.classes and sym not in target.assigns:
                return ('module', sub)
            return self.resolve_name(target, sym, _depth + 1)
        if base is not None and base.startswith('prysm'):
            sub = base + '.' + sym
            if sub in self.modules:
                return ('module', sub)
            return None
        return ('ext', '%s.%s' % (base, sym))

    def all_functions(self):
        for m in self.modules.values():
            for f in m.functions.values():
                yield f
            for c in m.classes.values():
                for f in c.methods.values():
                    yield f


def norm_stmt(node):
    """Normalised text of a statement/expression (formatting independent)."""
    try:
        return ast.unparse(node)
    except Exception:
        return ast.dump(node)


def walk_no_nested(node):
    """ast.walk that does not descend into nested function/class definitions."""
    stack = [node]
    first = True
    while stack:
        n = stack.pop()
        if not first and isinstance(n, (ast.FunctionDef, ast.ClassDef, ast.Lambda, ast.AsyncFunctionDef)):
            continue
        first = False
        yield n
        stack.extend(ast.iter_child_nodes(n))
