"""Findings, known-findings handling, evidence files, exit codes."""
import hashlib
import json
import os
import time

VERIF = os.path.dirname(os.path.dirname(os.path.dirname(os.path.abspath(__file__))))
KNOWN_FILE = os.path.join(VERIF, 'known_findings.json')
EVIDENCE_DIR = os.path.join(VERIF, 'evidence')
REPLAY_DIR = os.path.join(VERIF, 'replays')


class Finding:
    def __init__(self, prop, rule, where, construct, message, loc='', trace=None):
        self.prop = prop
        self.rule = rule
        self.where = where            # qualified function
        self.construct = construct    # normalised statement / construct text
        self.message = message
        self.loc = loc                # file:line (diagnostic only, not part of the key)
        self.trace = trace or []

    @property
    def key(self):
        return '%s/%s/%s/%s' % (self.prop, self.rule, self.where, self.construct)

    def to_json(self):
        return {'property': self.prop, 'rule': self.rule, 'function': self.where,
                'construct': self.construct, 'message': self.message, 'loc': self.loc,
                'trace': self.trace, 'key': self.key}


class Run:
    """Collects obligations and findings for one property check."""

    def __init__(self, prop, tier, root):
        self.prop = prop
        self.tier = tier
        self.root = root
        self.t0 = time.time()
        self.obligations = []       # (rule, where, text, ok, nontrivial)
        self.findings = []
        self.credits = {}
        self.analysed = {'functions': set(), 'rules': {}, 'notes': []}
        self.trusted = []
        self.assumptions = []
        self.explanations = []
        self.infos = []
        self.errors = []

    def group(self, fn, *args, **kw):
        """Run one rule group; an AnalysisError inside it is deferred so that definite findings of
        other groups are still reported (exit 1 wins over exit 2)."""
        from .db import AnalysisError
        from .norm import NormError
        try:
            return fn(*args, **kw)
        except (AnalysisError, NormError) as e:
            self.errors.append('%s: %s' % (getattr(fn, '__name__', 'group'), e))
            return None
        except (RecursionError, AttributeError, IndexError, KeyError, TypeError, ValueError, AssertionError, ZeroDivisionError) as e:
            # a rule tripped over code it was not written for: that group decides nothing (a refusal), the other groups still speak
            import sys
            import traceback
            traceback.print_exc(file=sys.stderr)
            self.errors.append('%s: internal error of the rule on this tree (%s: %s)' % (getattr(fn, '__name__', 'group'), type(e).__name__, str(e)[:160]))
            return None

    def forgive(self, value_group, reading_groups, credits=()):
        """A rule group that decides on values (small concrete sizes) stands next to groups that read the code for the same facts.  When the
        value group could not follow this tree but every reading group that covers its facts decided, its refusal is not a refusal of the
        check: the property part is decided as it was before the value group existed.  Said in the evidence; the instance floors the value
        group would have filled are credited."""
        v = [e for e in self.errors if e.startswith(value_group + ':')]
        r = [e for e in self.errors if any(e.startswith(g + ':') for g in reading_groups)]
        if v and reading_groups and not r:
            self.errors = [e for e in self.errors if e not in v]
            self.infos.append('%s could not follow this tree (%s); the same facts were decided by %s' % (value_group, v[0][len(value_group) + 2:][:200], ', '.join(reading_groups)))
            for rule, n in credits:
                self.credit(rule, n, '%s refused; decided by %s' % (value_group, ', '.join(reading_groups)))
            return True
        return False

    def defer(self, reading_group, value_group, decided, credits=()):
        """The other direction of forgive, for a reading group that covers exactly the facts of a value group: when the reading could not
        read this organisation of the code and the value group decided all its instances (decided = their number, no refusal), the
        reading's refusal is not a refusal of the check.  Findings of the value group are reported as findings in any case."""
        r = [e for e in self.errors if e.startswith(reading_group + ':')]
        v = [e for e in self.errors if e.startswith(value_group + ':')]
        if r and not v and decided:
            self.errors = [e for e in self.errors if e not in r]
            self.infos.append('%s could not read this organisation (%s); the same facts were decided on values by %s (%d instances)' % (reading_group, r[0][len(reading_group) + 2:][:200], value_group, decided))
            for rule, n in credits:
                self.credit(rule, n, '%s refused; decided by %s' % (reading_group, value_group))
            return True
        return False

    # -- recording ---------------------------------------------------------
    def rule(self, name, text):
        """Declare a rule (its one-line statement appears in the evidence)."""
        self.analysed['rules'].setdefault(name, {'text': text, 'instances': 0, 'findings': 0})

    def ok(self, rule, where, text, nontrivial=True):
        self.obligations.append((rule, where, text, True, nontrivial))
        self.analysed['rules'].setdefault(rule, {'text': '', 'instances': 0, 'findings': 0})['instances'] += 1
        self.analysed['functions'].add(where)

    NOT_FOLLOWED = ('Unknown(', '<sa.core.', '<sa.domains.')

    def finding(self, rule, where, construct, message, loc='', trace=None):
        if any(m in message for m in self.NOT_FOLLOWED):
            # safety net behind the rules: a report whose own text shows a value the interpretation lost (Unknown(...), an engine object
            # that is not a value of the program) is not a statement about the program.  It is a refusal, never a finding.
            err = '%s @ %s: a value this rule judges was not followed (%s :: %s)' % (rule, where, construct, message[:300])
            if err not in self.errors:
                self.errors.append(err)
            return None
        f = Finding(self.prop, rule, where, construct, message, loc, trace)
        # de-duplicate by key
        for g in self.findings:
            if g.key == f.key:
                r = self.analysed['rules'].setdefault(rule, {'text': '', 'instances': 0, 'findings': 0})
                r['instances'] += 1
                self.obligations.append((rule, where, construct + ' :: ' + message, False, True))
                if message != g.message and message not in g.trace:
                    g.trace.append('also: ' + message)
                return g
        self.findings.append(f)
        self.obligations.append((rule, where, construct + ' :: ' + message, False, True))
        r = self.analysed['rules'].setdefault(rule, {'text': '', 'instances': 0, 'findings': 0})
        r['instances'] += 1
        r['findings'] += 1
        self.analysed['functions'].add(where)
        return f

    def check(self, cond, rule, where, construct, ok_text, bad_text, loc='', trace=None):
        if cond:
            self.ok(rule, where, ok_text)
        else:
            self.finding(rule, where, construct, bad_text, loc, trace)
        return cond

    def info(self, text):
        self.infos.append(text)

    def trust(self, *items):
        for i in items:
            if i not in self.trusted:
                self.trusted.append(i)

    def assume(self, *items):
        for i in items:
            if i not in self.assumptions:
                self.assumptions.append(i)

    def credit(self, rule, n, why):
        """The instance floor of a rule counts the instances of the form confirmed by hand on the pinned tree.  A part of the rule that
        decided its functions in another (bounded, organisation-independent) form instead says so here, with the number of instances
        the hand-confirmed form contributes: the floor then judges the other parts only."""
        self.credits[rule] = self.credits.get(rule, 0) + n
        self.infos.append('%s: instance floor credited with %d: %s' % (rule, n, why))

    def require_instances(self, rule, minimum):
        """A rule matching (almost) nothing must not pass vacuously: recorded as a deferred analysis
        error (exit 2 unless a definite finding is reported)."""
        n = self.analysed['rules'].get(rule, {}).get('instances', 0) + self.credits.get(rule, 0)
        if n < minimum and not self.errors:
            self.errors.append('rule %s matched %d instances, fewer than the %d confirmed by hand '
                               '(a rule matching nothing must not pass vacuously)' % (rule, n, minimum))


def load_known():
    if not os.path.exists(KNOWN_FILE):
        return []
    with open(KNOWN_FILE) as fh:
        return json.load(fh).get('entries', [])


def finish(run, only_key=None, write_evidence=True, quiet=False):
    """Print results, write evidence, return exit code."""
    known = [e for e in load_known() if e.get('kind') == 'known' and e.get('property') == run.prop]
    known_keys = {e['key']: e for e in known}
    viol = []
    knownhit = []
    for f in run.findings:
        if only_key is not None and f.key != only_key:
            continue
        if f.key in known_keys:
            knownhit.append(f)
        else:
            viol.append(f)
    out = []
    for f in knownhit:
        out.append('KNOWN-FINDING: property=%s %s -- %s' % (run.prop, f.key, known_keys[f.key].get('what', f.message)))
    os.makedirs(os.path.join(REPLAY_DIR, run.prop), exist_ok=True)
    for f in viol:
        h = hashlib.sha1(f.key.encode()).hexdigest()[:12]
        path = os.path.join(REPLAY_DIR, run.prop, h + '.json')
        with open(path, 'w') as fh:
            json.dump(f.to_json(), fh, indent=1)
        out.append('FINDING %s [%s] %s in %s: %s\n    construct: %s' % (f.loc, f.rule, run.prop, f.where, f.message, f.construct))
        for t in f.trace[:12]:
            out.append('    | %s' % t)
        out.append('VIOLATION property=%s replay=%s' % (run.prop, path))
    nob = len(run.obligations)
    ndis = sum(1 for o in run.obligations if o[3])
    distinct = len({(o[0], o[1], o[2]) for o in run.obligations if o[4]})
    wall = time.time() - run.t0
    if write_evidence and only_key is None:
        samples = []
        seen_rules = set()
        for o in run.obligations:
            if o[0] not in seen_rules:
                seen_rules.add(o[0])
                samples.append({'rule': o[0], 'function': o[1], 'obligation': o[2][:600], 'holds': o[3]})
        for o in run.obligations:
            if not o[3] and len(samples) < 40:
                samples.append({'rule': o[0], 'function': o[1], 'obligation': o[2][:600], 'holds': False})
        rules = run.analysed['rules']
        expl = ('Static analysis of the source of %s (nothing in prysm is imported or executed). Rules applied: ' % run.root
                + '; '.join('%s: %s [%d instances, %d findings]' % (k, v['text'], v['instances'], v['findings'])
                            for k, v in sorted(rules.items()))
                + ('. ' + ' '.join(run.explanations) if run.explanations else ''))
        ev = {
            'property_id': run.prop,
            'tier': run.tier if run.tier in ('quick', 'thorough') else 'quick',
            'seed': int(os.environ.get('VERIF_SEED', '0') or 0),
            'level': 'other',
            'coverage': {
                'explanation': expl,
                'evaluations': nob,
                'distinct_nontrivial': distinct,
                'rule': 'one evaluation = one rule instance (obligation) decided on a named construct of the '
                        'current tree; distinct = distinct (rule, function, obligation text); non-trivial = the '
                        'obligation involved at least one abstract value computed from the source (not a mere '
                        'existence check)',
                'obligations': nob,
                'discharged': ndis,
                'samples': samples,
                'trusted_base': run.trusted,
                'functions_analysed': sorted(run.analysed['functions']),
                'rules': {k: v for k, v in sorted(rules.items())},
                'known_findings_hit': [f.key for f in knownhit],
                'info': run.infos[:200],
                'exhaustive': True,
            },
            'assumptions': run.assumptions,
            'wall_s': round(wall, 3),
            'violations': len(viol),
        }
        os.makedirs(EVIDENCE_DIR, exist_ok=True)
        with open(os.path.join(EVIDENCE_DIR, run.prop + '.json'), 'w') as fh:
            json.dump(ev, fh, indent=1, sort_keys=False)
            fh.write('\n')
    if not quiet:
        print('%s tier=%s root=%s: %d obligations, %d discharged, %d known findings, %d violations, %.2fs'
              % (run.prop, run.tier, run.root, nob, ndis, len(knownhit), len(viol), wall))
        for k, v in sorted(run.analysed['rules'].items()):
            print('  rule %-18s instances=%-3d findings=%d' % (k, v['instances'], v['findings']))
        for line in out:
            print(line)
    if run.errors and only_key is None:
        for e in run.errors:
            print('ANALYSIS-ERROR property=%s: %s' % (run.prop, e))
        if not viol:
            return 2
    return 1 if viol else 0
