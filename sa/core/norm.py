"""NORM -- canonical forms of scalar expression trees.

A `Poly` is a polynomial over Q in *atoms* (opaque canonical strings).  A `Rat`
is a quotient of two polys; equality of Rats is decided by cross
multiplication.  A small set of rewrite rules is built into the monomial
normaliser:

  * ``I`` is the imaginary unit, ``I**2 -> -1``
  * ``exp(p)`` atoms obey ``exp(p)*exp(q) -> exp(p+q)`` and ``exp(0) -> 1``
  * atoms registered with a *square rule* obey ``atom**2 -> rule`` (used for
    ``sin(u)**2 -> 1-cos(u)**2`` and ``sqrt(e)**2 -> e``)

Nothing in here samples, searches or branches on values: it is the algebraic
analogue of constant folding / value numbering.  Equal normal forms imply equal
values wherever both sides are defined.
"""
from fractions import Fraction

F = Fraction


class NormError(Exception):
    """Expression outside the fragment NORM can canonicalise."""


class Ring:
    """Registry of atoms, their square rules and reality flags."""

    def __init__(self):
        self.square = {}      # atom -> Poly  (atom**2 == Poly)
        self.real = {}        # atom -> bool (default True)
        self.exparg = {}      # 'exp(..)' atom -> Poly argument
        self.info = {}        # atom -> (kind, args) free metadata
        self.deriv = {}       # atom -> {var: Rat}

    # -- atom constructors -------------------------------------------------
    def atom(self, name, real=True, info=None):
        self.real.setdefault(name, real)
        if info is not None:
            self.info[name] = info
        return Poly({((name, 1),): F(1)}, self)

    def const(self, c):
        c = F(c)
        return Poly({(): c} if c else {}, self)

    @property
    def I(self):
        return Poly({(('I', 1),): F(1)}, self)

    def exp(self, arg):
        """exp of a Poly/Rat argument; the stored argument is always a Rat."""
        if isinstance(arg, Poly):
            arg = Rat(arg)
        if arg.is_zero():
            return self.const(1)
        name = 'exp(%s)' % arg.key()
        self.exparg[name] = arg
        self.real[name] = False
        return Poly({((name, 1),): F(1)}, self)

    def func(self, fname, args, real=True):
        """Uninterpreted application fname(args) as an atom."""
        name = '%s(%s)' % (fname, ','.join(a.key() for a in args))
        self.real.setdefault(name, real)
        self.info[name] = (fname, tuple(args))
        return Poly({((name, 1),): F(1)}, self)

    def sqrt(self, arg):
        """sqrt as an atom with the rule sqrt(e)**2 -> e."""
        if isinstance(arg, Rat):
            if arg.den.is_const():
                arg = arg.num * (F(1) / arg.den.const_value())
            else:
                return Rat(self.sqrt(arg.num), self.sqrt(arg.den))
        if arg.is_const():
            c = arg.const_value()
            if c >= 0:
                n, d = c.numerator, c.denominator
                rn, rd = _isqrt(n), _isqrt(d)
                if rn is not None and rd is not None:
                    return self.const(F(rn, rd))
        # pull out a perfect-square rational content so sqrt(4x) == 2 sqrt(x)
        content = arg.content()
        if content is not None and content > 0:
            n, d = content.numerator, content.denominator
            rn, rd = _isqrt(n), _isqrt(d)
            if rn is not None and rd is not None and (rn, rd) != (1, 1):
                inner = arg * (F(1) / content)
                return self.sqrt(inner) * F(rn, rd)
        # perfect square monomial of atoms declared positive: sqrt(x**2k) = x**k
        pos = getattr(self, 'positive', None)
        if pos and len(arg.t) == 1:
            (m, c), = arg.t.items()
            if c > 0 and m and all(a in pos and e % 2 == 0 for a, e in m):
                rn, rd = _isqrt(c.numerator), _isqrt(c.denominator)
                if rn is not None and rd is not None:
                    return Poly({tuple((a, e // 2) for a, e in m): F(rn, rd)}, self)
        # otherwise a perfect square monomial is NOT simplified (sign)
        name = 'sqrt(%s)' % arg.key()
        self.square[name] = arg
        self.real.setdefault(name, all(self.real.get(a, True) for a in arg.atoms()) and 'I' not in arg.atoms())
        self.info[name] = ('sqrt', (arg,))
        return Poly({((name, 1),): F(1)}, self)

    def trig(self, which, arg):
        """sin/cos atoms with sin**2 -> 1 - cos**2; odd/even in a leading sign."""
        if isinstance(arg, Rat):
            if arg.den.is_const():
                arg = arg.num * (F(1) / arg.den.const_value())
            else:
                k = arg.key()
                sign = 1
                s, c = 'sin(%s)' % k, 'cos(%s)' % k
                cp = Poly({((c, 1),): F(1)}, self)
                self.square[s] = self.const(1) - cp * cp
                return Poly({((s if which == 'sin' else c, 1),): F(1)}, self)
        if arg.is_zero():
            return self.const(0 if which == 'sin' else 1)
        sign = 1
        if arg.leading_sign() < 0:
            arg = -arg
            sign = -1
        k = arg.key()
        s, c = 'sin(%s)' % k, 'cos(%s)' % k
        cp = Poly({((c, 1),): F(1)}, self)
        self.square[s] = self.const(1) - cp * cp
        self.info[s] = ('sin', (arg,))
        self.info[c] = ('cos', (arg,))
        if which == 'sin':
            return Poly({((s, 1),): F(sign)}, self)
        return cp


def _isqrt(n):
    import math
    if n < 0:
        return None
    r = math.isqrt(n)
    return r if r * r == n else None


class Poly:
    __slots__ = ('t', 'R')

    def __init__(self, terms, ring):
        self.t = terms
        self.R = ring

    # -- helpers -----------------------------------------------------------
    def is_zero(self):
        return not self.t

    def is_const(self):
        return all(m == () for m in self.t)

    def const_value(self):
        return self.t.get((), F(0))

    def atoms(self):
        s = set()
        for m in self.t:
            for a, _ in m:
                s.add(a)
        return s

    def content(self):
        if not self.t:
            return None
        from math import gcd
        nums = [abs(c.numerator) for c in self.t.values()]
        dens = [c.denominator for c in self.t.values()]
        g = 0
        for n in nums:
            g = gcd(g, n)
        l = 1
        for d in dens:
            l = l * d // gcd(l, d)
        return F(g, l) if g else None

    def leading_sign(self):
        if not self.t:
            return 1
        m = min(self.t, key=_mkey)
        return 1 if self.t[m] > 0 else -1

    def key(self):
        if not self.t:
            return '0'
        parts = []
        for m in sorted(self.t, key=_mkey):
            c = self.t[m]
            mon = '*'.join(a if e == 1 else '%s^%d' % (a, e) for a, e in m)
            if not mon:
                parts.append(str(c))
            elif c == 1:
                parts.append(mon)
            elif c == -1:
                parts.append('-' + mon)
            else:
                parts.append('%s*%s' % (c, mon))
        return '(' + ' + '.join(parts) + ')' if len(parts) > 1 or parts[0].startswith('-') else parts[0]

    __str__ = key
    __repr__ = key

    # -- arithmetic --------------------------------------------------------
    def _coerce(self, o):
        if isinstance(o, Poly):
            return o
        if isinstance(o, (int, Fraction)):
            return self.R.const(o)
        return NotImplemented

    def __add__(self, o):
        if isinstance(o, Rat):
            return Rat(self) + o
        o = self._coerce(o)
        if o is NotImplemented:
            return o
        t = dict(self.t)
        for m, c in o.t.items():
            v = t.get(m, 0) + c
            if v:
                t[m] = v
            else:
                t.pop(m, None)
        return Poly(t, self.R)

    __radd__ = __add__

    def __neg__(self):
        return Poly({m: -c for m, c in self.t.items()}, self.R)

    def __sub__(self, o):
        if isinstance(o, Rat):
            return Rat(self) - o
        o = self._coerce(o)
        if o is NotImplemented:
            return o
        return self + (-o)

    def __rsub__(self, o):
        return (-self) + o

    def __mul__(self, o):
        if isinstance(o, Rat):
            return Rat(self) * o
        o = self._coerce(o)
        if o is NotImplemented:
            return o
        acc = {}
        for m1, c1 in self.t.items():
            for m2, c2 in o.t.items():
                for m, c in _mulmono(m1, m2, self.R):
                    v = acc.get(m, 0) + c * c1 * c2
                    if v:
                        acc[m] = v
                    else:
                        acc.pop(m, None)
        return Poly(acc, self.R)

    __rmul__ = __mul__

    def __pow__(self, k):
        if not isinstance(k, int):
            raise NormError('non-integer power of polynomial')
        if k < 0:
            return Rat(self.R.const(1), self ** (-k))
        out = self.R.const(1)
        base = self
        while k:
            if k & 1:
                out = out * base
            base = base * base
            k >>= 1
        return out

    def __truediv__(self, o):
        return Rat(self) / o

    def __rtruediv__(self, o):
        return Rat(self._coerce(o)) / Rat(self)

    def __eq__(self, o):
        o = self._coerce(o) if not isinstance(o, Rat) else o
        if isinstance(o, Rat):
            return Rat(self) == o
        if o is NotImplemented:
            return False
        return (self - o).is_zero()

    def __hash__(self):
        return hash(self.key())

    def conj(self):
        R = self.R
        out = R.const(0)
        for m, c in self.t.items():
            term = R.const(c)
            for a, e in m:
                term = term * (_conj_atom(a, R) ** e)
            out = out + term
        return out

    def subs(self, mapping):
        """Substitute atoms by Poly/Rat values."""
        R = self.R
        out = R.const(0)
        anyrat = False
        for m, c in self.t.items():
            term = R.const(c)
            for a, e in m:
                v = mapping.get(a)
                if v is None:
                    v = _resubst_atom(a, mapping, R)
                if isinstance(v, Rat):
                    anyrat = True
                term = term * (v ** e)
            out = out + term
        return out

    def degree_in(self, atom):
        d = 0
        for m in self.t:
            for a, e in m:
                if a == atom:
                    d = max(d, e)
        return d

    def coeff_of(self, atom, k):
        """Coefficient polynomial of atom**k."""
        acc = {}
        for m, c in self.t.items():
            e = dict(m).get(atom, 0)
            if e == k:
                mm = tuple((a, x) for a, x in m if a != atom)
                acc[mm] = acc.get(mm, 0) + c
        return Poly({m: c for m, c in acc.items() if c}, self.R)


def _resubst_atom(a, mapping, R):
    """Substitute inside function-atoms (exp/sqrt/sin/cos/uninterpreted)."""
    if a == 'I':
        return R.I
    if a in R.exparg:
        return R.exp(R.exparg[a].subs(mapping))
    info = R.info.get(a)
    if info:
        kind, args = info
        newargs = [x.subs(mapping) if isinstance(x, (Poly, Rat)) else x for x in args]
        if kind == 'sqrt':
            return R.sqrt(newargs[0])
        if kind in ('sin', 'cos'):
            return R.trig(kind, newargs[0])
        if kind == 'conj':
            v = newargs[0]
            return v.conj()
        return R.func(kind, newargs, real=R.real.get(a, True))
    return Poly({((a, 1),): F(1)}, R)


def _conj_atom(a, R):
    if a == 'I':
        return -R.I
    if a in R.exparg:
        return R.exp(R.exparg[a].conj())
    if R.real.get(a, True):
        return Poly({((a, 1),): F(1)}, R)
    info = R.info.get(a)
    if info and info[0] == 'conj':
        return info[1][0]
    p = Poly({((a, 1),): F(1)}, R)
    name = 'conj(%s)' % a
    R.real[name] = False
    R.info[name] = ('conj', (p,))
    return Poly({((name, 1),): F(1)}, R)


def _mkey(m):
    return (sum(e for _, e in m), m)


def _mulmono(m1, m2, R):
    """Multiply two monomials and normalise; yields (monomial, coeff) pairs."""
    d = dict(m1)
    for a, e in m2:
        d[a] = d.get(a, 0) + e
    coef = F(1)
    # I reduction
    if 'I' in d:
        e = d.pop('I') % 4
        if e >= 2:
            coef = -coef
            e -= 2
        if e:
            d['I'] = 1
    # exp merge
    exps = [a for a in d if a in R.exparg]
    if exps and (len(exps) > 1 or d[exps[0]] != 1):
        arg = Rat(R.const(0))
        for a in exps:
            arg = arg + R.exparg[a] * d.pop(a)
        if not arg.is_zero():
            p = R.exp(arg)
            (mm,) = p.t
            d[mm[0][0]] = 1
    # square rules
    for a, e in list(d.items()):
        if e >= 2 and a in R.square:
            rule = R.square[a]
            q, r = divmod(e, 2)
            del d[a]
            if r:
                d[a] = 1
            rest = Poly({tuple(sorted((k, v) for k, v in d.items() if v)): coef}, R)
            res = rest * (rule ** q)
            return list(res.t.items())
    return [(tuple(sorted((k, v) for k, v in d.items() if v)), coef)]


class Rat:
    __slots__ = ('num', 'den')

    def __init__(self, num, den=None):
        if den is None:
            den = num.R.const(1)
        if den.is_zero():
            raise NormError('division by the zero polynomial')
        # light normalisation: constant denominators fold into the numerator
        if den.is_const():
            c = den.const_value()
            if c != 1:
                num = num * (F(1) / c)
                den = num.R.const(1)
        else:
            num, den = _cancel_monomial(num, den)
        self.num = num
        self.den = den

    @property
    def R(self):
        return self.num.R

    def _coerce(self, o):
        if isinstance(o, Rat):
            return o
        if isinstance(o, Poly):
            return Rat(o)
        if isinstance(o, (int, Fraction)):
            return Rat(self.num.R.const(o))
        return NotImplemented

    def __add__(self, o):
        o = self._coerce(o)
        if o is NotImplemented:
            return o
        if self.den == o.den:
            return Rat(self.num + o.num, self.den)
        return Rat(self.num * o.den + o.num * self.den, self.den * o.den)

    __radd__ = __add__

    def __neg__(self):
        return Rat(-self.num, self.den)

    def __sub__(self, o):
        o = self._coerce(o)
        if o is NotImplemented:
            return o
        return self + (-o)

    def __rsub__(self, o):
        return (-self) + o

    def __mul__(self, o):
        o = self._coerce(o)
        if o is NotImplemented:
            return o
        return Rat(self.num * o.num, self.den * o.den)

    __rmul__ = __mul__

    def __truediv__(self, o):
        o = self._coerce(o)
        if o is NotImplemented:
            return o
        if o.num.is_zero():
            raise NormError('division by zero')
        return Rat(self.num * o.den, self.den * o.num)

    def __rtruediv__(self, o):
        return self._coerce(o) / self

    def __pow__(self, k):
        if not isinstance(k, int):
            raise NormError('non-integer power')
        if k < 0:
            return Rat(self.den ** (-k), self.num ** (-k))
        return Rat(self.num ** k, self.den ** k)

    def __eq__(self, o):
        o = self._coerce(o)
        if o is NotImplemented:
            return False
        return (self.num * o.den - o.num * self.den).is_zero()

    def __hash__(self):
        return hash(self.key())

    def is_zero(self):
        return self.num.is_zero()

    def is_poly(self):
        return self.den.is_const()

    def as_poly(self):
        if not self.den.is_const():
            raise NormError('not a polynomial: %s' % self.key())
        return self.num * (F(1) / self.den.const_value())

    def conj(self):
        return Rat(self.num.conj(), self.den.conj())

    def subs(self, mapping):
        n = self.num.subs(mapping)
        d = self.den.subs(mapping)
        return _rat(n) / _rat(d)

    def atoms(self):
        return self.num.atoms() | self.den.atoms()

    def key(self):
        if self.den.is_const() and self.den.const_value() == 1:
            return self.num.key()
        return '%s/%s' % (self.num.key(), self.den.key())

    __str__ = key
    __repr__ = key


def _rat(x):
    return x if isinstance(x, Rat) else Rat(x)


def _cancel_monomial(num, den):
    """Cancel the common monomial/numeric content of num and den."""
    if num.is_zero():
        return num, num.R.const(1)
    R = num.R
    # numeric content of den -> 1
    cd = den.content()
    if cd is not None and cd != 1:
        num = num * (F(1) / cd)
        den = den * (F(1) / cd)
    if den.leading_sign() < 0:
        num, den = -num, -den
    # common atom powers (only atoms without rewrite rules, to stay sound/simple)
    common = None
    for p in (num, den):
        for m in p.t:
            d = dict(m)
            if common is None:
                common = dict(d)
            else:
                for a in list(common):
                    e = min(common[a], d.get(a, 0))
                    if e:
                        common[a] = e
                    else:
                        del common[a]
            if not common:
                break
        if not common:
            break
    if common:
        common = {a: e for a, e in common.items()
                  if a != 'I' and a not in R.exparg and a not in R.square}
    if common:
        def strip(p):
            t = {}
            for m, c in p.t.items():
                d = dict(m)
                for a, e in common.items():
                    d[a] -= e
                t[tuple(sorted((k, v) for k, v in d.items() if v))] = c
            return Poly(t, R)
        num, den = strip(num), strip(den)
    if num == den:
        return R.const(1), R.const(1)
    return num, den


def requal(a, b):
    """Equality of two Poly/Rat/int values."""
    if isinstance(a, (int, Fraction)) and isinstance(b, (int, Fraction)):
        return F(a) == F(b)
    if isinstance(a, (int, Fraction)):
        a, b = b, a
    return _rat(a) == b if not isinstance(b, (int, Fraction)) else _rat(a) == _rat(a).R.const(b)


def diff(v, var, R):
    """d v / d var for Poly/Rat built from atoms; `var` is an atom name.

    Atoms other than `var` are constants unless R.deriv[atom][var] is set or the
    atom is an exp/sqrt/sin/cos of something that depends on var.
    """
    if isinstance(v, Rat):
        n, d = v.num, v.den
        if d.is_const():
            return _rat(diff(n, var, R)) / d
        dn, dd = diff(n, var, R), diff(d, var, R)
        return (_rat(dn) * d - _rat(dd) * n) / (d * d)
    out = Rat(R.const(0))
    for m, c in v.t.items():
        for i, (a, e) in enumerate(m):
            da = _datom(a, var, R)
            if da is None:
                continue
            rest = Poly({tuple((x, y) for j, (x, y) in enumerate(m) if j != i): c}, R)
            apow = Poly({((a, e - 1),): F(e)}, R) if e > 1 else R.const(e)
            out = out + _rat(rest * apow) * da
    return out


def _datom(a, var, R):
    if a == var:
        return Rat(R.const(1))
    if a == 'I':
        return None
    if a in R.deriv and var in R.deriv[a]:
        return _rat(R.deriv[a][var])
    if a in R.exparg:
        d = diff(R.exparg[a], var, R)
        if d.is_zero():
            return None
        return d * Poly({((a, 1),): F(1)}, R)
    info = R.info.get(a)
    if not info:
        return None
    kind, args = info
    if kind == 'sqrt':
        d = diff(args[0], var, R)
        if d.is_zero():
            return None
        return d / (Poly({((a, 1),): F(2)}, R))
    if kind == 'sin':
        d = diff(args[0], var, R)
        if d.is_zero():
            return None
        return d * R.trig('cos', args[0])
    if kind == 'cos':
        d = diff(args[0], var, R)
        if d.is_zero():
            return None
        return -(d * R.trig('sin', args[0]))
    if kind == 'pow' and len(args) == 2:
        base, ex = args
        if not diff(ex, var, R).is_zero():
            raise NormError('derivative of a power with variable exponent')
        d = diff(base, var, R)
        if d.is_zero():
            return None
        return d * _rat(ex) * _rat(R.func('pow', [_rat(base), _rat(ex) - 1]))
    fd = getattr(R, 'fderiv', {}).get(kind)
    if fd is not None:
        pos, dname = fd
        d = diff(args[pos], var, R)
        for i, x in enumerate(args):
            if i != pos and isinstance(x, (Poly, Rat)) and not diff(x, var, R).is_zero():
                raise NormError('derivative of %s through a parameter' % kind)
        if d.is_zero():
            return None
        return d * _rat(R.func(dname, [_rat(x) for x in args], real=R.real.get(a, True)))
    if kind == 'log' and len(args) == 1:
        d = diff(args[0], var, R)
        if d.is_zero():
            return None
        return d / _rat(args[0])
    if kind == 'arctan' and len(args) == 1:
        d = diff(args[0], var, R)
        if d.is_zero():
            return None
        u = _rat(args[0])
        return d / (u * u + 1)
    # uninterpreted function: derivative only if no argument depends on var
    for x in args:
        if isinstance(x, (Poly, Rat)) and not diff(x, var, R).is_zero():
            raise NormError('derivative of uninterpreted atom %s w.r.t. %s' % (a, var))
    return None
