"""Source of MANIFEST.json (tools/gen_manifest.py).  A property is listed under CLAIMS only when its
check exists and decides the named clauses; everything else is under NOT_APPLICABLE with the reason."""

TRUST = ("Trusted base: Python's ast parser; the alias/name based symbol resolution of sa/core/db.py; the abstract "
         "interpreter sa/core/interp.py (path enumeration by re-execution, abstract inlining of prysm callees); ")

ENGINES = [
    {"name": "NORM", "path": "sa/core/norm.py", "serves_properties": ["C17", "C20"],
     "kind_free_text": "canonical forms of expression trees: polynomials/rational functions over Q in atoms with I^2=-1, sin^2->1-cos^2, sqrt^2, exp laws; equality by cross multiplication; no sampling, no solver"},
    {"name": "INDEX", "path": "sa/domains/index.py", "serves_properties": ["C04"],
     "kind_free_text": "affine x parity abstract domain for centre/offset expressions; decides //2, ceil(/2), floor(/2) identities for all lengths by enumerating parity classes"},
    {"name": "INTERP", "path": "sa/core/interp.py", "serves_properties": ["C17"],
     "kind_free_text": "abstract interpreter over the Python subset prysm uses; pluggable domains; path enumeration; abstract inlining of resolved prysm callees"},
]

CLAIMS = {
    "C17": {
        "engine": "NORM",
        "technique": "static analysis: abstract interpretation of the source into canonical rational-function normal forms (NORM) and comparison of normal forms; AST table rule for the polarisation dispatch",
        "text": "Decides, for ALL indices/angles/thicknesses at once, the algebraic clauses of the property from the source: r^2 + (n1 cos t1 / n0 cos t0) t^2 == 1 for s and p as polynomial identities; r and t of a polarisation share one denominator; the one-layer stack whose layer is the exit medium gives exactly fresnel_r for every thickness and fresnel_t at zero thickness; characteristic matrices have determinant 1 and are the identity at zero thickness; rtot=A10/A00, ttot=1/A00; p/s dispatch table; Snell/Brewster/critical-angle closed forms. This is a necessary condition of the behaviour (breaking any clause breaks R+T=1 or the interface/zero-thickness laws); it does not decide N-layer energy conservation for N>1 beyond the unit-determinant clause, float accuracy, or the batched==loop plumbing.",
        "note": TRUST + "NORM rewrite rules (sin^2=1-cos^2, I^2=-1); the textbook energy balance with the admittance factor; scalar (elementwise) context for array arguments.",
    },
}

CLAIMS["C20"] = {
    "engine": "NORM",
    "technique": "static analysis: abstract interpretation of the constructors (subscript stores into the zero matrix, matrix products, kron/einsum/inv on literal matrices) into symbolic 2x2/4x4 matrices over NORM normal forms; identities decided by normal-form equality",
    "text": "Decides for ALL angles, retardances, charges and generic complex Jones entries: U^H U == I for linear/half-wave/quarter-wave/vortex retarders and the rotation matrix; element(theta) == R(-theta) diag R(theta) against an independent reference rotation; polariser idempotent + Malus; wrappers delegate with the right retardance; Pauli matrices and sum c_i sigma_i == J; jones_to_mueller(J)[i,j] == 1/2 tr(sigma_i J sigma_j J^H) on both code paths (either S3 handedness), which implies multiplicativity, orthogonality for unitary J and M00=1; the propagation adapter maps component (i,j) to (i,j). Not decided: that the batched construction equals the elementwise one (array plumbing).",
    "note": TRUST + "NORM rewrite rules incl. conj(exp(I u)) = exp(-I u) for real u; Mueller definition via Pauli traces; numpy einsum implicit-output (alphabetical) semantics as modelled in sa/domains/normdom.py.",
}
CLAIMS["C04"] = {
    "engine": "INDEX",
    "technique": "static analysis: abstract interpretation in an affine x parity index domain (lengths n=2a+p; //2, ceil(./2), floor(./2) exact per parity class); all 2^k parity classes enumerated, so every length is covered; call-graph delegation rule",
    "text": "Decides for ALL axis lengths (every odd/even combination, growing or shrinking, per axis): fftrange starts at -(n//2); make_xy_grid is (x over columns, y over rows) built from fftrange with step dx; pad2d writes the input at offset N//2 - n//2 on both of its code paths (explicit out_shape and Q-derived) and np.pad widths complete the shape; crop_center reads at n//2 - o//2 with width o (so crop undoes pad and the origin sample maps to the origin sample); the centroid reference, the OTF/MTF/PTF DC index, bandlimited_rms centre, recenter, hann2d, render_synthetic_surface and DM lattice centres equal s//2 of the axis they index; RichData.x/y, Wavefront.pad2d/crop and Interferogram.pad delegate to those primitives. Not decided: the Slices centre (argmin|x| on user supplied axes is a value question) and pad modes' fill values.",
    "note": TRUST + "the origin convention 'index n//2' of the property; INDEX transfer functions for arange/zeros/slices/np.pad argument capture (sa/domains/index.py).",
}

NOT_APPLICABLE = {
    "C11": "index bijections are float sqrt/ceil algebra on the index; their failure mode is a rounding event at particular j and the deciding step named by the property (exhaustive j <= 1e5) is execution; no finite static abstraction of j decides it (DESIGN.md section 4, C11)",
}
for _p in ("C01 C02 C03 C05 C06 C07 C08 C09 C10 C12 C13 C14 C15 C16 C18 C19").split():
    NOT_APPLICABLE[_p] = "check not delivered yet in this revision of /verif (design in DESIGN.md section 4); will be claimed only through the structural clauses named there once its rule module exists"
