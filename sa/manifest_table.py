"""Source of MANIFEST.json (tools/gen_manifest.py).  A property is listed under CLAIMS only when its
check exists and decides the named clauses; everything else is under NOT_APPLICABLE with the reason."""

TRUST = ("Trusted base: Python's ast parser; the alias/name based symbol resolution of sa/core/db.py; the abstract "
         "interpreter sa/core/interp.py (path enumeration by re-execution, abstract inlining of prysm callees); ")

ENGINES = [
    {"name": "NORM", "path": "sa/core/norm.py", "serves_properties": ["C17", "C20"],
     "kind_free_text": "canonical forms of expression trees: polynomials/rational functions over Q in atoms with I^2=-1, sin^2->1-cos^2, sqrt^2, exp laws; equality by cross multiplication; no sampling, no solver"},
    {"name": "INDEX", "path": "sa/domains/index.py", "serves_properties": ["C04"],
     "kind_free_text": "affine x parity abstract domain for centre/offset expressions; decides //2, ceil(/2), floor(/2) identities for all lengths by enumerating parity classes"},
    {"name": "KERNEL", "path": "sa/domains/kernel.py", "serves_properties": ["C01", "C02", "C03", "C05", "C06"],
     "kind_free_text": "symbolic vectors/outer matrices over index atoms; DFT and chirp-Z kernels become canonical rational functions compared with the textbook kernel per axis"},
    {"name": "ORIGIN", "path": "sa/domains/origin.py", "serves_properties": ["C01", "C02", "C13"],
     "kind_free_text": "origin/phase-ramp typestate of fftshift/ifftshift/fft2/ifft2 pipelines per parity class"},
    {"name": "CACHE-b", "path": "sa/domains/cachestate.py", "serves_properties": ["C12"],
     "kind_free_text": "typestate of lazily cached coordinate arrays: versions of shape/scale/origin; inductive invariant over all mutators"},
    {"name": "ORDER", "path": "sa/domains/order.py", "serves_properties": ["C07", "C08", "C09", "C10"],
     "kind_free_text": "denotation of recurrence loops: carried names become opaque order atoms; inductive invariant with reference recurrences; symbolic order lists and emission guards"},
    {"name": "SHAPE", "path": "sa/domains/shape.py", "serves_properties": ["C08"],
     "kind_free_text": "array shapes with pairwise-distinct symbolic dimensions; right-aligned broadcasting; ranks 0..3"},
    {"name": "INTERP", "path": "sa/core/interp.py", "serves_properties": ["C17"],
     "kind_free_text": "abstract interpreter over the Python subset prysm uses; pluggable domains; path enumeration; abstract inlining of resolved prysm callees"},
]

CLAIMS = {
    "C17": {
        "engine": "NORM",
        "technique": "static analysis: abstract interpretation of the source into canonical rational-function normal forms (NORM) and comparison of normal forms; AST table rule for the polarisation dispatch",
        "text": "Decides, for ALL indices/angles/thicknesses at once, the algebraic clauses of the property from the source: r^2 + (n1 cos t1 / n0 cos t0) t^2 == 1 for s and p as polynomial identities; r and t of a polarisation share one denominator; the one-layer stack whose layer is the exit medium gives exactly fresnel_r for every thickness and fresnel_t at zero thickness; characteristic matrices have determinant 1 and are the identity at zero thickness; rtot=A10/A00, ttot=1/A00; p/s dispatch table; Snell/Brewster/critical-angle closed forms. This is a necessary condition of the behaviour (breaking any clause breaks R+T=1 or the interface/zero-thickness laws); it does not decide N-layer energy conservation for N>1 beyond the unit-determinant clause, float accuracy, or the batched==loop plumbing.",
        "note": TRUST + "NORM rewrite rules (sin^2=1-cos^2, I^2=-1); the textbook energy balance with the admittance factor; scalar (elementwise) context for array arguments.",
    },
}

CLAIMS["C20"] = {
    "engine": "NORM",
    "technique": "static analysis: abstract interpretation of the constructors (subscript stores into the zero matrix, matrix products, kron/einsum/inv on literal matrices) into symbolic 2x2/4x4 matrices over NORM normal forms; identities decided by normal-form equality",
    "text": "Decides for ALL angles, retardances, charges and generic complex Jones entries: U^H U == I for linear/half-wave/quarter-wave/vortex retarders and the rotation matrix; element(theta) == R(-theta) diag R(theta) against an independent reference rotation; polariser idempotent + Malus; wrappers delegate with the right retardance; Pauli matrices and sum c_i sigma_i == J; jones_to_mueller(J)[i,j] == 1/2 tr(sigma_i J sigma_j J^H) on both code paths (either S3 handedness), which implies multiplicativity, orthogonality for unitary J and M00=1; the propagation adapter maps component (i,j) to (i,j). Not decided: that the batched construction equals the elementwise one (array plumbing).",
    "note": TRUST + "NORM rewrite rules incl. conj(exp(I u)) = exp(-I u) for real u; Mueller definition via Pauli traces; numpy einsum implicit-output (alphabetical) semantics as modelled in sa/domains/normdom.py.",
}
CLAIMS["C04"] = {
    "engine": "INDEX",
    "technique": "static analysis: abstract interpretation in an affine x parity index domain (lengths n=2a+p; //2, ceil(./2), floor(./2) exact per parity class); all 2^k parity classes enumerated, so every length is covered; call-graph delegation rule",
    "text": "Decides for ALL axis lengths (every odd/even combination, growing or shrinking, per axis): fftrange starts at -(n//2); make_xy_grid is (x over columns, y over rows) built from fftrange with step dx; pad2d writes the input at offset N//2 - n//2 on both of its code paths (explicit out_shape and Q-derived) and np.pad widths complete the shape; crop_center reads at n//2 - o//2 with width o (so crop undoes pad and the origin sample maps to the origin sample); the centroid reference, the OTF/MTF/PTF DC index, bandlimited_rms centre, recenter, hann2d, render_synthetic_surface and DM lattice centres equal s//2 of the axis they index; RichData.x/y, Wavefront.pad2d/crop and Interferogram.pad delegate to those primitives. Not decided: the Slices centre (argmin|x| on user supplied axes is a value question) and pad modes' fill values.",
    "note": TRUST + "the origin convention 'index n//2' of the property; INDEX transfer functions for arange/zeros/slices/np.pad argument capture (sa/domains/index.py).",
}

KTRUST = TRUST + "KERNEL domain (coordinate vectors as expressions in index atoms, np.outer/np.exp/broadcast multiplies/piecewise stores, sa/domains/kernel.py); the textbook per-axis DFT kernel and Bluestein identity as the oracle (sa/rules/ftkernels.py); "
CLAIMS["C01"] = {
    "engine": "KERNEL",
    "technique": "static analysis: abstract interpretation of the executors into symbolic kernels (NORM normal forms over index atoms) compared with the textbook kernel per axis for all 16 parity classes; ORIGIN typestate for the FFT route; AST/def-use rules for memo-key completeness and cache immutability",
    "text": "Decides from the source, for all shapes/Q/shifts/output sizes at once: (kernel) each matrix-DFT basis is exp(-/+2 pi i (i-N//2)(t-M//2-shift)/(N_k Q_k)) per axis in the right position, both directions; (chirp) the chirp-Z pre-chirp, three filter segments and post-chirp are the Bluestein factors of the same kernel with alpha_k=1/(N_k Q_k), lag offset N//2-M//2-shift, for every odd/even combination of input and output length; per-axis vectors multiply along their own axis, FFT sizes/crops per axis; inverse chirp-Z = conj.czt.conj; (origin) the FFT route is centred->centred with no phase ramp for odd and even lengths; (cache) memo keys contain every argument, the direction and the precision, memos are filled/cleared together and never mutated in place, which gives independence from call history; both method strings dispatch with identical arguments. A requested shift may change the result by a pure phase only (unit-modulus obligations). Not decided: float agreement of the routes to round-off.",
    "note": KTRUST + "ORIGIN typestate (sa/domains/origin.py); shift documented as (X, Y).",
}
CLAIMS["C02"] = {
    "engine": "KERNEL",
    "technique": "static analysis: ORIGIN/INDEX event extraction for FFT normalisation and zero padding; KERNEL/NORM normal forms for the matrix-DFT kernels, normalisation and the free-space transfer function; structural (dataflow-origin) rule for angular_spectrum",
    "text": "Decides: focus/unfocus use fft2/ifft2 with norm='ortho' and no size argument (unitary, mutually inverse); both pad through pad2d's zero default and pad2d(constant,0) is zeros plus exactly one copy of the input (energy unchanged by padding); forward and inverse matrix-DFT kernels are conjugate with normalisation sqrt(1/(N Q)) per axis (so the band-complete pair is the identity); the free-space transfer function is exp(-i pi lambda z (kx^2+ky^2)) with unit modulus and a phase that is linear-homogeneous in z (energy conservation, identity at 0, inverse at -z, additivity, for all wavelengths/spacings/distances) and angular_spectrum is ifft2(fft2(field)*tf) with matching normalisation on both of its paths. Not decided: float round-off; aliasing.",
    "note": KTRUST + "FFT semantics of norm='ortho'; DFT orthogonality on the band-complete grid.",
}
CLAIMS["C03"] = {
    "engine": "KERNEL",
    "technique": "static analysis: NORM equality of the spacing formulas and of every phase argument with the textbook expression under the documented units; KERNEL comparison of the fixed-sampling kernels with the physical kernel per axis and parity class",
    "text": "Decides: Q_for_sampling == lambda z/(D dx_out); pupil<->psf spacing formulas == lambda f/(N dx) and are exact inverses; both fixed-sampling engines have per-axis kernel frequency 2 pi dx_in dx_out/(lambda f) (independent of array length) and an output grid translated by exactly shift/dx_out samples along the documented axis; phase arguments of from_amp_and_phase/phase_screen/thin_lens/free space equal the dimensionless textbook phases under the documented nm/um/mm units; Wavefront wrappers pass spacings in the right roles and report the requested dx; the dx reported by the FFT route equals lambda f/(N_k dx) per axis (two recorded known findings: scalar dx for non-square arrays). Not decided: where sampled (aliased) tilts land.",
    "note": KTRUST + "documented units of the docstrings; known findings listed in known_findings.json.",
}
CLAIMS["C05"] = {
    "engine": "KERNEL",
    "technique": "static analysis: KERNEL comparison of the fixed-sampling kernels with the physical kernel per axis (array-length free => embedding invariant; same formula on both axes => transposition covariant); origin-chain (dataflow) structure rules for mask-and-back and Babinet",
    "text": "Decides: for both engines and both directions the kernel of axis k is exp(-/+2 pi i dx_in dx_out i t/(lambda f)) with no dependence on the array length (so N_k Q_k is invariant under zero-padding and the two axes are transposes of one formula), for all parity classes; to_fpm_and_back is unfocus(focus(w)*fpm) with mutually inverse kernels, centred grids and the method passed through (one recorded known finding: the return trip with a non-zero shift); babinet is [lyot*](field - to_fpm_and_back(field, 1-fpm)). Linearity is structural (matrix products of the input). Not decided: equality to round-off.",
    "note": KTRUST + "known finding for the shifted return trip (known_findings.json).",
}

CLAIMS["C06"] = {
    "engine": "KERNEL",
    "technique": "static analysis: KERNEL comparison of companion bases with the conjugate transposes of the forward bases (all shift contexts, role-mapped shapes); origin-chain (dataflow) rules for composite companions; NORM symbolic differentiation of activation/cost closed forms; affine slice-stencil transposition for the finite-difference nodes; AST stage-order rule for the deformable mirror",
    "text": "Decides: inventory of forward/companion pairs; dft2/idft2 companions and the fixed-sampling companions apply exactly L^H . g . R^H of the forward L . x . R for the same geometry (gradient shape = forward output, samples = forward input, so per-axis Q agrees for non-square and unequal sizes); to_fpm_and_back_backprop is focus_bp(conj(fpm) * unfocus_bp(g)) with stage companions in reverse order, the forward shift/method, no stray scalar, and a conjugation guard that tests the array; babinet_backprop is cbar - A^H cbar with a conjugated Lyot stop; intensity and phase companions equal 2 Ibar E and (2 pi/(1000 lambda)) Im(gbar conj E); Tanh/Arctan/Softplus/Sigmoid backprop(x) == D_x forward(x) symbolically; mean-square-error and negative-log-likelihood gradients equal the symbolic derivative of the cost (generic 3-sample array); modal sum contractions; SpatialGradient2D companions are the index-set transposes of the forward stencils with bounds from the differentiated axis; DM.render_backprop runs the forward stages in reverse with invproj/conj(tf)/gather and same-axis pad/crop guards. Not decided: Softmax Jacobian-vector product, bias_and_gain_invariant_error, and that the inverse warp/resample are adjoint to the forward interpolation (values).",
    "note": KTRUST + "adjoint of a matrix triple product and of a composition; NORM differentiation rules for exp/log/arctan; real-gradient convention (2 Ibar E).",
}

CLAIMS["C12"] = {
    "engine": "CACHE-b",
    "technique": "static analysis: typestate abstract interpretation of every mutator and lazy getter of RichData/Interferogram over versioned abstract values (shape version, NORM scale, origin version); inductive invariant over the method set covers all histories; NORM/taint rule for the NaN-aware statistics; axis-provenance rule for the crop slices",
    "text": "Decides for EVERY sequence of public mutators and reads of x/y/r/t: each mutator (crop, pad, mask, fill, spike_clip, remove_piston/tiptilt/power, recenter, latcal, strip_latcal, filter, discovered from the source) and each lazy getter maps every coherent entry state (no cache / x,y cached / x,y,r,t cached) to a coherent state on every path: cached coordinates have the data's shape (re-sliced with the data's own index objects or regenerated), are spaced by the current dx, polar caches derive from the current Cartesian ones. Also: util.mean/pv/rms/Sa/std reduce only over array[isfinite] and equal their definitions (generic 3-sample array), Interferogram statistics delegate to them, remove_piston subtracts that mean; crop's bounding-box slices index the axis their statistics belong to. Not decided: idempotence of tilt/power removal, rms^2=std^2+mean^2, Sa<=std<=PV (values).",
    "note": TRUST + "CACHE-b transfer functions incl. the shape-preserving whitelist (sa/domains/cachestate.py); summaries of make_xy_grid / cart_to_polar / pad2d.",
}
CLAIMS["C13"] = {
    "engine": "ORIGIN",
    "technique": "static analysis: ORIGIN typestate of the PSD pipeline per parity; NORM with uninterpreted fft/sum atoms for the normalisation; API-surface rule (library attribute uses vs installed NumPy/SciPy and the NumPy 1.x/2.x name sets, guard-aware); def-use rules for integration spacings and the RMS rescale order",
    "text": "Decides: every NumPy/SciPy name used by interferogram/fttools/coordinates/util exists in the installed library and in NumPy 1.x or sits under an AttributeError/hasattr guard; the PSD's DC bin coincides with the zero of forward_ft_unit for odd and even lengths; psd == |fft2(h w)|^2 dx^2/sum(w^2) (GH_FFT power normalisation, hence Parseval with df=1/(N dx)); ux/uy come from the column/row counts and are broadcast as (rows=y, cols=x); the band mask keeps [flow, fhigh] and each axis is integrated with its own frequency step; a synthetic surface is masked, then measured with the NaN-aware rms, then scaled by requested/measured; no function of the PSD chain writes in place through an argument. Not decided: band additivity/monotonicity to round-off and the trapezoid end weights.",
    "note": TRUST + "ORIGIN typestate; the installed NumPy/SciPy API surface (read by importing those libraries, not prysm); frozen list of names new in NumPy 2.x.",
}

OTRUST = TRUST + "ORDER engine (carried-set loop denotation with reference recurrences, sa/domains/order.py); reference families of sa/rules/polyfam.py (DLMF 18.9, Mason & Handscomb Chebyshev kinds, Dickson D_0=2/E_0=1); "
CLAIMS["C07"] = {
    "engine": "ORDER",
    "technique": "static analysis: inductive loop-invariant checking of the three-term recurrence loops inside NORM (carried names become opaque order atoms, one symbolic iteration, post-state == head state at i+1); NORM equality of base cases and compositions with generated reference closed forms",
    "text": "Decides for EVERY order n and all shape parameters: recurrence_abc == DLMF 18.9.2 (special case == general after cancellation); jacobi, hermite_He, hermite_H, laguerre, dickson1, dickson2: base cases equal the reference closed forms and the loop preserves 'carried names hold orders i-2, i-1', so f(n) is the order-n polynomial; Legendre and the four Chebyshev kinds (and their derivatives) are the correctly normalised Jacobi polynomials; Zernike norm and Z_n^m = norm r^|m| P^(0,|m|)((n-|m|)/2; 2r^2-1) cos/sin for m=0, m>0, m<0. Forbes' auxiliary coefficients (Qbfs f/g/h; Q2d A/B/C, gamma, F, G, f, g) equal the published formulas case by case, and Q2d/Qbfs/Qcon are the published recurrences (starting polynomials, initial carried values, one pass, rotation, sweep range, azimuthal/radial prefix; induction over the order); the sequence forms emit the polynomial of the requested order and never overwrite a shared table (rules shared with C08). Not decided: orthogonality / unit-RMS integrals, float growth at high order.",
    "note": OTRUST + "orders n >= 0.",
}
CLAIMS["C08"] = {
    "engine": "ORDER",
    "technique": "static analysis: ORDER interpretation of the emission sweeps with a symbolic order list (guards ns[k]==e tie stored values to orders); SHAPE abstract interpretation with pairwise-distinct symbolic dimensions for coordinate ranks 0..3; NORM sibling comparison; integer lower-bound (interval) reasoning for orders",
    "text": "Decides for every ascending order list (contiguous or gapped, any start) and every coordinate shape of rank 0..3: each store guarded by ns[k]==e holds the order-e polynomial (or its derivative) in slot k, the running index advances once per store, the sweep ends at ns[-1] (jacobi, hermite x2, laguerre, dickson x2 and the three derivative sweeps); 20 sequence functions return shape (K,*S) with per-order constants broadcast along axis 0 only; Chebyshev/Legendre sequence functions apply the same constant and parameters as the scalar ones; no order that can be negative reaches a recurrence; xy_seq monomial tables hold x**k for all k including 0. Two-index sequences: every mode of zernike_nm_seq/Q2d_seq/xy_seq has the shape the single-term function returns for ranks 0..3 on every branch; tables shared across requests are never written in place through an alias; zernike_nm_seq's table laws make the stored mode equal zernike_nm(n,m) for m=0, m>0, m<0 with and without norm; Qbfs_seq/Qcon_seq/Q2d_seq pre-sweep stores, sweep start, one pass, emission and request loop equal Qbfs/Qcon/Q2d. Not decided: bitwise float equality of the two evaluation orders; hopkins; zernike_nm_der_seq (a plain loop over zernike_nm_der).",
    "note": OTRUST + "SHAPE broadcasting model (sa/domains/shape.py); documented contract that requested orders are ascending non-negative integers.",
}
CLAIMS["C09"] = {
    "engine": "NORM",
    "technique": "static analysis: NORM symbolic differentiation D (sum/product/quotient/chain through sqrt, exp, log, arctan, sin, cos, pow and declared atoms such as D_x jacobi = jacobi_der) compared with the returned normal forms; restricted-step rule for Clenshaw derivative seeds; ORDER for derivative sweeps",
    "text": "Decides: jacobi_der / hermite_*_der / laguerre_der equal the reference identities for n=0, n=1 and general n; the derivative sweeps emit the derivative of the guarded order; Chebyshev/Legendre derivatives use the value functions' constants; Clenshaw-derivative seeds (Jacobi, Qbfs, Q2d) equal the general step restricted to index M-jj, sit at that index and the sweep continues below them (all derivative orders j); sphere/conic slope == d/drho of the sag; zernike_nm_der == (d/dr, d/dt) of zernike_nm for m=0, m>0, m<0 with and without norm; Qbfs/Qcon sag-slope assembly == d/du of the sag given the Clenshaw contract. off_axis_conic_der == (d/dr, d/dt) off_axis_conic_sag and off_axis_conic_sigma_der == (d/dr, d/dt)(1/off_axis_conic_sigma) for both decentre branches; Q2d_and_der slopes == derivative of base + Z(r/R,t)/sigma by the product and chain rules. Not decided: float accuracy; compute_z_zprime_Q2d's azimuthal assembly beyond the C10 rules.",
    "note": OTRUST + "differentiation rules of sa/core/norm.py; Clenshaw contract alphas[j] = j-th x-derivative of alphas[0].",
}
CLAIMS["C10"] = {
    "engine": "NORM",
    "technique": "static analysis: NORM with uninterpreted recurrence coefficients for the Clenshaw step form and restricted-step rule; integer lower-bound reasoning refined by guards for the length-1 case; symmetric-guard (SYM) and dominance rules over the AST; def-use rule for the least-squares mask",
    "text": "Decides: jacobi_sum_clenshaw, clenshaw_qbfs and clenshaw_q2d steps have the form c[n] + L(n) alpha[n+1] - C alpha[n+2] with (a,b) from n and c from n+1, their initial statements are that step restricted to the top indices and the sweep reaches index 0; with a coefficient vector of length 1 no negative order/index is formed and no missing entry is read; the cosine and sine families of the Q2d evaluator are guarded symmetrically and no Clenshaw sum runs on an empty family; the sine block is the cosine block under one renaming and every shared name is independent of both families; the packer never takes max() of an empty key set and bounds its azimuthal range by the maximum KEY of both dictionaries; lstsq restricts data and modes by one finite-mask; sum_of_2d_modes contracts the mode axis. Not decided: conditioning / rank of the fit.",
    "note": OTRUST + "Clenshaw summation identity S = alpha_0 P_0.",
}
CLAIMS["C14"] = {
    "engine": "FLIP/TABLE",
    "technique": "static analysis: abstract interpretation of writer and reader in a rank-aware flip-group domain (Z2xZ2); header-token role matching between the writer's f-string and the reader's parser; constant folding of the struct field table (sizes, overlaps); NORM composition of writer and reader scale factors; must-pass-through rule on the truncation handler",
    "text": "Decides: reader flips compose with writer flips to the identity taking into account the rank the array has at each flip (Zygo, Code V); header tokens/fields are written and read in the same roles (rows/cols of reshape, byte count, GRD order); the 834-byte Zygo field table is self-consistent and shared; reader scale o writer scale is the identity rational function with the header values the writer stores (W,S,O,phase_res / WVL,SSZ), dx and wavelength units round trip through Interferogram; the invalid sentinel written is the one tested, NaN masks precede integer casts and are taken from the map in the orientation of the array they index; the Code V quantisation scale is 32767/max|valid| (positive, no int16 overflow for any value range); a truncated phase block raises or warns and marks every missing sample invalid, a truncated intensity block raises. Not decided: the one-quantisation-step error bound itself; ASCII and datx paths.",
    "note": TRUST + "numpy semantics of flipud on rank-1 vs rank-2 arrays; struct.calcsize; Code V GRD <nx> <ny> convention of the reader.",
}
CLAIMS["C15"] = {
    "engine": "ORIGIN",
    "technique": "static analysis: ORIGIN typestate (origin index and phase ramp per parity class) of conv, apply_transfer_functions (both conventions, arrays and callables) and transform_psf; loop-structure rule for the transfer-function fold; INDEX rule for the DC sample",
    "text": "Decides for odd and even sizes: conv and apply_transfer_functions map a centred object to a centred image with no phase ramp (so an all-ones transfer function / centred unit impulse is the identity and impulse offsets translate); frequency grids handed to callable transfer functions use the convention of the spectrum they multiply; every element of the list multiplies the spectrum exactly once; transform_psf puts DC at n//2 without a linear phase and MTF/PTF/OTF are normalised by their own sample at n//2. Not decided: MTF <= 1, point symmetry, energy product (facts about values).",
    "note": TRUST + "ORIGIN transfer functions for fftshift/ifftshift/fft2/ifft2 (sa/domains/origin.py); convolution theorem.",
}
CLAIMS["C16"] = {
    "engine": "NORM/TABLE/SHAPE",
    "technique": "static analysis: NORM on the clamp expressions and statement order; literal-table extraction from the CFA if-chains compared with the layout reference; constant folding of the Malvar kernels; symbolic-shape interpretation of the bin/tile views",
    "text": "Decides for every bit depth: the ADC ceiling is 2**bits-1 and the floor 0, both before the unsigned cast, the container is at least as wide as the bit depth, full-well clipping precedes the gain, DN = e/gain; the four site slices partition the 2x2 cell and decomposite/recomposite/composite/white-balance/Malvar map colours to the same sites for rggb and bggr, with raw samples copied at native sites; each Malvar kernel sums to one; bindown reduces exactly the factor-sized axes with mean/sum and tile is the transposed view scaled by 1/prod(factor) ('sum') or 1 ('avg'). Not decided: monotonicity under noise, conservation to round-off.",
    "note": TRUST + "reference layouts rggb/bggr and Malvar-He-Cutler estimate placement; INDEX/KERNEL shape transfer functions.",
}
CLAIMS["C18"] = {
    "engine": "DATAFLOW",
    "technique": "static analysis: statement-order dataflow over the per-segment loop bodies (list appends, the OR into the aperture, name rebinding, early exits) and the compose_opd loops",
    "text": "Decides: in both composite-aperture builders every per-segment list is appended exactly once per segment, unconditionally, with no early exit in between; the aperture mask is written only by OR-ing the (window, mask) pair that is also recorded (plus zero initialisation, the centre mask and spider removal); builder results reach the objects under matching names; composed OPD is multiplied by the segment's own mask before it is accumulated into the segment's own window; hexagonal ring i is numbered after all ids of ring i-1 whatever is excluded, ids and centres are filtered by one mask; circle, annulus, offset circle, rectangle (0, 90 degrees, general angle), rotated ellipse (exact rotation of the quadratic form, boundary kept), spider (1..4 vanes) and the polygon vertices equal their analytic inequalities as formulas, from which monotonic growth and symmetry follow. Not decided: disjointness and areas of rasterised segments; the qhull point-in-polygon test; truecircle.",
    "note": TRUST + "nothing beyond the parser: purely structural.",
}
CLAIMS["C19"] = {
    "engine": "NORM(vec)",
    "technique": "static analysis: vector algebra in NORM (vectors as linear combinations of {S, r} with Gram atoms) for refract/reflect; structural rules for the frame transforms, the surface normal and the Newton step; guard rule for division by the radial coordinate",
    "text": "Decides: refract and reflect return unit direction cosines for a surface normal of ANY length (the gradient that intersect hands over), refraction scales the tangential component by n/n' (Snell), reflection is the mirror law; local/global frame transforms are R(X-P) and RX+P with directions rotated only, raytrace goes in with (P,R) and out with (P,R^T); the normal is (-dz/dx,-dz/dy,1), the Newton step is s - F/(S.gradF), the polar-to-Cartesian slope formula; no unguarded division by the radial coordinate (on-axis ray); conic and off-axis-conic slopes are the derivatives of their sags; only (Pj, Sj, nj) flow from one surface to the next (nothing else is read before it is assigned in the per-surface loop) and only the unconverged-ray index set between Newton iterations; the convergence test compares a provably non-negative step size with eps. Not decided: Newton convergence rate, intersection tolerance.",
    "note": TRUST + "Gram-matrix vector algebra (sa/rules/c19.py).",
}

NOT_APPLICABLE = {
    "C11": "index bijections are float sqrt/ceil algebra on the index; their failure mode is a rounding event at particular j and the deciding step named by the property (exhaustive j <= 1e5) is execution; no finite static abstraction of j decides it (DESIGN.md section 4, C11)",
}
