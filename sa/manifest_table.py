"""Source of MANIFEST.json (tools/gen_manifest.py).  A property is listed under CLAIMS only when its
check exists and decides the named clauses; everything else is under NOT_APPLICABLE with the reason."""

TRUST = ("Trusted base: Python's ast parser; the alias/name based symbol resolution of sa/core/db.py; the abstract "
         "interpreter sa/core/interp.py (path enumeration by re-execution, abstract inlining of prysm callees); ")

ENGINES = [
    {"name": "NORM", "path": "sa/core/norm.py", "serves_properties": ["C17"],
     "kind_free_text": "canonical forms of expression trees: polynomials/rational functions over Q in atoms with I^2=-1, sin^2->1-cos^2, sqrt^2, exp laws; equality by cross multiplication; no sampling, no solver"},
    {"name": "INTERP", "path": "sa/core/interp.py", "serves_properties": ["C17"],
     "kind_free_text": "abstract interpreter over the Python subset prysm uses; pluggable domains; path enumeration; abstract inlining of resolved prysm callees"},
]

CLAIMS = {
    "C17": {
        "engine": "NORM",
        "technique": "static analysis: abstract interpretation of the source into canonical rational-function normal forms (NORM) and comparison of normal forms; AST table rule for the polarisation dispatch",
        "text": "Decides, for ALL indices/angles/thicknesses at once, the algebraic clauses of the property from the source: r^2 + (n1 cos t1 / n0 cos t0) t^2 == 1 for s and p as polynomial identities; r and t of a polarisation share one denominator; the one-layer stack whose layer is the exit medium gives exactly fresnel_r for every thickness and fresnel_t at zero thickness; characteristic matrices have determinant 1 and are the identity at zero thickness; rtot=A10/A00, ttot=1/A00; p/s dispatch table; Snell/Brewster/critical-angle closed forms. This is a necessary condition of the behaviour (breaking any clause breaks R+T=1 or the interface/zero-thickness laws); it does not decide N-layer energy conservation for N>1 beyond the unit-determinant clause, float accuracy, or the batched==loop plumbing.",
        "note": TRUST + "NORM rewrite rules (sin^2=1-cos^2, I^2=-1); the textbook energy balance with the admittance factor; scalar (elementwise) context for array arguments.",
    },
}

NOT_APPLICABLE = {
    "C11": "index bijections are float sqrt/ceil algebra on the index; their failure mode is a rounding event at particular j and the deciding step named by the property (exhaustive j <= 1e5) is execution; no finite static abstraction of j decides it (DESIGN.md section 4, C11)",
}
for _p in ("C01 C02 C03 C04 C05 C06 C07 C08 C09 C10 C12 C13 C14 C15 C16 C18 C19 C20").split():
    NOT_APPLICABLE[_p] = "check not delivered yet in this revision of /verif (design in DESIGN.md section 4); will be claimed only through the structural clauses named there once its rule module exists"
