I = 'prysm/interferogram.py'
CATALOGUE = [
    ('mutant', I, "    ft = fft.fftshift(fft.fft2(fft.ifftshift(height * window)))", "    ft = fft.ifftshift(fft.fft2(fft.fftshift(height * window)))", 'C13.origin', 'psd output ifftshift (pinned defect)'),
    ('mutant', I, "    try:\n        f = np.trapezoid\n    except AttributeError:\n        f = np.trapz\n", "    f = np.trapz\n", 'C13.api', 'unguarded np.trapz (pinned defect)'),
    ('mutant', I, "    try:\n        f = np.trapezoid\n    except AttributeError:\n        f = np.trapz\n", "    f = np.trapezoid\n", 'C13.api', 'unguarded np.trapezoid (numpy 1.x)'),
    ('mutant', I, "        dx = abs(pt3 - pt1)\n", "        dx = dy\n", 'C13.band', 'second axis integrated with dy (pinned defect)'),
    ('mutant', I, "    coef = S2 * fs * fs\n", "    coef = S2 * fs\n", 'C13.norm', 'psd normalisation loses one fs'),
    ('mutant', I, "    S2 = (window**2).sum()\n", "    S2 = window.sum()**2\n", 'C13.norm', 'S2 = (sum w)^2 (amplitude scaling instead of power)'),
    ('mutant', I, "    ux = forward_ft_unit(dx, height.shape[1])\n    uy = forward_ft_unit(dx, height.shape[0])", "    ux = forward_ft_unit(dx, height.shape[0])\n    uy = forward_ft_unit(dx, height.shape[1])", 'C13.axis', 'frequency axes from the wrong array axes'),
    ('mutant', I, "    work[r > fhigh] = 0\n", "    work[r >= fhigh] = 0\n", 'C13.band', 'upper band edge excluded'),
    ('mutant', I, "        z_rms = globals()['rms'](z)  # rms function is shadowed by rms kwarg\n        scale_factor = rms / z_rms", "        z_rms = globals()['rms'](z)  # rms function is shadowed by rms kwarg\n        scale_factor = z_rms / rms", 'C13.rms', 'scale factor inverted'),
    ('mutant', I, "    if mask is not None:\n        z[mask == 0] = np.nan\n\n    # possibly scale RMS\n    if rms is not None:\n        z_rms = globals()['rms'](z)  # rms function is shadowed by rms kwarg\n        scale_factor = rms / z_rms\n        z *= scale_factor\n",
     "    # possibly scale RMS\n    if rms is not None:\n        z_rms = globals()['rms'](z)  # rms function is shadowed by rms kwarg\n        scale_factor = rms / z_rms\n        z *= scale_factor\n\n    if mask is not None:\n        z[mask == 0] = np.nan\n", 'C13.rms', 'mask applied after scaling'),
    ('mutant', 'prysm/coordinates.py', "    xx = np.broadcast_to(x, shpx)\n    yy = np.broadcast_to(y, shpy).T", "    xx = np.broadcast_to(x, shpy).T\n    yy = np.broadcast_to(y, shpx)", 'C13.axis', 'broadcast helper transposed'),
    ('variant', I, "    fs = 1 / dx\n    S2 = (window**2).sum()\n    coef = S2 * fs * fs\n    psd /= coef", "    S2 = (window * window).sum()\n    psd *= dx ** 2 / S2", '', 'normalisation rewritten'),
]
