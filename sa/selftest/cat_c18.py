S = 'prysm/segmented.py'
G = 'prysm/geometry.py'
CATALOGUE = [
    ('mutant', S, "            local_mask = regular_polygon(6, rseg, xx, yy, center=center, rotation=segment_angle)\n            local_masks.append(local_mask)\n            mask[local_window] |= local_mask",
     "            local_mask = regular_polygon(6, rseg, xx, yy, center=center, rotation=segment_angle)\n            mask[local_window] |= local_mask\n            if not local_mask.any():\n                continue\n            local_masks.append(local_mask)", 'C18.lockstep', 'empty segments recorded in some lists only'),
    ('mutant', S, "            windows.append(local_window)\n\n            xx = x[local_window]", "            windows.append(center_segment_window)\n\n            xx = x[local_window]", 'C18.union', 'recorded window differs from the one OR-ed'),
    ('mutant', S, "            tile = sum_of_2d_modes(base, c)\n            tile *= mask\n            out[win] += tile\n\n        return out\n\n\ndef _composite_hexagonal_aperture", "            tile = sum_of_2d_modes(base, c)\n            out[win] += tile\n\n        return out\n\n\ndef _composite_hexagonal_aperture", 'C18.confine', 'hexagonal OPD not masked'),
    ('mutant', S, "        for win, mask, base, c in zip(self.segment_windows, self.segment_masks, self.opd_bases[1:], segment_coefs):", "        for win, mask, base, c in zip(self.segment_windows, self.segment_masks[1:], self.opd_bases[1:], segment_coefs):", 'C18.confine', 'keystone masks zipped off by one'),
    ('mutant', S, "    primary_mask &= ~all_spiders\n", "    primary_mask &= ~all_spiders\n    primary_mask |= (r < outer_radius) & (r > outer_radius - dx)\n", 'C18.union', 'aperture gets samples that belong to no segment'),
    ('mutant', S, "            segment_ids.append(segment_id)\n            local_masks.append(mask)", "            if mask.any():\n                segment_ids.append(segment_id)\n            local_masks.append(mask)", 'C18.lockstep', 'keystone ids appended conditionally'),
    ('mutant', S, "            self.windows,\n            self.local_coords,\n            self.local_masks,", "            self.windows,\n            self.local_masks,\n            self.local_coords,", 'C18.lockstep', 'constructor unpacks masks and coordinates swapped'),
    ('variant', S, "            tile = sum_of_2d_modes(base, c)\n            tile *= mask\n            out[win] += tile\n\n        return out\n\n\ndef _composite_hexagonal_aperture", "            tile = sum_of_2d_modes(base, c)\n            out[win] += tile*mask\n\n        return out\n\n\ndef _composite_hexagonal_aperture", '', 'mask applied inline'),
    # ids
    ('mutant', S, "            mask[local_window] |= local_mask\n\n        segment_id = ids[-1]\n", "            mask[local_window] |= local_mask\n", 'C18.ids', 'ring counter left at the last non-excluded id'),
    ('mutant', S, "        segment_id = ids[-1]\n", "        segment_id = valid_ids[-1] if len(valid_ids) else segment_id\n", 'C18.ids', 'ring counter from the filtered ids'),
    ('mutant', S, "        centers = truenp.array(centers)\n        centers = centers[id_mask]", "        centers = truenp.array(centers)\n        centers = centers[:len(valid_ids)]", 'C18.ids', 'centres not filtered by the exclusion mask'),
    ('variant', S, "        segment_id = ids[-1]\n", "        segment_id = ids[-1]  # last id of the full ring\n        del hexes\n", '', 'unrelated statement after the counter update'),
    # geometry primitives
    ('mutant', G, "    return r <= radius", "    return r < radius", 'C18.boundary', 'circle boundary excluded'),
    ('mutant', G, "    lo = r >= rin", "    lo = r > rin", 'C18.boundary', 'annulus inner boundary excluded'),
    ('mutant', G, "    x = x - center[0]\n    y = y - center[1]", "    x = x - center[1]\n    y = y - center[0]", 'C18.boundary', 'offset circle centre components swapped'),
    ('mutant', G, "            p += p_adj", "            p -= p_adj", 'C18.boundary', 'rectangle turned the other way'),
    ('mutant', G, "    w_mask = (y <= height) & (y >= -height)\n    h_mask = (x <= width) & (x >= -width)", "    w_mask = (y <= width) & (y >= -width)\n    h_mask = (x <= height) & (x >= -height)", 'C18.boundary', 'rectangle width/height swapped'),
    ('mutant', G, "    minor_axis_term = ((x * np.sin(A) - y * np.cos(A)) ** 2) / b ** 2", "    minor_axis_term = ((x * np.sin(A) + y * np.cos(A)) ** 2) / b ** 2", 'C18.boundary', 'ellipse minor-axis term not orthogonal to the major one'),
    ('mutant', G, "    arr[major_axis_term + minor_axis_term > 1] = 0", "    arr[major_axis_term + minor_axis_term >= 1] = 0", 'C18.boundary', 'ellipse boundary excluded'),
    ('mutant', G, "        mask_ = (xxx > 0) & (abs(yyy) < width)", "        mask_ = (xxx > 0) & (abs(yyy) < 2*width)", 'C18.boundary', 'spider vane four times too wide'),
    ('mutant', G, "        p = p - rotation", "        p = p + rotation", 'C18.boundary', 'spider rotates the other way'),
    ('mutant', G, "    rotation = np.radians(360 / vanes)", "    rotation = np.radians(180 / vanes)", 'C18.boundary', 'spider vanes at half the angular pitch'),
    ('mutant', G, "    x = radius * truenp.sin(points * angle + rotation) + x0\n    y = radius * truenp.cos(points * angle + rotation) + y0", "    x = radius * truenp.sin(points * angle + rotation) + x0\n    y = radius * truenp.cos(points * angle - rotation) + y0", 'C18.boundary', 'polygon vertices not on a common rotation'),
    ('variant', G, "    lo = r >= rin\n    hi = r <= rout\n    return lo & hi", "    return (r <= rout) & (rin <= r)", '', 'annulus written as one expression, operands reordered'),
    ('variant', G, "    return r <= radius", "    return radius >= r", '', 'circle comparison mirrored'),
    ('variant', G, "    minor_axis_term = ((x * np.sin(A) - y * np.cos(A)) ** 2) / b ** 2", "    minor_axis_term = ((y * np.cos(A) - x * np.sin(A)) ** 2) / b ** 2", '', 'ellipse minor term negated inside the square'),
]
