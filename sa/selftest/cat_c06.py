P = 'prysm/propagation.py'
F = 'prysm/fttools.py'
O = 'prysm/x/optym/operators.py'
A = 'prysm/x/optym/activation.py'
C = 'prysm/x/optym/cost.py'
D = 'prysm/x/dm.py'
CATALOGUE = [
    ('mutant', F, "        key = self._key(samples_in=samples_in, Q=Q, samples_out=fbar.shape, shift=shift, fwd=True)", "        key = self._key(samples_in=fbar.shape, Q=Q, samples_out=samples_in, shift=shift, fwd=True)", 'C06.matrix', 'dft2_backprop swaps the key shapes'),
    ('mutant', F, "        Eout_conj_t = Eout.T.conj()\n        Ein_conj_t = Ein.T.conj()\n        out = Eout_conj_t @ (fbar @ Ein_conj_t)\n        return out\n\n    def idft2(", "        Eout_conj_t = Eout.T\n        Ein_conj_t = Ein.T.conj()\n        out = Eout_conj_t @ (fbar @ Ein_conj_t)\n        return out\n\n    def idft2(", 'C06.matrix', 'dft2_backprop forgets one conj'),
    ('mutant', F, "        key = self._key(samples_in=samples_out, Q=Q, samples_out=fbar.shape, shift=shift, fwd=False)", "        key = self._key(samples_in=samples_out, Q=Q, samples_out=fbar.shape, shift=shift, fwd=True)", 'C0', 'idft2_backprop uses the forward flag'),
    ('mutant', P, "                             output_dx=output_dx) for s in output_samples)\n    if shift[0] != 0 or shift[1] != 0:\n        shift = (shift[0]/output_dx, shift[1]/output_dx)\n\n    if method == 'mdft':\n        out = mdft.dft2_backprop(",
     "                             output_dx=output_dx) for s in wavefunction.shape)\n    if shift[0] != 0 or shift[1] != 0:\n        shift = (shift[0]/output_dx, shift[1]/output_dx)\n\n    if method == 'mdft':\n        out = mdft.dft2_backprop(", 'C06.fixed', 'focus backprop Q from the gradient shape (unequal shapes)'),
    ('mutant', P, "    if np.iscomplexobj(fpm):\n        fpm = fpm.conj()\n\n    Ebbar", "    if np.iscomplexobj(fpm.dtype):\n        fpm = fpm.conj()\n\n    Ebbar", 'C06.conj', 'conj guard tests the dtype (pinned defect)'),
    ('mutant', P, "    Ebbar = unfocus_fixed_sampling_backprop(wavefunction, fpm_dx, efl, wavelength, dx, fpm_samples, shift=shift, method=method)", "    Ebbar = -unfocus_fixed_sampling_backprop(wavefunction, fpm_dx, efl, wavelength, dx, fpm_samples, shift=shift, method=method)", 'C06.scalar', 'stray minus sign (pinned defect)'),
    ('mutant', P, "    Eabar = focus_fixed_sampling_backprop(intermediate, dx, efl, wavelength, fpm_dx, wavefunction.shape, shift=shift, method=method)", "    Eabar = focus_fixed_sampling_backprop(intermediate, dx, efl, wavelength, fpm_dx, wavefunction.shape, method=method)", 'C06.chain', 'to-mask companion drops the shift'),
    ('mutant', P, "        abar.data = cbar - abar.data\n", "        abar.data = cbar + abar.data\n", 'C06.chain', 'babinet companion sign'),
    ('mutant', P, "            if np.iscomplexobj(lyot):\n                lyot = np.conj(lyot)\n\n            cbar = dbar * lyot", "            cbar = dbar * lyot", 'C06.conj', 'Lyot stop never conjugated'),
    ('mutant', P, "        Gbar = 2 * intensity_bar * self.data", "        Gbar = intensity_bar * self.data", 'C06.const', 'intensity companion loses the 2'),
    ('mutant', P, "        k = 2 * np.pi / self.wavelength / 1e3  # um -> nm", "        k = 2 * np.pi / self.wavelength  # um -> nm", 'C06.const', 'phase companion loses nm->um'),
    ('mutant', P, "            phase_prefix = 1j * 2 * np.pi / wavelength / 1e3  # / 1e3 does nm-to-um for phase on a scalar\n            P = amplitude", "            phase_prefix = 1j * 2 * np.pi / wavelength / 1e6  # / 1e3 does nm-to-um for phase on a scalar\n            P = amplitude", 'C06.const', 'forward phase in other units than the companion'),
    ('mutant', O, "        out[:, ind_lookahead] += xbar[:, ind_compute]\n", "        out[:, ind_compute] += xbar[:, slice(0, end-2)]\n", 'C06.fd', 'backprop_x look-behind (pinned defect)'),
    ('mutant', O, "        end = xbar.shape[0]\n", "        end = xbar.shape[1]\n", 'C06.fd', 'backprop_y bounds from axis 1'),
    ('mutant', A, "        return self.a*(1 - fx**2)", "        return (1 - fx**2)", 'C06.activation', 'tanh derivative loses the slope'),
    ('mutant', A, "        return self.a * (1 / (1 + np.exp(-self.a * xbar)))", "        return self.a * (1 / (1 + np.exp(self.a * xbar)))", 'C06.activation', 'softplus derivative sign in the exponent'),
    ('mutant', A, "        return pg / self.tau  # dy/dx = dy/dyy, nothing from g", "        return pg * self.tau  # dy/dx = dy/dyy, nothing from g", 'C06.activation', 'gumbel temperature multiplied'),
    ('mutant', C, "        grad = 2 * alpha * diff\n", "        grad = alpha * diff\n", 'C06.cost', 'mse gradient loses the 2'),
    ('mutant', C, "    dcost = (-yhat/y) + (sub2)/(sub1)", "    dcost = (-yhat/y) - (sub2)/(sub1)", 'C06.cost', 'nll gradient sign'),
    ('mutant', 'prysm/polynomials/__init__.py', "    return np.tensordot(modes, databar)", "    return np.tensordot(modes, databar, axes=1)", 'C06.sum', 'modal companion contracts one axis'),
    ('mutant', D, "            protograd = warp(protograd, self.invprojx, self.invprojy)", "            protograd = warp(protograd, self.projx, self.projy)", 'C06.dm', 'DM companion warps forward'),
    ('mutant', D, "        in_actuator_space = apply_transfer_functions(protograd, None, np.conj(self.tf), shift=False)", "        in_actuator_space = apply_transfer_functions(protograd, None, self.tf, shift=False)", 'C06.dm', 'DM companion without conj(tf)'),
    ('mutant', D, "            protograd = pad2d(protograd, out_shape=self.Nintermediate)", "            grown = np.zeros(self.Nintermediate, dtype=protograd.dtype)\n            lo = [(o - i)//2 for o, i in zip(self.Nintermediate, protograd.shape)]\n            grown[lo[0]:lo[0]+protograd.shape[0], lo[1]:lo[1]+protograd.shape[1]] = protograd\n            protograd = grown", 'C06.dm', 'companion pads symmetrically where the forward crops about n//2'),
    ('mutant', D, "        elif warped.shape[0] > self.Nout[0]:", "        elif warped.shape[0] > self.Nout[1]:", 'C06.dm', 'mixed-axis guard (pinned defect)'),
    ('variant', F, "        Eout_conj_t = Eout.T.conj()\n        Ein_conj_t = Ein.T.conj()\n        out = Eout_conj_t @ (fbar @ Ein_conj_t)\n        return out\n\n    def idft2(", "        out = Eout.conj().T @ fbar @ np.conj(Ein.T)\n        return out\n\n    def idft2(", '', 'conj/transposes reordered'),
    ('variant', A, "        fx = self.forward(xbar) - self.y0 # have to subtract offset\n        return self.a*(1 - fx**2)", "        e = np.exp(-2 * self.a * (xbar - self.x0))\n        return 4 * self.a * e / (1 + e)**2", '', 'tanh derivative in closed form'),
    ('variant', C, "        grad = 2 * alpha * diff\n", "        grad = (diff + diff) / diff.size\n", '', 'mse gradient rewritten'),
    ('mutant', C, "    beta = (D-alphaI).sum()/N", "    beta = (D-alphaI)/N", 'C06.cost', 'bias is a per-sample array instead of the scalar least-squares bias (pinned defect, fixed by c6e7906)'),
    ('mutant', D, "            protograd = fourier_resample_backprop(protograd, self.upsample, self.Nresample)", "            protograd = fourier_resample(protograd, 1/self.upsample)", 'C06.dm', 'resampling answered by resampling with the reciprocal factor (pinned defect, fixed by 22c3645)'),
    ('mutant', F, "    out *= (m*n) * (zoom[0]*zoom[1])/(np.sqrt(m*n))", "    out *= (zoom[0]*zoom[1])/(np.sqrt(m*n))", 'C06.dm', 'resampler transpose without the m n of fft2^H'),
    ('mutant', F, "    out = fft.fftshift(fft.ifft2(fft.ifftshift(Fbar))).real", "    out = fft.fftshift(fft.fft2(fft.ifftshift(Fbar))).real", 'C06.dm', 'resampler transpose with the forward FFT'),
    ('mutant', F, "    Fbar = mdft.idft2_backprop(fbar, zoom, (m, n))", "    Fbar = mdft.idft2_backprop(fbar, zoom, (n, m))", 'C06.dm', 'resampler transpose with the input size transposed'),
]
