SM = 'prysm/x/raytracing/spencer_and_murty.py'
SF = 'prysm/x/raytracing/surfaces.py'
CATALOGUE = [
    ('mutant', SM, "    r = r / np.sqrt(_multi_dot(r, r))[:, np.newaxis]\n", "", 'C19.unit', 'refract with the un-normalised normal (pinned defect)'),
    ('mutant', SM, "    second_term = mu * (S - cosI[:, np.newaxis] * r)", "    second_term = mu * (S + cosI[:, np.newaxis] * r)", 'C19.unit', 'refract tangential sign'),
    ('mutant', SM, "    first_term = (sgn * np.sqrt(1 - musq * (1 - cosIsq)))[:, np.newaxis] * r", "    first_term = (sgn * np.sqrt(1 - mu * (1 - cosIsq)))[:, np.newaxis] * r", 'C19.unit', 'refract uses mu instead of mu^2'),
    ('mutant', SM, "    sgn = np.where(cosI < 0, -1., 1.)\n", "    sgn = 1.\n", 'C19.unit', 'refract ignores the side the ray comes from (pinned defect)'),
    ('mutant', SM, "    cosI = _multi_dot(S, r) / rnorm", "    cosI = _multi_dot(S, r)", 'C19.unit', 'reflect without normalisation'),
    ('mutant', SM, "    return S - 2 * cosI * r", "    return S - cosI * r", 'C19.unit', 'reflect loses the factor 2'),
    ('mutant', SM, "            Rt = surf.R.T\n", "            Rt = surf.R\n", 'C19.rigid', 'back-transform with R instead of R^T'),
    ('mutant', SM, "    XYZ2 = XYZ - P\n    if R is not None:", "    XYZ2 = XYZ\n    if R is not None:", 'C19.rigid', 'local transform forgets the translation', 'exit2-ok'),
    ('mutant', SM, "        XYZ = np.matmul(R, XYZ[..., np.newaxis]).squeeze(-1)\n        S = np.matmul(R, S[..., np.newaxis]).squeeze(-1)\n\n    XYZ = XYZ + P", "        XYZ = np.matmul(R, XYZ[..., np.newaxis]).squeeze(-1)\n\n    XYZ = XYZ + P", 'C19.rigid', 'global transform does not rotate the direction'),
    ('mutant', SF, "        der = np.stack([-Fx, -Fy, Fz], axis=1)", "        der = np.stack([Fx, Fy, Fz], axis=1)", 'C19.normal', 'gradient sign'),
    ('mutant', SF, "    r_safe = np.where(r == 0, 1, r)\n    ftbyr = np.where(r == 0, 0, ft / r_safe)\n    x = fp * cost - ftbyr * sint\n    y = fp * sint + ftbyr * cost", "    x = fp * cost - 1/r * ft * sint\n    y = fp * sint + 1/r * ft * cost", 'C19.axis0', 'division by r on the axis (pinned defect)'),
    ('mutant', SF, "    x = fp * cost - ftbyr * sint\n    y = fp * sint + ftbyr * cost", "    x = fp * cost + ftbyr * sint\n    y = fp * sint + ftbyr * cost", 'C19.normal', 'polar to Cartesian sign'),
    ('mutant', SM, "        sjp1 = sj_mask - Fj / Fpj", "        sjp1 = sj_mask + Fj / Fpj", 'C19.normal', 'Newton step sign'),
    ('variant', SM, "    rnorm = _multi_dot(r, r)\n", "    rnorm = _multi_dot(r, r) * 1.0\n", '', 'reflect normalisation spelled differently'),
    ('variant', SM, "    first_term = (sgn * np.sqrt(1 - musq * (1 - cosIsq)))[:, np.newaxis] * r\n    second_term = mu * (S - cosI[:, np.newaxis] * r)\n    return first_term + second_term", "    k = sgn * np.sqrt(1 - musq + musq * cosIsq) - mu * cosI\n    return mu * S + k[:, np.newaxis] * r", '', 'refract in the compact textbook form'),
    ('variant', SM, '        delta = abs(sjp1 - sj_mask)\n', '        delta = np.abs(sjp1 - sj_mask)\n', '', 'newton: np.abs'),
    ('variant', SM, '        if surf.R is None:\n            Rt = None\n        else:\n            # transformation matrix has inverse which is its transpose\n            Rt = surf.R.T\n', '        Rt = None\n        if surf.R is not None:\n            Rt = surf.R.T\n', '', 'raytrace: Rt reset at the top of each pass'),
]
