J = 'prysm/polynomials/jacobi.py'
H = 'prysm/polynomials/hermite.py'
L = 'prysm/polynomials/laguerre.py'
DK = 'prysm/polynomials/dickson.py'
CH = 'prysm/polynomials/cheby.py'
XY = 'prysm/polynomials/xy.py'
ZK = 'prysm/polynomials/zernike.py'
XY = 'prysm/polynomials/xy.py'
QP = 'prysm/polynomials/qpoly.py'
CATALOGUE = [
    ('mutant', CH, "    cs = 1/jacobi_seq(ns, -.5, -.5, np.ones(1, dtype=x.dtype))\n    seq = jacobi_seq(ns, -.5, -.5, x)\n    # one constant per order: broadcast along axis 0 only, whatever the rank of x\n    return seq*cs.reshape((-1, *[1]*x.ndim))",
     "    cs = 1/jacobi_seq(ns, -.5, -.5, np.ones(1, dtype=x.dtype))\n    seq = jacobi_seq(ns, -.5, -.5, x)\n    return seq*cs", 'C08.shape', 'cheby1_seq (K,1) broadcast (pinned defect)'),
    ('mutant', CH, "    cs = (2*ns+1)/np.squeeze(jacobi_seq(ns, .5, -.5, np.ones(1, dtype=x.dtype)))\n    seq = jacobi_seq(ns, .5, -.5, x)", "    cs = (2*ns-1)/np.squeeze(jacobi_seq(ns, .5, -.5, np.ones(1, dtype=x.dtype)))\n    seq = jacobi_seq(ns, .5, -.5, x)", 'C08.sibling', 'cheby4_seq constant differs from cheby4'),
    ('mutant', CH, "    cs = 1/jacobi_seq(ns, -.5, .5, np.ones(1, dtype=x.dtype))\n    seq = jacobi_der_seq(ns, -.5, .5, x)", "    cs = 1/jacobi_seq(ns, -.5, .5, np.ones(1, dtype=x.dtype))\n    seq = jacobi_der_seq(ns, .5, -.5, x)", 'C08.sibling', 'cheby3_der_seq parameters swapped'),
    ('mutant', J, "        if ns[min_i] == i:\n            out[min_i] = Pn\n            min_i += 1\n\n    return out\n\n\ndef jacobi_der(", "        if ns[min_i] == i:\n            out[min_i] = Pnm1\n            min_i += 1\n\n    return out\n\n\ndef jacobi_der(", 'C08.emit', 'jacobi_seq emits the previous order in the loop (gapped lists > 2)'),
    ('mutant', J, "    if ns[min_i] == 2:\n        out[min_i] = Pn\n        min_i += 1\n\n    if min_i == len(ns):\n        return out\n\n    max_n = ns[-1]", "    if ns[min_i] == 2:\n        out[min_i] = Pnm1\n        min_i += 1\n\n    if min_i == len(ns):\n        return out\n\n    max_n = ns[-1]", 'C08.emit', 'jacobi_seq order-2 slot gets P1'),
    ('mutant', J, "            coef = 0.5 * (i + alpha + beta + 1)\n            out[min_i] = Pnm1 * coef", "            coef = 0.5 * (i + alpha + beta + 2)\n            out[min_i] = Pnm1 * coef", 'C08.emit', 'jacobi_der_seq coefficient in the loop'),
    ('mutant', J, "    max_n = ns[-1]\n    for i in range(3, max_n+1):\n        Pnm2, Pnm1 = Pnm1, Pn\n        A, B, C = recurrence_abc(i-1, alpha, beta)", "    max_n = ns[-1]\n    for i in range(3, max_n):\n        Pnm2, Pnm1 = Pnm1, Pn\n        A, B, C = recurrence_abc(i-1, alpha, beta)", 'C08.emit', 'sweep stops one order early'),
    ('mutant', H, "        if ns[min_i] == nn:\n            out[min_i] = nn * Pnm1\n            min_i += 1", "        if ns[min_i] == nn:\n            out[min_i] = (nn-1) * Pnm1\n            min_i += 1", 'C08.emit', 'He_der_seq factor'),
    ('mutant', H, "        Pn = x2 * Pnm1 - (2*(nn-1)) * Pnm2\n        Pnm2, Pnm1 = Pnm1, Pn\n        if ns[min_i] == nn:\n            out[min_i] = Pn\n            min_i += 1", "        Pn = x2 * Pnm1 - (2*(nn-1)) * Pnm2\n        Pnm2, Pnm1 = Pnm1, Pn\n        if ns[min_i] == nn:\n            out[min_i] = Pn\n            min_i += 2", 'C08.emit', 'H_seq index advances twice'),
    ('variant', L, "        if ns[min_i] == np1:\n            out[min_i] = Lnp1\n            min_i += 1", "        if ns[min_i] == np1:\n            out[min_i] = Ln\n            min_i += 1\n            Ln = Lnp1", '', 'laguerre_seq emits the already rotated name (same value)'),
    ('mutant', DK, "        if ns[min_i] == i:\n            out[j] = Pn\n            min_i += 1\n            j += 1\n\n    return out\n\n\ndef dickson2_seq", "        if ns[min_i] == i:\n            out[j] = Pn\n            min_i += 1\n\n    return out\n\n\ndef dickson2_seq", 'C08.emit', 'dickson1_seq output slot does not advance'),
    ('mutant', L, "    if n == 0:\n        return np.zeros_like(x)\n\n    # d/dx L_n^(a) = - L_(n-1)^(a+1)", "    # d/dx L_n^(a) = - L_(n-1)^(a+1)", 'C08.neg', 'laguerre_der without the n=0 guard (pinned defect)'),
    ('mutant', XY, "    x_seq = list(dickson2_seq(ms, 0, x))", "    x_seq = list(dickson1_seq(ms, 0, x))", 'C08.table', 'x table from Dickson first kind (pinned defect)', 'exit2-ok'),
    ('variant', J, "    if ns[min_i] == 2:\n        out[min_i] = Pn\n        min_i += 1\n\n    if min_i == len(ns):\n        return out\n\n    max_n = ns[-1]", "    if ns[min_i] == 2:\n        out[min_i] = (A * x + B) * Pnm1 - C\n        min_i = min_i + 1\n\n    if min_i == len(ns):\n        return out\n\n    max_n = ns[-1]", '', 'order-2 slot recomputed inline'),
    ('variant', CH, "    cs = (ns+1)/np.squeeze(jacobi_seq(ns, .5, .5, np.ones(1, dtype=x.dtype)))\n    seq = jacobi_seq(ns, .5, .5, x)\n    # one constant per order: broadcast along axis 0 only, whatever the rank of x\n    return seq*cs.reshape((-1, *[1]*x.ndim))",
     "    cs = (ns+1)/np.squeeze(jacobi_seq(ns, .5, .5, np.ones(1, dtype=x.dtype)))\n    seq = jacobi_seq(ns, .5, .5, x)\n    cs = cs.reshape((-1, *[1]*x.ndim))\n    return cs*seq", '', 'cheby2_seq reshaped in two steps'),
    ('variant', ZK, '            zern = jac * azpiece * radialpiece  # jac already contains the norm\n', '            zern = jac * azpiece  # jac already contains the norm\n            zern *= radialpiece\n', '', 'zernike: in-place multiply on a fresh product'),
    ('mutant', ZK, '            radialpiece = powers_of_m[absm]\n            zern = jac * azpiece * radialpiece  # jac already contains the norm\n', '            radialpiece = powers_of_m[absm]\n            radialpiece *= azpiece\n            zern = jac * radialpiece  # jac already contains the norm\n', 'C08.shared', 'zernike: shared r**|m| table overwritten'),
    ('mutant', XY, "        xterm = x_seq[m]\n        yterm = y_seq[n]", "        xterm = x_seq[n]\n        yterm = y_seq[m]", 'C08.table', 'xy_seq: orders looked up in the wrong tables'),
    ('mutant', XY, "    ms = truenp.arange(0, maxm+1)", "    ms = truenp.arange(1, maxm+1)", 'C08.table', 'xy_seq: x table starts at order 1 (index != order)', 'exit2-ok'),
    ('mutant', XY, "    for m, n in mns:\n        xterm", "    for n, m in mns:\n        xterm", 'C08.table', 'xy_seq: request unpacked (n, m)'),
    ('variant', XY, "        xterm = x_seq[m]\n        yterm = y_seq[n]\n        out.append(xterm*yterm)", "        out.append(y_seq[n] * x_seq[m])", '', 'xy_seq: lookup inlined'),
    ('mutant', XY, '    if cartesian_grid and x.ndim > 1:\n        x, y = optimize_xy_separable(x, y)\n\n    ms = ', '    if cartesian_grid and x.ndim > 1:\n        x, _ = optimize_xy_separable(x, y)\n\n    ms = ', 'C08.shape2', 'xy_seq: y left as a full grid'),
    # table laws / Q sequences
    ('mutant', ZK, '        jacobi_seqs_mjn[k] = truenp.arange(nj+1)\n', '        jacobi_seqs_mjn[k] = truenp.arange(1, nj+2)\n', 'C08.table2', 'zernike: Jacobi order list starts at 1'),
    ('mutant', ZK, '        jacobi_seqs[k] = list(jacobi_seq(n_jac, 0, k, x))\n', '        jacobi_seqs[k] = list(jacobi_seq(n_jac, k, 0, x))\n', 'C08.table2', 'zernike: table built with (alpha, beta) swapped'),
    ('mutant', ZK, '        nj = (n-absm) // 2\n        jac = jacobi_seqs[absm][nj]\n', '        nj = (n-absm) // 2\n        jac = jacobi_seqs[absm][nj-1]\n', 'C08.table2', 'zernike: radial index off by one'),
    ('mutant', ZK, '            if m < 0:\n                azpiece = sines[absm]\n            else:\n                azpiece = cosines[absm]\n', '            if m > 0:\n                azpiece = sines[absm]\n            else:\n                azpiece = cosines[absm]\n', 'C08.table2', 'zernike seq: sine/cosine assignment swapped'),
    ('mutant', ZK, '        sines[m] = np.sin(m*t)\n', '        sines[m] = np.sin(t)\n', 'C08.table2', 'zernike: sine table ignores m'),
    ('variant', ZK, '            jac = jac * zernike_norm(n, m)\n', '            jac = jac * zernike_norm(n, absm)\n', '', 'zernike seq: norm taken at |m| (same value: the norm depends on m only through m == 0)'),
    ('mutant', QP, '    if ns[min_i] == 1:\n        out[min_i] = 1 / np.sqrt(19) * (13 - 16 * rho) * c_Q\n', '    if ns[min_i] == 1:\n        out[min_i] = 1 / np.sqrt(19) * (13 - 16 * rho)\n', 'C08.qseq', 'Qbfs_seq: order 1 without c_Q'),
    ('mutant', QP, '        if ns[min_i] == nn:\n            out[min_i] = Qn * c_Q\n', '        if ns[min_i] == nn:\n            out[min_i] = Qnm2 * c_Q\n', 'C08.qseq', 'Qbfs_seq: emits the previous order'),
    ('mutant', QP, '    Pns = jacobi_seq(ns, 0, 4, xx)\n', '    Pns = jacobi_seq(ns, 0, 2, xx)\n', 'C08.qseq', 'Qcon_seq: beta = 2'),
    ('mutant', QP, '            seqs[m] = list(Qbfs_seq(range(N+1), r))\n', '            seqs[m] = list(Qbfs_seq(range(1, N+1), r))\n', 'C08.qseq', 'Q2d_seq: m=0 table starts at order 1'),
    ('mutant', QP, '                Qn = (Pn - gnm1 * Qnm1) * (1/fn)\n                seqs[m].append(Qn)\n', '                Qn = (Pn - gnm1 * Qnm1) * (1/fn)\n                seqs[m].append(Qnm1)\n', 'C08.qseq', 'Q2d_seq: table sweep appends the previous Q'),
    ('mutant', QP, '                prefix = sin_scales[-m] * u_scales[-m]\n', '                prefix = sin_scales[-m] * u_scales[m]\n', 'C08', 'Q2d_seq: radial scale looked up with negative key', 'exit2-ok'),
    ('mutant', QP, '            out[j] = seqs[abs(m)][n] * prefix\n', '            out[j] = seqs[abs(m)][n-1] * prefix\n', 'C08.qseq', 'Q2d_seq: order index off by one'),
    ('mutant', QP, '                seqs[m].append(Q2)\n                seqs[m].append(Q3)\n', '                seqs[m].append(Q3)\n                seqs[m].append(Q2)\n', 'C08.qseq', 'Q2d_seq: Q2 and Q3 appended in the wrong order'),
    ('variant', QP, '        if ns[min_i] == nn:\n            out[min_i] = Qn * c_Q\n', '        if ns[min_i] == nn:\n            out[min_i] = c_Q * Qnm1\n', '', 'Qbfs_seq: emits the rotated name (same value)'),
    ('variant', ZK, '            zern = jac * azpiece * radialpiece  # jac already contains the norm\n            out[k] = zern\n', '            out[k] = radialpiece * (azpiece * jac)\n', '', 'zernike seq: product reordered'),
]
