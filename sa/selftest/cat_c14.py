IO = 'prysm/io.py'
I = 'prysm/interferogram.py'
CATALOGUE = [
    ('mutant', IO, "    phase = phase_raw.astype(config.precision).reshape((ph, pw))\n    phase = np.flipud(phase)\n", "    phase_raw = np.flipud(phase_raw)\n    phase = phase_raw.astype(config.precision).reshape((ph, pw))\n", 'C14.orient', 'zygo flip before reshape (pinned defect)'),
    ('mutant', IO, "    phase = phase_raw.astype(config.precision).reshape((ph, pw))\n    phase = np.flipud(phase)\n", "    phase = phase_raw.astype(config.precision).reshape((ph, pw))\n", 'C14.orient', 'zygo reader forgets the flip'),
    ('mutant', IO, "    phase = phase_raw.astype(config.precision).reshape((ph, pw))\n", "    phase = phase_raw.astype(config.precision).reshape((pw, ph))\n", 'C14.header', 'zygo reshape (width, height)'),
    ('mutant', IO, "    defaults['cn_width'][3] = phase.shape[1]\n    defaults['cn_height'][3] = phase.shape[0]", "    defaults['cn_width'][3] = phase.shape[0]\n    defaults['cn_height'][3] = phase.shape[1]", 'C14.header', 'zygo writer swaps width/height'),
    ('mutant', IO, "f'GRD {m} {n} {typ} WVL 1.0 {nnb}SSZ {scale} NDA -32768\\n'", "f'GRD {n} {m} {typ} WVL 1.0 {nnb}SSZ {scale} NDA -32768\\n'", 'C14.header', 'GRD rows first (pinned defect)'),
    ('mutant', IO, "    scale = 32767 / mag\n", "    scale = 32767 / mx_valid\n", 'C14.range', 'scale from the maximum only (all-negative overflow)'),
    ('mutant', IO, "    array[NDA_PIX] = -32768\n", "    array[NDA_PIX] = -32767\n", 'C14.sentinel', 'NDA sentinel off by one'),
    ('mutant', IO, "    a = a.astype(config.precision) * (1000*wvl/ssz)", "    a = a.astype(config.precision) * (wvl/ssz)", 'C14.scale', 'codev reader loses um->nm'),
    ('mutant', IO, "    defaults['wavelength'][3] = wavelength/1e6  # um -> m", "    defaults['wavelength'][3] = wavelength/1e3  # um -> m", 'C14.scale', 'zygo header wavelength unit'),
    ('mutant', IO, "    defaults['phase_res'][3] = 1  # um -> m\n    phase_res_fctr = ZYGO_PHASE_RES_FACTORS[1]", "    defaults['phase_res'][3] = 1  # um -> m\n    phase_res_fctr = ZYGO_PHASE_RES_FACTORS[2]", 'C14.scale', 'zygo writer uses another phase_res factor than it stores'),
    ('mutant', IO, "        'cn_width': (IB16, 68, 70, 0),", "        'cn_width': (IB32, 68, 70, 0),", 'C14.struct', 'field format wider than its slot'),
    ('mutant', IO, "        'cn_n_bytes': (IB32, 72, 76, 0),", "        'cn_n_bytes': (IB32, 71, 75, 0),", 'C14.struct', 'field overlaps its neighbour'),
    ('mutant', IO, "        backtrack = math.ceil(len(missing_buf)/4)", "        backtrack = len(missing_buf)//4", 'C14.trunc', 'partially missing sample not marked'),
    ('mutant', IO, "        warnings.warn('provided file was malformed (truncated) - appending zeros to phase data')\n", "", 'C14.trunc', 'silent zero extension'),
    ('mutant', IO, "        phase_raw[-backtrack:] = ZYGO_INVALID_PHASE\n", "", 'C14.trunc', 'missing samples left as zeros'),
    ('mutant', IO, "    phase[phase >= ZYGO_INVALID_PHASE] = np.nan", "    phase[phase > ZYGO_INVALID_PHASE] = np.nan", 'C14.sentinel', 'strict comparison misses the sentinel'),
    ('mutant', I, "        i = Interferogram(phase=phase, dx=res*1e3, intensity=zydat['intensity'], meta=zydat['meta'], wavelength=None)", "        i = Interferogram(phase=phase, dx=res*1e6, intensity=zydat['intensity'], meta=zydat['meta'], wavelength=None)", 'C14.scale', 'loader dx unit'),
    ('variant', IO, "    phase = phase_raw.astype(config.precision).reshape((ph, pw))\n    phase = np.flipud(phase)\n", "    phase = np.flipud(np.fliplr(np.flipud(phase_raw).astype(config.precision).reshape((ph, pw))))\n    phase = np.flipud(phase)\n", '', 'equivalent flips in the group'),
    ('variant', IO, "    scale = 32767 / mag\n", "    scale = 32767. / max(abs(mx_valid), abs(mn_valid)) if mag >= np.finfo(array.dtype).eps else 32767\n", '', 'scale spelled differently'),
]
