F = 'prysm/thinfilm.py'
CATALOGUE = [
    ('mutant', F, "den = n0 * np.cos(theta1) + n1 * np.cos(theta0)\n    return num / den\n\n\ndef fresnel_tp",
     "den = n1 * np.cos(theta1) + n1 * np.cos(theta0)\n    return num / den\n\n\ndef fresnel_tp", 'C17.', 'fresnel_rp denominator n1/n1 (the pinned defect)'),
    ('mutant', F, "num = 2 * n0 * np.cos(theta0)\n    den = n0 * np.cos(theta0) + n1 * np.cos(theta1)",
     "num = 2 * n1 * np.cos(theta0)\n    den = n0 * np.cos(theta0) + n1 * np.cos(theta1)", 'C17.energy', 'fresnel_ts numerator n1'),
    ('mutant', F, "upper_right = -1j * sinb * cost / n", "upper_right = -1j * sinb / (cost * n)", 'C17.', 'p matrix uses the s upper-right entry'),
    ('mutant', F, "lower_left = -1j * n * sinb * cost", "lower_left = 1j * n * sinb * cost", 'C17.matrix', 's matrix sign'),
    ('mutant', F, "return Amat[..., 1, 0] / Amat[..., 0, 0]", "return Amat[..., 0, 1] / Amat[..., 0, 0]", 'C17.rtot', 'rtot uses A01'),
    ('mutant', F, "        [n0, -cost0]\n", "        [-n0, cost0]\n", 'C17.interface', 'sign of second row of term2 (p)'),
    ('mutant', F, "        fn1 = characteristic_matrix_p\n        fn2 = multilayer_matrix_p", "        fn1 = characteristic_matrix_p\n        fn2 = multilayer_matrix_s", 'C17.dispatch', 'p branch uses s multilayer matrix'),
    ('mutant', F, "return np.lib.scimath.arcsin(n0/n1 * np.sin(theta))", "return np.lib.scimath.arcsin(n1/n0 * np.sin(theta))", 'C17.snell', 'snell ratio inverted'),
    ('variant', F, "num = n0 * np.cos(theta0) - n1 * np.cos(theta1)\n    den = n0 * np.cos(theta0) + n1 * np.cos(theta1)\n    return num / den",
     "c0, c1 = np.cos(theta0), np.cos(theta1)\n    return (c0 * n0 - c1 * n1) / (c1 * n1 + c0 * n0)", '', 'fresnel_rs rewritten with locals, reordered'),
    ('variant', F, "    k = (2 * np.pi * n) / lambda_\n    cost = np.cos(theta)\n    beta = k * d * cost\n    sinb, cosb = np.sin(beta), np.cos(beta)\n\n    upper_right = -1j * sinb * cost / n",
     "    cost = np.cos(theta)\n    beta = 2 * np.pi * n * d * cost / lambda_\n    sinb = np.sin(beta)\n    cosb = np.cos(beta)\n\n    upper_right = -1j * (cost / n) * sinb", '', 'p matrix refactored'),
]
