P = 'prysm/propagation.py'
F = 'prysm/fttools.py'
Q_OLD = """    Q = tuple(Q_for_sampling(input_diameter=s*input_dx,
                             prop_dist=prop_dist,
                             wavelength=wavelength,
                             output_dx=output_dx) for s in wavefunction.shape)
    if shift[0] != 0 or shift[1] != 0:
        shift = (shift[0]/output_dx, shift[1]/output_dx)

    if method == 'mdft':
        out = mdft.dft2("""
CATALOGUE = [
    ('mutant', P, Q_OLD, Q_OLD.replace("for s in wavefunction.shape)", "for s in (wavefunction.shape[0], wavefunction.shape[0]))"), 'C05.axisQ', 'focus Q from shape[0] for both axes (pinned defect)'),
    ('mutant', P, Q_OLD, Q_OLD.replace("for s in wavefunction.shape)", "for s in wavefunction.shape[::-1])"), 'C05.axisQ', 'focus per-axis Q reversed'),
    ('mutant', P, Q_OLD, Q_OLD.replace("shift = (shift[0]/output_dx, shift[1]/output_dx)", "shift = (shift[1]/output_dx, shift[0]/output_dx)"), 'C05.axisQ', 'focus shift axes swapped'),
    ('mutant', P, Q_OLD, Q_OLD.replace("shift = (shift[0]/output_dx, shift[1]/output_dx)", "shift = (shift[0]/input_dx, shift[1]/input_dx)"), 'C05.axisQ', 'focus shift divided by the input spacing'),
    ('mutant', P, "    resolution_element = (wavelength * prop_dist) / (input_diameter)\n    return resolution_element / output_dx", "    resolution_element = (wavelength * prop_dist) / (input_diameter)\n    return resolution_element * output_dx", 'C05.axisQ', 'Q_for_sampling multiplies by output_dx'),
    # (was listed as behaviour-preserving: the kernel depends on the product of the spacings only -- true without a shift; with one, the
    # shift is converted to samples with the OUTPUT spacing, so the swap moves the field.  Found by the composition rule on values.)
    ('mutant', P, "    field_at_next_pupil = unfocus_fixed_sampling(field_after_fpm, fpm_dx, efl, wavelength, dx, wavefunction.shape, shift=shift, method=method)",
     "    field_at_next_pupil = unfocus_fixed_sampling(field_after_fpm, dx, efl, wavelength, fpm_dx, wavefunction.shape, shift=shift, method=method)", 'C05.roundtrip', 'return trip spacings swapped: same kernel, the shift converted with the other spacing'),
    ('mutant', P, "    field_at_next_pupil = unfocus_fixed_sampling(field_after_fpm, fpm_dx, efl, wavelength, dx, wavefunction.shape, shift=shift, method=method)",
     "    field_at_next_pupil = unfocus_fixed_sampling(field_after_fpm, fpm_dx, efl, wavelength, dx, fpm_samples, shift=shift, method=method)", 'C05.roundtrip', 'return trip sized like the mask'),
    ('mutant', P, "    field_after_fpm = field_at_fpm * fpm\n", "    field_after_fpm = field_at_fpm\n", 'C05.roundtrip', 'mask not applied'),
    ('mutant', P, "    field_at_next_pupil = unfocus_fixed_sampling(field_after_fpm, fpm_dx, efl, wavelength, dx, wavefunction.shape, shift=shift, method=method)",
     "    field_at_next_pupil = unfocus_fixed_sampling(field_after_fpm, fpm_dx, efl, wavelength, dx, wavefunction.shape, shift=shift)", 'C05.roundtrip', 'return trip ignores the method'),
    ('mutant', P, "        fpm = 1 - fpm\n        if return_more:\n            field, field_at_fpm, field_after_fpm = \\\n                self.to_fpm_and_back(", "        fpm = fpm - 1\n        if return_more:\n            field, field_at_fpm, field_after_fpm = \\\n                self.to_fpm_and_back(", 'C05.babinet', 'babinet complement sign'),
    ('mutant', P, "        field_at_lyot = self.data - field.data\n", "        field_at_lyot = self.data + field.data\n", 'C05.babinet', 'babinet adds instead of subtracting'),
    ('variant', P, "    resolution_element = (wavelength * prop_dist) / (input_diameter)\n    return resolution_element / output_dx", "    return wavelength / output_dx * (prop_dist / input_diameter)", '', 'Q_for_sampling refactored'),
    ('variant', P, Q_OLD, Q_OLD.replace("""    Q = tuple(Q_for_sampling(input_diameter=s*input_dx,
                             prop_dist=prop_dist,
                             wavelength=wavelength,
                             output_dx=output_dx) for s in wavefunction.shape)
""", """    Qy = Q_for_sampling(wavefunction.shape[0]*input_dx, prop_dist, wavelength, output_dx)
    Qx = Q_for_sampling(wavefunction.shape[1]*input_dx, prop_dist, wavelength, output_dx)
    Q = (Qy, Qx)
"""), '', 'per-axis Q spelled out'),
]
