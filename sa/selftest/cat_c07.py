J = 'prysm/polynomials/jacobi.py'
H = 'prysm/polynomials/hermite.py'
L = 'prysm/polynomials/laguerre.py'
DK = 'prysm/polynomials/dickson.py'
CH = 'prysm/polynomials/cheby.py'
Z = 'prysm/polynomials/zernike.py'
CATALOGUE = [
    ('mutant', J, "        Anum = (2 * n + alpha + beta + 1) * (2 * n + alpha + beta + 2)", "        Anum = (2 * n + alpha + beta + 1) * (2 * n + alpha + beta + 3)", 'C07.abc', 'A numerator +3'),
    ('mutant', J, "        Cnum = (n + alpha) * (n + beta) * (2 * n + alpha + beta + 2)", "        Cnum = (n + alpha) * (n + alpha) * (2 * n + alpha + beta + 2)", 'C07.abc', 'C numerator (n+alpha)^2 (invisible for alpha=beta)'),
    ('mutant', J, "    for i in range(3, n+1):\n        Pnm2, Pnm1 = Pnm1, Pn\n        A, B, C = recurrence_abc(i-1, alpha, beta)\n        Pn = (A * x + B) * Pnm1 - C * Pnm2\n\n    return Pn", "    for i in range(3, n+1):\n        Pnm2, Pnm1 = Pnm1, Pn\n        A, B, C = recurrence_abc(i, alpha, beta)\n        Pn = (A * x + B) * Pnm1 - C * Pnm2\n\n    return Pn", 'C07.loop', 'jacobi loop uses coefficients of order i'),
    ('mutant', J, "    Pn = (A * x + B) * Pnm1 - C  # no C * Pnm2 =because Pnm2 = 1\n    if n == 2:\n        return Pn", "    Pn = (A * x + B) * Pnm1 + C  # no C * Pnm2 =because Pnm2 = 1\n    if n == 2:\n        return Pn", 'C07.loop', 'P2 sign of C'),
    ('mutant', J, "        term2 = alpha + beta + 2\n", "        term2 = alpha + beta + 1\n", 'C07.loop', 'P1 closed form'),
    ('mutant', H, "        Pn = x * Pnm1 - (nn-1) * Pnm2\n        Pnm2, Pnm1 = Pnm1, Pn\n\n    return Pn", "        Pn = x * Pnm1 - nn * Pnm2\n        Pnm2, Pnm1 = Pnm1, Pn\n\n    return Pn", 'C07.loop', 'He recurrence uses n instead of n-1 (first wrong at n=3)'),
    ('mutant', H, "        Pn = x2 * Pnm1 - (2 * (nn-1)) * Pnm2\n        Pnm2, Pnm1 = Pnm1, Pn\n\n    return Pn", "        Pn = x2 * Pnm1 - (2 * (nn-1)) * Pnm2\n        Pnm1, Pnm2 = Pnm1, Pn\n\n    return Pn", 'C07.loop', 'H rotation swapped'),
    ('mutant', L, "        A = (alpha + 2*n + 1 - x)\n        B = alpha + n\n        Lnp1 = 1/(n+1) * (A*Ln - B*Lnm1)\n        Ln, Lnm1 = Lnp1, Ln\n\n    return Lnp1", "        A = (alpha + 2*n + 1 - x)\n        B = alpha + n + 1\n        Lnp1 = 1/(n+1) * (A*Ln - B*Lnm1)\n        Ln, Lnm1 = Lnp1, Ln\n\n    return Lnp1", 'C07.loop', 'Laguerre B off by one'),
    ('mutant', L, "    Lnp1 = 0.5 * (A*Ln - B*Lnm1)  # written differently; ordinarily / n\n    if n == 2:", "    Lnp1 = 0.5 * (A*Ln + B*Lnm1)  # written differently; ordinarily / n\n    if n == 2:", 'C07.loop', 'Laguerre L2 sign'),
    ('mutant', DK, "        return np.ones_like(x) * 2\n    if n == 1:", "        return np.ones_like(x)\n    if n == 1:", 'C07.loop', 'dickson1 D0 = 1'),
    ('mutant', DK, "    for _ in range(2, n+1):\n        Pn = x * Pnm1 - alpha * Pnm2\n        Pnm1, Pnm2 = Pn, Pnm1\n\n    return Pn\n\n\ndef dickson2(", "    for _ in range(2, n+1):\n        Pn = x * Pnm1 + alpha * Pnm2\n        Pnm1, Pnm2 = Pn, Pnm1\n\n    return Pn\n\n\ndef dickson2(", 'C07.loop', 'dickson1 recurrence sign'),
    ('mutant', CH, "    c = (n+1) / jacobi(n, .5, .5, 1)  # single div, many mul\n    return jacobi(n, .5, .5, x) * c\n\n\ndef cheby2_seq", "    c = n / jacobi(n, .5, .5, 1)  # single div, many mul\n    return jacobi(n, .5, .5, x) * c\n\n\ndef cheby2_seq", 'C07.compose', 'cheby2 normalisation n'),
    ('mutant', CH, "    c = 1 / jacobi(n, -.5, -.5, 1)  # single div, many mul\n    return jacobi(n, -.5, -.5, x) * c", "    c = 1 / jacobi(n, -.5, -.5, 1)  # single div, many mul\n    return jacobi(n, -.5, .5, x) * c", 'C07.compose', 'cheby1 mixed parameters'),
    ('mutant', Z, "    return truenp.sqrt((2 * (n + 1)) / (1 + kronecker(m, 0)))", "    return truenp.sqrt((2 * (n + 1)) / (1 + kronecker(n, 0)))", 'C07.compose', 'zernike norm delta on n'),
    ('mutant', Z, "    x = 2 * r ** 2 - 1\n    am = abs(m)\n    n_j = (n - am) // 2\n    out = jacobi(n_j, 0, am, x)", "    x = 2 * r ** 2 - 1\n    am = abs(m)\n    n_j = (n - am) // 2\n    out = jacobi(n_j, am, 0, x)", 'C07.compose', 'zernike jacobi parameters swapped'),
    ('mutant', Z, "            out *= (r ** am * np.sin(am*t))", "            out *= (r ** am * np.sin(m*t))", 'C07.compose', 'negative m sine sign'),
    ('variant', J, "    for i in range(3, n+1):\n        Pnm2, Pnm1 = Pnm1, Pn\n        A, B, C = recurrence_abc(i-1, alpha, beta)\n        Pn = (A * x + B) * Pnm1 - C * Pnm2\n\n    return Pn", "    for k in range(2, n):\n        A, B, C = recurrence_abc(k, alpha, beta)\n        Pnm2, Pnm1 = Pnm1, Pn\n        Pn = x * A * Pnm1 + (B * Pnm1 - Pnm2 * C)\n\n    return Pn", '', 'jacobi loop re-indexed and rearranged'),
    ('variant', H, "    P2 = x * x - 1\n    if n == 2:\n        return P2\n\n    Pnm2 = x\n    Pnm1 = P2", "    P2 = x ** 2 - 1\n    if n == 2:\n        return P2\n\n    Pnm2, Pnm1 = x, P2", '', 'He base cases rewritten'),
]
