J = 'prysm/polynomials/jacobi.py'
H = 'prysm/polynomials/hermite.py'
L = 'prysm/polynomials/laguerre.py'
DK = 'prysm/polynomials/dickson.py'
CH = 'prysm/polynomials/cheby.py'
Z = 'prysm/polynomials/zernike.py'
QP = 'prysm/polynomials/qpoly.py'
MO = 'prysm/mathops.py'
CATALOGUE = [
    ('mutant', J, "        Anum = (2 * n + alpha + beta + 1) * (2 * n + alpha + beta + 2)", "        Anum = (2 * n + alpha + beta + 1) * (2 * n + alpha + beta + 3)", 'C07.abc', 'A numerator +3'),
    ('mutant', J, "        Cnum = (n + alpha) * (n + beta) * (2 * n + alpha + beta + 2)", "        Cnum = (n + alpha) * (n + alpha) * (2 * n + alpha + beta + 2)", 'C07.abc', 'C numerator (n+alpha)^2 (invisible for alpha=beta)'),
    ('mutant', J, "    for i in range(3, n+1):\n        Pnm2, Pnm1 = Pnm1, Pn\n        A, B, C = recurrence_abc(i-1, alpha, beta)\n        Pn = (A * x + B) * Pnm1 - C * Pnm2\n\n    return Pn", "    for i in range(3, n+1):\n        Pnm2, Pnm1 = Pnm1, Pn\n        A, B, C = recurrence_abc(i, alpha, beta)\n        Pn = (A * x + B) * Pnm1 - C * Pnm2\n\n    return Pn", 'C07.loop', 'jacobi loop uses coefficients of order i'),
    ('mutant', J, "    Pn = (A * x + B) * Pnm1 - C  # no C * Pnm2 =because Pnm2 = 1\n    if n == 2:\n        return Pn", "    Pn = (A * x + B) * Pnm1 + C  # no C * Pnm2 =because Pnm2 = 1\n    if n == 2:\n        return Pn", 'C07.loop', 'P2 sign of C'),
    ('mutant', J, "        term2 = alpha + beta + 2\n", "        term2 = alpha + beta + 1\n", 'C07.loop', 'P1 closed form'),
    ('mutant', H, "        Pn = x * Pnm1 - (nn-1) * Pnm2\n        Pnm2, Pnm1 = Pnm1, Pn\n\n    return Pn", "        Pn = x * Pnm1 - nn * Pnm2\n        Pnm2, Pnm1 = Pnm1, Pn\n\n    return Pn", 'C07.loop', 'He recurrence uses n instead of n-1 (first wrong at n=3)'),
    ('mutant', H, "        Pn = x2 * Pnm1 - (2 * (nn-1)) * Pnm2\n        Pnm2, Pnm1 = Pnm1, Pn\n\n    return Pn", "        Pn = x2 * Pnm1 - (2 * (nn-1)) * Pnm2\n        Pnm1, Pnm2 = Pnm1, Pn\n\n    return Pn", 'C07.loop', 'H rotation swapped'),
    ('mutant', L, "        A = (alpha + 2*n + 1 - x)\n        B = alpha + n\n        Lnp1 = 1/(n+1) * (A*Ln - B*Lnm1)\n        Ln, Lnm1 = Lnp1, Ln\n\n    return Lnp1", "        A = (alpha + 2*n + 1 - x)\n        B = alpha + n + 1\n        Lnp1 = 1/(n+1) * (A*Ln - B*Lnm1)\n        Ln, Lnm1 = Lnp1, Ln\n\n    return Lnp1", 'C07.loop', 'Laguerre B off by one'),
    ('mutant', L, "    Lnp1 = 0.5 * (A*Ln - B*Lnm1)  # written differently; ordinarily / n\n    if n == 2:", "    Lnp1 = 0.5 * (A*Ln + B*Lnm1)  # written differently; ordinarily / n\n    if n == 2:", 'C07.loop', 'Laguerre L2 sign'),
    ('mutant', DK, "        return np.ones_like(x) * 2\n    if n == 1:", "        return np.ones_like(x)\n    if n == 1:", 'C07.loop', 'dickson1 D0 = 1'),
    ('mutant', DK, "    for _ in range(2, n+1):\n        Pn = x * Pnm1 - alpha * Pnm2\n        Pnm1, Pnm2 = Pn, Pnm1\n\n    return Pn\n\n\ndef dickson2(", "    for _ in range(2, n+1):\n        Pn = x * Pnm1 + alpha * Pnm2\n        Pnm1, Pnm2 = Pn, Pnm1\n\n    return Pn\n\n\ndef dickson2(", 'C07.loop', 'dickson1 recurrence sign'),
    ('mutant', CH, "    c = (n+1) / jacobi(n, .5, .5, 1)  # single div, many mul\n    return jacobi(n, .5, .5, x) * c\n\n\ndef cheby2_seq", "    c = n / jacobi(n, .5, .5, 1)  # single div, many mul\n    return jacobi(n, .5, .5, x) * c\n\n\ndef cheby2_seq", 'C07.compose', 'cheby2 normalisation n'),
    ('mutant', CH, "    c = 1 / jacobi(n, -.5, -.5, 1)  # single div, many mul\n    return jacobi(n, -.5, -.5, x) * c", "    c = 1 / jacobi(n, -.5, -.5, 1)  # single div, many mul\n    return jacobi(n, -.5, .5, x) * c", 'C07.compose', 'cheby1 mixed parameters'),
    ('mutant', Z, "    return truenp.sqrt((2 * (n + 1)) / (1 + kronecker(m, 0)))", "    return truenp.sqrt((2 * (n + 1)) / (1 + kronecker(n, 0)))", 'C07.compose', 'zernike norm delta on n'),
    ('mutant', Z, "    x = 2 * r ** 2 - 1\n    am = abs(m)\n    n_j = (n - am) // 2\n    out = jacobi(n_j, 0, am, x)", "    x = 2 * r ** 2 - 1\n    am = abs(m)\n    n_j = (n - am) // 2\n    out = jacobi(n_j, am, 0, x)", 'C07.compose', 'zernike jacobi parameters swapped'),
    ('mutant', Z, "            out *= (r ** am * np.sin(am*t))", "            out *= (r ** am * np.sin(m*t))", 'C07.compose', 'negative m sine sign'),
    ('variant', J, "    for i in range(3, n+1):\n        Pnm2, Pnm1 = Pnm1, Pn\n        A, B, C = recurrence_abc(i-1, alpha, beta)\n        Pn = (A * x + B) * Pnm1 - C * Pnm2\n\n    return Pn", "    for k in range(2, n):\n        A, B, C = recurrence_abc(k, alpha, beta)\n        Pnm2, Pnm1 = Pnm1, Pn\n        Pn = x * A * Pnm1 + (B * Pnm1 - Pnm2 * C)\n\n    return Pn", '', 'jacobi loop re-indexed and rearranged'),
    ('variant', H, "    P2 = x * x - 1\n    if n == 2:\n        return P2\n\n    Pnm2 = x\n    Pnm1 = P2", "    P2 = x ** 2 - 1\n    if n == 2:\n        return P2\n\n    Pnm2, Pnm1 = x, P2", '', 'He base cases rewritten'),
    # Forbes coefficients
    ('mutant', QP, "        term2 = 1 / 24 * kronecker(n, 1)\n        return term1 - term2", "        term2 = 1 / 24 * kronecker(n, 1)\n        return term1 + term2", 'C07.forbes', 'G_1^1 Kronecker correction sign'),
    ('mutant', QP, "        term2 = 11 / 32 * kronecker(n, 1)", "        term2 = 11 / 32 * kronecker(n, 2)", 'C07.forbes', 'F_n^1 correction attached to n = 2'),
    ('mutant', QP, "        return np.sqrt(19) / 2", "        return np.sqrt(19) / 4", 'C07.forbes', 'f_1 of Qbfs halved'),
    ('mutant', QP, "    return -n * (n - 1) / (2 * f_qbfs(n_minus_2))", "    return -n * (n + 1) / (2 * f_qbfs(n_minus_2))", 'C07.forbes', 'h_qbfs numerator n(n+1)'),
    ('mutant', QP, "    num = n * (2 * n - 3) * (m + 2 * n - 1) * (2 * m + 2 * n - 3)\n    C = num / D", "    num = n * (2 * n - 3) * (m + 2 * n - 1) * (2 * m + 2 * n - 1)\n    C = num / D", 'C07.forbes', 'C_n^m last factor'),
    ('mutant', QP, "        return np.sqrt(F_q2d(n, m) - g_q2d(n-1, m) ** 2)", "        return np.sqrt(F_q2d(n, m) - g_q2d(n, m) ** 2)", 'C07.forbes', 'f_n^m uses g_n instead of g_(n-1)'),
    ('mutant', QP, "        nt2 = (n + 1) * (2 * m + 2 * n - 1)\n        num = nt1 * nt2", "        nt2 = (n + 1) * (2 * m + 2 * n + 1)\n        num = nt1 * nt2", 'C07.forbes', 'G_n^m numerator factor'),
    ('mutant', MO, "        num = (nm1 + 1) * (2 * m + 2 * nm1 - 1)", "        num = (nm1 + 1) * (2 * m + 2 * nm1 + 1)", 'C07.forbes', 'gamma recurrence numerator'),
    ('variant', QP, "        t1num = (2 * n ** 2 - 1) * (n ** 2 - 1)\n        t1den = 8 * (4 * n ** 2 - 1)\n        term1 = -t1num / t1den", "        nsq = n * n\n        term1 = (1 - nsq) * (2 * nsq - 1) / (32 * nsq - 8)", '', 'G_n^1 rearranged'),
    ('variant', QP, "        term1 = n * (n + 1) + 3\n        term2 = g_qbfs(n - 1) ** 2\n        term3 = h_qbfs(n - 2) ** 2\n        return np.sqrt(term1 - term2 - term3)", "        g = g_qbfs(n - 1)\n        h = h_qbfs(n - 2)\n        return np.sqrt(n ** 2 + n + 3 - (g * g + h * h))", '', 'f_qbfs rearranged'),
    # Q2d / Qbfs / Qcon recurrences
    ('mutant', QP, '\n    if m == 1:\n        P1 = 1 - x/2\n', '\n    if m == 1:\n        P1 = 1 - x\n', 'C07.qloop', 'Q2d P_1^1 wrong'),
    ('mutant', QP, '\n        P3 = (5 - x * (60 - x * (120 - 64 * x))) / 10\n', '\n        P3 = (5 - x * (60 - x * (120 - 60 * x))) / 10\n', 'C07.qloop', 'Q2d P_3^1 cubic coefficient'),
    ('mutant', QP, '\n        min_n = 4\n', '\n        min_n = 3\n', 'C07.qloop', 'Q2d m=1 sweep starts one order early'),
    ('mutant', QP, '\n        A, B, C = abc_q2d(nn-1, m)\n', '\n        A, B, C = abc_q2d(nn, m)\n', 'C07.qloop', 'Q2d step uses abc of order n instead of n-1'),
    ('mutant', QP, '\n        gnm1 = g_q2d(nn-1, m)\n        fn = f_q2d(nn, m)\n', '\n        gnm1 = g_q2d(nn-1, m)\n        fn = f_q2d(nn-1, m)\n', 'C07.qloop', 'Q2d step normalises by f_(n-1)'),
    ('mutant', QP, '        prefix = u ** m * np.sin(m*t)\n    else:\n        prefix = u ** m * np.cos(m*t)\n', '        prefix = u ** m * np.cos(m*t)\n    else:\n        prefix = u ** m * np.sin(m*t)\n', 'C07.qloop', 'Q2d sine and cosine families swapped'),
    ('mutant', QP, '    for nn in range(2, n+1):\n        Pn = c * Pnm1 - Pnm2\n        Pnm2 = Pnm1\n        Pnm1 = Pn\n        g = g_qbfs(nn - 1)\n        h = h_qbfs(nn - 2)\n', '    for nn in range(2, n+1):\n        Pn = c * Pnm1 - Pnm2\n        Pnm2 = Pnm1\n        Pnm1 = Pn\n        g = g_qbfs(nn - 1)\n        h = h_qbfs(nn - 1)\n', 'C07.qloop', 'Qbfs step uses h_(n-1)'),
    ('mutant', QP, '        Qnm2 = Qnm1\n        Qnm1 = Qn\n\n    # Qn is certainly defined', '        Qnm1 = Qn\n\n    # Qn is certainly defined', 'C07.qloop', 'Qbfs forgets to rotate Q_(n-2)'),
    ('mutant', QP, '\n    Pn = jacobi(n, 0, 4, xx)', '\n    Pn = jacobi(n, 4, 0, xx)', 'C07.qloop', 'Qcon Jacobi parameters swapped'),
    ('variant', QP, '        Pnm2, Pnm1 = Pnm1, Pn\n        Qnm1 = Qn\n\n    # flake8', '        Pnm2 = Pnm1\n        Pnm1 = Pn\n        Qnm1 = Qn\n\n    # flake8', '', 'Q2d rotation written as two statements'),
    ('variant', QP, '        Qn = (Pn - g * Qnm1 - h * Qnm2) * (1/f)  # small optimization; mul by 1/f instead of div by f\n        Qnm2 = Qnm1\n        Qnm1 = Qn\n\n    # Qn is certainly', '        Qn = (Pn - (g * Qnm1 + h * Qnm2)) / f\n        Qnm2, Qnm1 = Qnm1, Qn\n\n    # Qn is certainly', '', 'Qbfs step rearranged'),
]
