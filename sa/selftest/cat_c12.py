I = 'prysm/interferogram.py'
R = 'prysm/_richdata.py'
U = 'prysm/util.py'
CATALOGUE = [
    ('mutant', I, "        self.x, self.y = make_xy_grid(self.data.shape, dx=self.dx)\n        # the polar coordinates derive from x, y: recompute them on next use\n        self._r = None\n        self._t = None\n",
     "        self.x, self.y = make_xy_grid(self.data.shape, dx=self.dx)\n", 'C12.cache', 'strip_latcal leaves r,t (pinned defect)'),
    ('variant', I, "        self.dx = plate_scale\n        self._r = None\n        self._t = None\n", "        self.dx = plate_scale\n        self._t = None\n", '', 'latcal relies on strip_latcal having reset r (behaviour preserving)'),
    ('mutant', I, "        self.x -= self.x[c]\n        self.y -= self.y[c]\n        self._r = None\n        self._t = None", "        self.x -= self.x[c]\n        self.y -= self.y[c]", 'C12.cache', 'recenter keeps stale r,t'),
    ('mutant', I, "        if self._r is not None:\n            self.r = self.r[lr, tb]\n            self.t = self.t[lr, tb]", "        if self._r is not None:\n            self.r = self.r[lr, tb]", 'C12.cache', 'crop forgets to re-slice t'),
    ('mutant', I, "            self.x = self.x[lr, tb]\n            self.y = self.y[lr, tb]", "            self.x = self.x[lr, tb]\n            self.y = self.y[tb, lr]", 'C12.', 'crop re-slices y with swapped slices'),
    ('mutant', I, "        self.data = pad2d(self.data, value=value, out_shape=shape)\n        return self.latcal(self.dx)", "        self.data = pad2d(self.data, value=value, out_shape=shape)\n        return self", 'C12.cache', 'pad does not regenerate coordinates'),
    ('mutant', I, "        self.x *= plate_scale\n        self.y *= plate_scale\n        self.dx = plate_scale", "        self.x *= plate_scale\n        self.dx = plate_scale", 'C12.cache', 'latcal scales only x'),
    ('mutant', I, "            lr = slice(left, self.data.shape[0])", "            lr = slice(left, self.data.shape[1])", 'C12.crop', 'row slice bounded by the column count'),
    ('mutant', I, "        nanrows = np.any(nans, axis=1)", "        nanrows = np.any(nans, axis=0)", 'C12.crop', 'row statistics reduced over the wrong axis'),
    ('mutant', R, "        if self._r is None:\n            self._r, self._t = cart_to_polar(self.x, self.y)\n\n        return self._r", "        if self._r is None:\n            self._t, self._r = cart_to_polar(self.x, self.y)\n\n        return self._r", 'C12.cache', 'r getter unpacks (t, r)'),
    ('mutant', U, "    non_nan = np.isfinite(array)\n    return np.sqrt((array[non_nan] ** 2).mean())", "    non_nan = np.isfinite(array)\n    return np.sqrt((array[non_nan] ** 2).sum() / array.size)", 'C12.stats', 'rms divides by the total sample count'),
    ('mutant', U, "    return abs(ary - mean).sum() / ary.size", "    return abs(ary - mean).sum() / (ary.size - 1)", 'C12.stats', 'Sa with n-1'),
    ('mutant', I, "        self.data -= mean(self.data)", "        self.data -= self.data.mean()", 'C12.stats', 'piston removal with NaN-unaware mean'),
    ('variant', I, "        self.x -= self.x[c]\n        self.y -= self.y[c]\n        self._r = None\n        self._t = None", "        x0, y0 = self.x[c], self.y[c]\n        self._r, self._t = None, None\n        self.x = self.x - x0\n        self.y = self.y - y0", '', 'recenter refactored'),
    ('variant', I, "        self.x *= plate_scale\n        self.y *= plate_scale\n        self.dx = plate_scale\n        self._r = None\n        self._t = None", "        self.dx = plate_scale\n        self.x, self.y = make_xy_grid(self.data.shape, dx=plate_scale)", '', 'latcal regenerates the grid at the new scale'),
    ('variant', U, "    return np.sqrt((array[non_nan] ** 2).mean())", "    good = array[non_nan]\n    return np.sqrt((good * good).sum() / good.size)", '', 'rms rewritten'),
]
