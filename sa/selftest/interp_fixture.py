"""Fixture for the interpreter's Python plumbing (generators, namedtuples, functools, operator, sets, class attributes): a toy module is
interpreted and every function must return the stated constant.  Run by --selfcheck (the setup command) so that a regression of the
engine is seen before any rule is believed."""
from ..core.db import Module, AnalysisError

SRC = '''
import functools
import operator
from collections import namedtuple, defaultdict
from functools import partial, reduce
from typing import NamedTuple

Pair = namedtuple('Pair', 'a b')
Trip = namedtuple('Trip', ['x', 'y', 'z'], defaults=(7,))
TABLE = {'add': lambda p, q: p + q, 'mul': operator.mul}


class Box(namedtuple('Box', 'lo hi')):
    SCALE = 3

    @property
    def width(self):
        return self.hi - self.lo

    def scaled(self):
        return self.width * self.SCALE


class Rec(NamedTuple):
    n: int
    m: int = 5


class Holder:
    __slots__ = ('v',)
    K = 4

    def __init__(self, v):
        self.v = v

    @functools.cached_property
    def twice(self):
        return 2 * self.v

    def k(self):
        return self.K + self.v


def _lazy(name, start):
    slot = '_' + name

    def getter(self):
        if getattr(self, slot) is None:
            setattr(self, slot, start)
        return getattr(self, slot)

    def setter(self, value):
        setattr(self, slot, value * 2)
    return property(getter, setter)


class Lazy:
    p = _lazy('p', 7)
    q = _lazy('q', 1)

    def __init__(self):
        self._p = None
        self._q = None


def t_property_objects():
    z = Lazy()
    a = z.p
    z.q = 5
    for nm in ['p', 'q']:
        setattr(z, nm, getattr(z, nm) + 1)
    return a + z.p + z.q + z._q             # 7 + 16 + 22 + 22 = 67


def gen(n):
    a, b = 0, 1
    for _ in range(n):
        yield a
        a, b = b, a + b


def endless():
    k = 0
    while True:
        yield k * k
        k += 1


def t_namedtuple():
    p = Pair(1, b=2)
    a, b = p
    q = p._replace(a=10)
    t = Trip(1, 2)
    return p.a + p.b + a + b + q.a + q[1] + t.z + len(p._fields)        # 1+2+1+2+10+2+7+2 = 27


def t_subclass():
    b = Box(2, 6)
    lo, hi = b
    r = Rec(3)
    return b.width + b.scaled() + lo + hi + r.n + r.m + Rec(1, m=2).m      # 4+12+2+6+3+5+2 = 34


def t_partial():
    f = partial(TABLE['add'], 5)
    g = partial(operator.sub, 10)
    h = partial(lambda u, v=2, *, w=1: u * v + w, w=4)
    return f(1) + g(3) + h(3) + h(3, 5)                     # 6+7+10+19 = 42


def t_reduce():
    return reduce(operator.add, [1, 2, 3, 4]) + reduce(TABLE['mul'], (2, 3), 10) + functools.reduce(lambda s, x: s - x, gen(5), 0)   # 10+60-7 = 63


def t_generators():
    g = endless()
    first = next(g)
    second = next(g)
    third = next(g)
    total = 0
    for k, v in zip(range(4), endless()):
        total += v
    for v in gen(6):
        last = v
    return first + second + third + total + last + sum(gen(7))     # 0+1+4+14+5+20 = 44


def _aux(seeds):
    import itertools
    yield from seeds
    a, b = seeds[-2:]
    for n in itertools.count(len(seeds)):
        a, b = b, a + b + n
        yield b


def _radial(seeds):
    ps = _aux(seeds)
    q = next(ps) * 2
    yield q
    for n, p in enumerate(ps, start=1):
        q = p - q + n
        yield q


def t_lazy_pipeline():
    import itertools
    # aux: 1, 2, 5 (1+2+2), 10 (2+5+3), 19 ; radial: 2, 2-2+1=1, 5-1+2=6, 10-6+3=7, 19-7+4=16
    got = list(itertools.islice(_radial((1, 2)), 5))
    for k, v in enumerate(_radial((1, 2))):
        if k == 3:
            break
    third = next(itertools.islice(_radial((1, 2)), 2, None))
    return sum(got) + v + third           # 32 + 7 + 6 = 45


def _shifted(base, fan):
    for off in fan:
        yield base + off


def t_generator_fed_by_iterator():
    fan = (10 * k for k in range(3))
    total = 0
    for v in _shifted(1, fan):
        total += v
    return total                          # 1 + 11 + 21 = 33


def t_list_methods():
    table = [k * k for k in range(4, -1, -1)]           # 16 9 4 1 0
    table.reverse()                                      # 0 1 4 9 16
    table.insert(1, 100)
    last = table.pop()
    other = table.copy()
    other.sort(reverse=True)
    return table[1] + table[2] + last + other[0] + len(table)         # 100 + 1 + 16 + 100 + 5 = 222


def t_itertools():
    import itertools
    c = itertools.count(10)
    pairs = list(zip(c, 'abc'))
    after = next(c)
    head = list(itertools.islice(endless(), 4))
    it2 = iter([5, 6, 7])
    first = next(it2)
    rest = [v for v in it2]
    q, r = divmod(7, 2)
    total = operator.methodcaller('count', 6)([6, 6, 1])
    return pairs[2][0] + after + sum(head) + first + len(rest) + q + r + total        # 12 + 14 + 14 + 5 + 2 + 3 + 1 + 2 = 53 (zip asks the counter once more before the string runs out)


def t_sets_dicts():
    s = set()
    s.add(3)
    s.add(3)
    s.add(4)
    d = {}
    d.setdefault('k', [0, 0])[1] = 9
    e = defaultdict(list)
    e['q'].append(1)
    e['q'].append(2)
    g = d.copy()
    g.update({'z': 1}, w=2)
    first = e.pop('q', [])
    pick = [5, 6, 7].__getitem__
    return len(s) + (10 if 4 in s else 0) + (100 if 5 in s else 0) + d['k'][1] + len(first) + len(g) + len(d) + len(e) + e.pop('nothing', 40) + pick(2)   # 2+10+0+9+2+3+1+0+40+7 = 74


def t_classes():
    h = Holder(5)
    return h.twice + h.k() + Holder.K + sum(map(operator.mul, (1, 2), (3, 4)))      # 10+9+4+11 = 34


PAIR_A, PAIR_B = 30, 4
FIRST, SECOND = divmod(17, 5)


def t_del_and_unpack():
    d = {'a': 1, 'b': 2, 'c': 3}
    del d['b']
    e = {**d, 'z': 26}
    rows = [1, 2, 3, 4]
    del rows[0]
    return len(d) + len(e) + e['c'] + e['z'] + rows[0] + PAIR_A + PAIR_B + FIRST * 100 + SECOND     # 2+3+3+26+2+30+4+300+2 = 372


def _fact(n):
    return 1 if n <= 1 else n * _fact(n - 1)


def t_recursion_and_empty_dict():
    d = {}
    k = ('x', 2)
    hit = 10 if k in d else 20
    p = Pair._make((3, 4))
    return _fact(3) + hit + p.b          # 6 + 20 + 4 = 30


def t_nonlocal_and_slices():
    total = 0

    def bump(k):
        nonlocal total
        total += k
        return total
    bump(3)
    bump(4)
    merged = [None] * 4
    merged[0::2] = [1, 2]
    merged[1::2] = [10, 20]
    return total + merged[0] + merged[1] + merged[3]          # 7 + 1 + 10 + 20 = 38


def t_getattr_default():
    b = Box(1, 4)
    return getattr(b, 'width', 100) + getattr((1, 2), 'ndim', 5) + getattr([], 'nope', 7) + getattr(3.5, 'shape', 20)          # 3 + 5 + 7 + 20 = 35


def t_getters():
    first = operator.itemgetter(0)
    wid = operator.attrgetter('width')
    return first((8, 9)) + wid(Box(1, 4))              # 8 + 3 = 11
'''

EXPECT = {'t_namedtuple': 27, 't_subclass': 34, 't_partial': 42, 't_reduce': 63, 't_generators': 44, 't_sets_dicts': 74, 't_classes': 34, 't_getters': 11, 't_property_objects': 67, 't_itertools': 53, 't_lazy_pipeline': 45, 't_generator_fed_by_iterator': 33, 't_list_methods': 222, 't_del_and_unpack': 372, 't_recursion_and_empty_dict': 30, 't_nonlocal_and_slices': 38, 't_getattr_default': 35}


FILE_SRC = '''
import struct
import numpy as np


def w_ok(name, z):
    counts = np.flipud(np.around(z * 4)).astype('>i2')
    hdr = struct.pack('>HH', z.shape[0], z.shape[1])
    with open(name, 'wb') as f:
        f.write(hdr)
        f.write(counts.tobytes())


def w_bad(name, z):
    counts = np.flipud(np.around(z * 4)).astype('<i2')
    hdr = struct.pack('>HH', z.shape[1], z.shape[0])
    with open(name, 'wb') as f:
        f.write(hdr)
        f.write(counts.tobytes())


def r_(name):
    with open(name, 'rb') as f:
        raw = f.read()
    rows, cols = struct.unpack('>HH', raw[:4])
    a = np.frombuffer(raw, dtype='>i2', offset=4, count=rows * cols).astype(float)
    return np.flipud(a.reshape((rows, cols))) / 4


def t_w(name, z, scale):
    k = z.shape[1]
    with open(name, 'w') as f:
        f.write('MAP %d %d SCL %r\\n' % (z.shape[0], k, scale))
        for row in np.around(z * scale).astype(int):
            f.write(' '.join('%d' % v for v in row) + '\\n')


def t_r(name):
    txt = open(name).read()
    head, _, body = txt.partition('\\n')
    tok = head.split()
    n, m, s = int(tok[1]), int(tok[2]), float(tok[tok.index('SCL') + 1])
    return np.array(body.split(), dtype=float).reshape((n, m)) / s
'''


def file_fixture(db):
    """a toy binary pair (correct / with two slips) and a toy text pair: the composition must pass the first, report the second, pass the third"""
    from ..core.interp import Const
    from ..core.report import Run
    from ..domains.filedom import file_interp, FArr, BytesV
    from ..rules import c14compose as C
    name = 'prysm._verif_file_fixture'
    mod = Module(name, '<file fixture>', '<file fixture>', FILE_SRC.replace('\\\\n', '\\n'))
    db.modules[name] = mod
    try:
        out = {}
        for tag, w, r, extra in (('ok', 'w_ok', 'r_', {}), ('bad', 'w_bad', 'r_', {}), ('text', 't_w', 't_r', {'scale': None})):
            it, dom = file_interp(db)
            dom.count_range = (-32767, 32767)
            dom.file_keys = {'F'}
            run = Run('FIXTURE', 'quick', '')
            kw = {'name': Const('F'), 'z': None}
            res = it.run(mod.functions[w], kwargs=lambda: dict({'name': Const('F'), 'z': C._input(dom, (2, 3), ())}, **({'scale': dom.sym('scale')} if extra else {})))
            good = 0
            for wp in [p for p in res if p.outcome == 'return']:
                c = C._file_of(wp)
                dom.files = {'F': BytesV(c.items) if isinstance(c, BytesV) else c}
                for rp in it.run(mod.functions[r], kwargs=lambda: {'name': Const('F')}):
                    if rp.outcome == 'return' and isinstance(rp.value, FArr) and C.compare_maps(run, dom, 'FIX', r, tag, rp.value, (2, 3), (), ''):
                        good += 1
                    elif rp.outcome != 'return':
                        run.finding('FIX', r, tag, 'raises', '')
            out[tag] = (good, len(run.findings))
        if not (out['ok'][0] >= 1 and out['ok'][1] == 0 and out['text'][0] >= 1 and out['text'][1] == 0 and out['bad'][0] == 0 and out['bad'][1] >= 1):
            raise AnalysisError('FILE fixture failed: %r (expected ok and text to compose, bad to be reported)' % (out,))
    finally:
        del db.modules[name]
    return 3


def main(db):
    from ..core.interp import Interp, Domain, Const
    name = 'prysm._verif_interp_fixture'
    mod = Module(name, '<interp fixture>', '<interp fixture>', SRC)
    db.modules[name] = mod
    try:
        bad = []
        for fn, want in sorted(EXPECT.items()):
            it = Interp(db, Domain())
            res = [p for p in it.run(mod.functions[fn]) if p.outcome == 'return']
            got = res[0].value if len(res) == 1 else None
            if not (isinstance(got, Const) and got.v == want):
                bad.append('%s: %d returning paths, value %r, expected %d' % (fn, len(res), got, want))
        if bad:
            raise AnalysisError('interpreter fixture failed: ' + '; '.join(bad))
    finally:
        del db.modules[name]
    return len(EXPECT)
