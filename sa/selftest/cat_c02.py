P = 'prysm/propagation.py'
F = 'prysm/fttools.py'
CATALOGUE = [
    ('mutant', P, "    return fft.fftshift(fft.ifft2(fft.ifftshift(padded_wavefront), norm='ortho'))", "    return fft.fftshift(fft.ifft2(fft.ifftshift(padded_wavefront)))", 'C02.ortho', 'unfocus loses ortho'),
    ('mutant', P, "    impulse_response = fft.fftshift(fft.fft2(fft.ifftshift(padded_wavefront), norm='ortho'))", "    impulse_response = fft.fftshift(fft.fft2(fft.ifftshift(padded_wavefront), norm='forward'))", 'C02.ortho', 'focus norm=forward'),
    ('mutant', P, "    if Q != 1:\n        padded_wavefront = pad2d(wavefunction, Q)\n    else:\n        padded_wavefront = wavefunction\n\n    return fft.fftshift(", "    if Q != 1:\n        padded_wavefront = pad2d(wavefunction, Q, mode='edge')\n    else:\n        padded_wavefront = wavefunction\n\n    return fft.fftshift(", 'C02.pad', 'unfocus pads with edge values'),
    ('mutant', F, "            if value != 0:\n                out += value\n", "            out += value + 1e-30\n", 'C02.pad', 'pad2d always adds'),
    ('mutant', F, "            normy = np.sqrt(alphay)  # square root for energy, instead of power", "            normy = alphay  # square root for energy, instead of power", 'C02.norm', 'mdft normy not square-rooted'),
    ('mutant', P, "    prefix = -1j*np.pi*wvl*z\n", "    prefix = -1j*np.pi*wvl*z - 1e-3\n", 'C02.freespace', 'transfer function with a loss term'),
    ('mutant', P, "    prefix = -1j*np.pi*wvl*z\n", "    prefix = -1j*np.pi*wvl*abs(z)\n", 'C02.freespace', 'transfer function even in z'),
    ('mutant', P, "    tfy = np.exp(prefix*kyy)\n", "    tfy = np.exp(prefix*kxx)\n", 'C02.freespace', 'tfy built from kx'),
    ('mutant', P, "    forward = fft.fft2(field)\n    return fft.ifft2(forward*transfer_function)", "    forward = fft.fft2(field, norm='ortho')\n    return fft.ifft2(forward*transfer_function)", 'C02.freespace', 'mismatched FFT normalisation'),
    ('mutant', P, "        return fft.ifft2(fft.fft2(field) * tf)", "        return fft.ifft2(fft.fft2(fft.fftshift(field)) * tf)", 'C02.freespace', 'spurious shift on the tf-given path'),
    ('mutant', P, "                               dx=self.dx,\n                               z=dz,", "                               dx=self.wavelength,\n                               z=dz,", 'C02.freespace', 'free_space passes wavelength as dx'),
    ('variant', P, "    prefix = -1j*np.pi*wvl*z\n    tfx = np.exp(prefix*kxx)\n    tfy = np.exp(prefix*kyy)", "    tfx = np.exp(-1j*np.pi*(wvl*z)*kxx)\n    tfy = np.exp(kyy*(-1j*np.pi*wvl)*z)", '', 'transfer function inlined'),
    ('variant', F, "            normy = np.sqrt(alphay)  # square root for energy, instead of power\n            normx = np.sqrt(alphax)\n            Ein *= normy\n            Eout *= normx", "            normy = np.sqrt(alphay)\n            normx = np.sqrt(alphax)\n            Ein *= normx\n            Eout *= normy", '', 'normalisations attached to their own axis'),
]
