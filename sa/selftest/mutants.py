"""Discrimination run: seeded mutants must be reported, behaviour-preserving variants must stay silent.

Besides the hand-written catalogue (sa/selftest/cat_cXX.py) the run replays the changes under /verif/seeded that fresh
sub-agents produced from the property text alone (each confirmed against the real code: breaks the property, passes the
suite) and the behaviour-preserving variant patches kept there.

Each catalogue entry is a textual edit of one prysm source file, applied to a scratch copy of the
*current* tree (under $TMPDIR, removed immediately).  The analysis of the scratch copy is the very
same static check; nothing is executed.  Results are MUTANT-KILLED / VARIANT-SILENT lines; a
surviving mutant or a noisy variant is an ANALYSIS-ERROR (exit 2) because it means the checker lost
its discriminating power on this tree.  Entries whose anchor text is not present (tree edited) are
skipped and counted.
"""
import importlib
import io
import os
import shutil
import sys
import tempfile
from concurrent.futures import ProcessPoolExecutor
from contextlib import redirect_stdout


def _catalogue(prop):
    try:
        mod = importlib.import_module('sa.selftest.cat_%s' % prop.lower())
    except ImportError:
        return []
    return mod.CATALOGUE


SEEDED = os.path.join(os.path.dirname(os.path.dirname(os.path.dirname(os.path.abspath(__file__)))), 'seeded')


def _seeded(prop):
    """Seeded changes (written by fresh sub-agents, confirmed against the real code) that this property's check reports,
    and behaviour-preserving variant patches it must stay silent on: catalogue entries of kind 'seed' / 'seedvariant'."""
    import json
    out = []
    if not os.path.isdir(SEEDED):
        return out
    for name in sorted(os.listdir(SEEDED)):
        d = os.path.join(SEEDED, name)
        mp, pp = os.path.join(d, 'meta.json'), os.path.join(d, 'patch.diff')
        if not (os.path.isfile(mp) and os.path.isfile(pp)):
            continue
        try:
            meta = json.load(open(mp))
        except ValueError:
            continue
        if meta.get('kind') == 'variant':
            if prop in meta.get('silent_for', []):
                out.append(('seedvariant', pp, '', '', '', 'seeded/%s (behaviour-preserving): %s' % (name, meta.get('what', '')[:80])))
        elif prop in meta.get('caught_by', {}):
            out.append(('seed', pp, '', '', '', 'seeded/%s: %s' % (name, (meta.get('breaks') or '')[:80])))
    return out


def _run_one(job):
    prop, root, idx, entry = job
    kind, relfile, old, new, expect = entry[:5]
    text = None
    if kind in ('seed', 'seedvariant'):
        import subprocess
    else:
        src = os.path.join(root, relfile)
        try:
            text = open(src, encoding='utf-8').read()
        except OSError:
            return (idx, 'skipped', 'file missing')
        if text.count(old) != 1:
            return (idx, 'skipped', 'anchor text occurs %d times' % text.count(old))
    tmp = tempfile.mkdtemp(prefix='sa_mut_')
    try:
        shutil.copytree(os.path.join(root, 'prysm'), os.path.join(tmp, 'prysm'),
                        ignore=shutil.ignore_patterns('__pycache__', '*.pyc'))
        if kind in ('seed', 'seedvariant'):
            r = subprocess.run(['git', 'apply', '-p1', relfile], cwd=tmp, capture_output=True, text=True)
            if r.returncode != 0:
                return (idx, 'skipped', 'patch no longer applies')
            kind = 'mutant' if kind == 'seed' else 'variant'
        else:
            with open(os.path.join(tmp, relfile), 'w', encoding='utf-8') as fh:
                fh.write(text.replace(old, new))
        from sa.cli import run_property
        from sa.core.db import AnalysisError
        from sa.core.norm import NormError
        buf = io.StringIO()
        try:
            with redirect_stdout(buf):
                code, run = run_property(prop, 'quick', tmp, write_evidence=False, quiet=True)
            from sa.core import report
            known = {e['key'] for e in report.load_known() if e.get('kind') == 'known'}
            fkeys = [f for f in run.findings if f.key not in known]
            if run.errors and not fkeys:
                return (idx, 'error', 'analysis error: %s' % run.errors[0])
        except (AnalysisError, NormError) as e:
            return (idx, 'error', 'analysis error: %s' % e)
        except Exception as e:       # noqa
            return (idx, 'error', 'internal error: %r' % e)
        if kind == 'mutant':
            hits = [f for f in fkeys if (not expect or f.rule.startswith(expect))]
            if hits:
                return (idx, 'killed', '%s @ %s' % (hits[0].rule, hits[0].where))
            return (idx, 'survived', 'reported: %s' % [f.rule for f in fkeys])
        else:
            if fkeys:
                return (idx, 'noisy', '%s @ %s: %s' % (fkeys[0].rule, fkeys[0].where, fkeys[0].message[:200]))
            return (idx, 'silent', '')
    finally:
        shutil.rmtree(tmp, ignore_errors=True)


def discrimination(prop, root, jobs=None):
    cat = list(_catalogue(prop)) + _seeded(prop)
    if not cat:
        print('DISCRIMINATION %s: no catalogue' % prop)
        return 0
    jobs = jobs or min(16, os.cpu_count() or 4)
    work = [(prop, root, i, e) for i, e in enumerate(cat)]
    with ProcessPoolExecutor(max_workers=jobs) as ex:
        results = list(ex.map(_run_one, work))
    bad = 0
    counts = {}
    for (idx, status, detail), entry in zip(results, cat):
        counts[status] = counts.get(status, 0) + 1
        label = entry[5] if len(entry) > 5 else '%s: %s -> %s' % (entry[1], entry[2][:40], entry[3][:40])
        tag = {'killed': 'MUTANT-KILLED', 'silent': 'VARIANT-SILENT', 'skipped': 'SKIPPED',
               'survived': 'MUTANT-SURVIVED', 'noisy': 'VARIANT-NOISY', 'error': 'MUTANT-ERROR'}[status]
        print('%s %s #%d %s  [%s]' % (tag, prop, idx, label.replace('\n', ' '), detail))
        if status in ('survived', 'noisy') or (status == 'error' and entry[0] in ('variant', 'seedvariant')):
            bad += 1
        if status == 'error' and entry[0] == 'mutant' and len(entry) > 6 and entry[6] == 'exit2-ok':
            pass
        elif status == 'error' and entry[0] in ('mutant', 'seed'):
            bad += 1
    print('DISCRIMINATION %s: %s' % (prop, ', '.join('%s=%d' % kv for kv in sorted(counts.items()))))
    if bad:
        print('ANALYSIS-ERROR property=%s: discrimination run lost power on %d catalogue entries' % (prop, bad))
        return 2
    return 0


if __name__ == '__main__':
    sys.exit(discrimination(sys.argv[1], sys.argv[2] if len(sys.argv) > 2 else '/repo'))
