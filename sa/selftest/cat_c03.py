P = 'prysm/propagation.py'
CATALOGUE = [
    ('mutant', P, "    return (efl * wavelength) / (pupil_sample * samples)", "    return (efl * wavelength) / (pupil_sample * samples) / 1e3", 'C03.formula', 'pupil->psf spurious 1e3'),
    ('mutant', P, "    return (efl * wavelength) / (psf_sample * samples)", "    return (efl * wavelength * samples) / psf_sample", 'C03.formula', 'psf->pupil multiplies by samples'),
    ('mutant', P, "    resolution_element = (wavelength * prop_dist) / (input_diameter)", "    resolution_element = (wavelength * prop_dist) / (2 * input_diameter)", 'C03.', 'Q_for_sampling factor 2'),
    ('mutant', P, "            phase_prefix = 1j * 2 * np.pi / wavelength / 1e3  # / 1e3 does nm-to-um for phase on a scalar\n            P = amplitude", "            phase_prefix = 1j * 2 * np.pi / wavelength  # / 1e3 does nm-to-um for phase on a scalar\n            P = amplitude", 'C03.units', 'from_amp_and_phase loses nm->um'),
    ('mutant', P, "        w = wavelength / 1e3  # um -> mm", "        w = wavelength * 1e3  # um -> mm", 'C03.units', 'thin lens wavelength scaled the wrong way'),
    ('mutant', P, "    wvl = wvl / 1e3\n", "    wvl = wvl / 1e6\n", 'C03.units', 'free space wavelength unit'),
    ('mutant', P, "        data = focus_fixed_sampling(self.data,\n                                    input_dx=self.dx,\n                                    prop_dist=efl,\n                                    wavelength=self.wavelength,\n                                    output_dx=dx,",
     "        data = focus_fixed_sampling(self.data,\n                                    input_dx=dx,\n                                    prop_dist=efl,\n                                    wavelength=self.wavelength,\n                                    output_dx=dx,", 'C03.wrapper', 'wrapper passes dx twice'),
    ('mutant', P, "        return Wavefront(dx=dx, cmplx_field=data, wavelength=self.wavelength, space='psf')", "        return Wavefront(dx=self.dx, cmplx_field=data, wavelength=self.wavelength, space='psf')", 'C03.wrapper', 'result keeps the pupil dx'),
    ('mutant', P, "        dx = pupil_sample_to_psf_sample(self.dx, data.shape[1], self.wavelength, efl)", "        dx = pupil_sample_to_psf_sample(self.dx, self.data.shape[1], self.wavelength, efl)", 'C03.fftdx', 'focus dx from the unpadded length'),
    ('variant', P, "    return (efl * wavelength) / (pupil_sample * samples)", "    return wavelength / samples * efl / pupil_sample", '', 'formula reordered'),
    ('variant', P, "        term1 = -1j * 2 * np.pi / w\n", "        term1 = -2j * np.pi * (1 / w)\n", '', 'thin lens prefix rewritten'),
]
