F = 'prysm/x/polarization.py'
CATALOGUE = [
    ('mutant', F, "    vvr_rhs[..., 0, 0] = jcosr\n    vvr_rhs[..., 1, 1] = jcosr\n", "    vvr_rhs[..., 0, 0] = jcosr\n    vvr_rhs[..., 0, 0] = jcosr\n", 'C20.unitary', 'vortex [1,1] never stored (pinned defect)'),
    ('mutant', F, "    jones[..., 0, 1] = sint\n    jones[..., 1, 0] = -sint", "    jones[..., 0, 1] = sint\n    jones[..., 1, 0] = sint", 'C20.', 'rotation matrix not orthogonal'),
    ('mutant', F, "    retarder = derot @ jones @ rot", "    retarder = rot @ jones @ derot", 'C20.rotation', 'retarder rotated the wrong way'),
    ('mutant', F, "    jcosr = -1j*np.cos(retardance/2)", "    jcosr = -1j*np.cos(retardance)", 'C20.', 'vortex cos(retardance) instead of half'),
    ('mutant', F, "    c3 = 1j*(jones[..., 0, 1] - jones[..., 1, 0]) / 2", "    c3 = 1j*(jones[..., 0, 1] + jones[..., 1, 0]) / 2", 'C20.pauli', 'c3 sign'),
    ('mutant', F, "    U = np.array([[1, 0, 0, 1],\n                  [1, 0, 0, -1],", "    U = np.array([[1, 0, 0, -1],\n                  [1, 0, 0, 1],", 'C20.mueller', 'U rows 0/1 swapped'),
    ('mutant', F, "        jprod = np.kron(np.conj(jones), jones)", "        jprod = np.kron(jones, jones)", 'C20.mueller', 'kron without conj (non-broadcast path only)'),
    ('mutant', F, "        out[..., 0, 1] = tmp[1]\n        out[..., 1, 0] = tmp[2]", "        out[..., 0, 1] = tmp[2]\n        out[..., 1, 0] = tmp[1]", 'C20.adapter', 'adapter swaps off-diagonal components'),
    ('mutant', F, "    return linear_retarder(np.pi / 2, theta=theta, shape=shape)", "    return linear_retarder(np.pi / 4, theta=theta, shape=shape)", 'C20.wrappers', 'quarter wave plate retardance'),
    ('mutant', F, "    return tmp.reshape([*a.shape[:-2], a.shape[-2]*b.shape[-2], a.shape[-1]*b.shape[-1]])", "    return tmp.reshape([*a.shape[:-2], a.shape[-1]*b.shape[-1], a.shape[-2]*b.shape[-2]]).swapaxes(-1, -2)", 'C20.mueller', 'broadcast kron transposed', 'exit2-ok'),
    ('variant', F, "    cost = np.cos(theta)\n    sint = np.sin(theta)\n    jones[..., 0, 0] = cost\n    jones[..., 0, 1] = sint\n    jones[..., 1, 0] = -sint\n    jones[..., 1, 1] = cost",
     "    jones[..., 1, 1] = np.cos(theta)\n    jones[..., 1, 0] = -np.sin(theta)\n    jones[..., 0, 1] = np.sin(theta)\n    jones[..., 0, 0] = np.cos(theta)", '', 'rotation matrix stores reordered'),
    ('variant', F, "    c0 = (jones[..., 0, 0] + jones[..., 1, 1]) / 2", "    c0 = 0.5 * (jones[..., 1, 1] + jones[..., 0, 0])", '', 'c0 rewritten'),
]
