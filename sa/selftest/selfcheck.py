"""setup_cmd: parse the tree, run the positive fixtures of the engines (nothing to build)."""
from ..core.db import DB
from ..core.norm import Ring, Rat


def main(root):
    db = DB(root)
    print('parsed %d modules of %s (digest %s)' % (len(db.modules), root, db.digest()))
    R = Ring()
    th = R.atom('th')
    s, c = R.trig('sin', th), R.trig('cos', th)
    assert s * s + c * c == 1
    e = R.exp(R.I * th)
    assert e * e.conj() == 1
    a = R.atom('a')
    assert R.sqrt(a) * R.sqrt(a) == a
    assert not (Rat(a + 1) == Rat(a))
    from ..domains import index as _index   # noqa: F401  (import check)
    from . import interp_fixture
    n = interp_fixture.main(db)
    print('interpreter fixture: %d functions of the toy module evaluate to their stated values' % n)
    n = interp_fixture.file_fixture(db)
    print('FILE fixture: %d toy writer/reader pairs (binary correct: composes; binary with a byte-order and a header slip: reported; text: composes)' % n)
    print('engine fixtures ok')
    return 0
