J = 'prysm/polynomials/jacobi.py'
H = 'prysm/polynomials/hermite.py'
L = 'prysm/polynomials/laguerre.py'
Q = 'prysm/polynomials/qpoly.py'
Z = 'prysm/polynomials/zernike.py'
S = 'prysm/x/raytracing/surfaces.py'
CH = 'prysm/polynomials/cheby.py'
CATALOGUE = [
    ('mutant', J, "        alphas[jj][M-jj] = jj * a * alphas[jj-1][M-jj+1]", "        alphas[jj][M-jj] = j * a * alphas[jj-1][M-jj+1]", 'C09.seed', 'jacobi clenshaw der seed uses j (pinned defect)'),
    ('mutant', Q, "        alphas[jj][M-jj] = -4 * jj * alphas[jj-1][M-jj+1]", "        alphas[jj][M-j] = -4 * jj * alphas[jj-1][M-jj+1]", 'C09.seed', 'qbfs seed index M-j (pinned defect)'),
    ('mutant', Q, "            alphas[jj][n] = jj * b * alphas[jj-1][n+1] + (a + b * x) * alphas[jj][n+1] - c * alphas[jj][n+2]", "            alphas[jj][n] = jj * a * alphas[jj-1][n+1] + (a + b * x) * alphas[jj][n+1] - c * alphas[jj][n+2]", 'C09.seed', 'q2d step differentiates the wrong coefficient'),
    ('mutant', J, "    coef = 0.5 * (n + alpha + beta + 1)\n    return coef * Pn", "    coef = 0.5 * (n + alpha + beta + 2)\n    return coef * Pn", 'C09.id', 'jacobi_der coefficient'),
    ('mutant', J, "    Pn = jacobi(n-1, alpha+1, beta+1, x)\n    coef", "    Pn = jacobi(n-1, alpha+1, beta, x)\n    coef", 'C09.id', 'jacobi_der shifts only alpha'),
    ('mutant', H, "    return 2 * n * hermite_H(n-1, x)", "    return n * hermite_H(n-1, x)", 'C09.id', 'H_der loses the 2'),
    ('mutant', L, "    return -laguerre(n-k, alpha+k, x)", "    return laguerre(n-k, alpha+k, x)", 'C09.id', 'laguerre_der sign (pinned defect)'),
    ('mutant', CH, "    c = (n+1) / jacobi(n, .5, .5, 1)  # single div, many mul\n    return jacobi_der(n, .5, .5, x) * c", "    c = n / jacobi(n, .5, .5, 1)  # single div, many mul\n    return jacobi_der(n, .5, .5, x) * c", 'C09.id', 'cheby2_der constant differs from cheby2'),
    ('mutant', Z, "    dv = (4*r) * jacobi_der(n_j, 0, am, x)", "    dv = (2*r) * jacobi_der(n_j, 0, am, x)", 'C09.rule', 'zernike chain rule factor'),
    ('mutant', Z, "            dt = -m * np.sin(m*t)", "            dt = m * np.sin(m*t)", 'C09.rule', 'zernike azimuthal derivative sign'),
    ('mutant', Z, "        du = am * r ** (am-1)", "        du = am * r ** am", 'C09.rule', 'zernike radial power derivative'),
    ('mutant', S, "        phi = np.sqrt(1 - (1+kappa) * csq * rhosq)\n\n    return (c * rho) / phi", "        phi = np.sqrt(1 - kappa * csq * rhosq)\n\n    return (c * rho) / phi", 'C09.rule', 'conic slope uses a different phi'),
    ('mutant', Q, "    dprefix = 2 * u - 4 * (usq * u)", "    dprefix = 2 * u - 2 * (usq * u)", 'C09.rule', 'Qbfs prefix derivative'),
    ('mutant', Q, "    Sprime *= 4  # this 4 u is not the same 4u as Qbfs", "    Sprime *= 2  # this 4 u is not the same 4u as Qbfs", 'C09.rule', 'Qcon chain factor'),
    ('variant', Z, "        dr = v * du + u * dv", "        dr = dv * u + du * v", '', 'product rule reordered'),
    ('variant', S, "    return (c * rho) / phi\n\n\ndef conic_sag(", "    return c * (rho / phi)\n\n\ndef conic_sag(", '', 'sphere slope regrouped'),
]
