J = 'prysm/polynomials/jacobi.py'
Q = 'prysm/polynomials/qpoly.py'
I = 'prysm/polynomials/__init__.py'
CATALOGUE = [
    ('mutant', J, "    alphas[M] = s[M]\n    if M == 0:\n        # a single term: s[0] * P_0, and P_0 = 1\n        return alphas[0]\n\n", "    alphas[M] = s[M]\n", 'C10.len1', 'jacobi clenshaw without the length-1 guard (pinned defect)'),
    ('mutant', J, "        _, _, c = recurrence_abc(n+1, alpha, beta)\n        alphas[n] = s[n] + (a * x + b) * alphas[n+1] - c * alphas[n+2]", "        _, _, c = recurrence_abc(n, alpha, beta)\n        alphas[n] = s[n] + (a * x + b) * alphas[n+1] - c * alphas[n+2]", 'C10.clenshaw', 'c taken from n instead of n+1'),
    ('mutant', J, "    alphas[M-1] = s[M-1] + (a * x + b) * s[M]\n", "    alphas[M-1] = s[M-1] + (a * x - b) * s[M]\n", 'C10.clenshaw', 'top-but-one entry differs from the step'),
    ('mutant', J, "    for n in range(M-2, -1, -1):\n        a, b, _ = recurrence_abc(n, alpha, beta)", "    for n in range(M-2, 0, -1):\n        a, b, _ = recurrence_abc(n, alpha, beta)", 'C10.clenshaw', 'sweep stops at index 1'),
    ('mutant', Q, "        alphas[i] = bs[i] + prefix * alphas[i+1] - alphas[i+2]", "        alphas[i] = bs[i] + prefix * alphas[i+1] + alphas[i+2]", 'C10.clenshaw', 'qbfs step sign'),
    ('mutant', Q, "    x = usq\n    if len(cs) == 1:\n        # the sum needs alphas[0] and alphas[1]: a single coefficient is\n        # the same surface as that coefficient followed by a zero\n        cs = (*cs, 0)\n\n", "    x = usq\n", 'C10.len1', 'qbfs clenshaw without padding (pinned defect)'),
    ('mutant', Q, "        alphas[n] = ds[n] + (A + B * x) * alphas[n+1] - C * alphas[n+2]", "        alphas[n] = ds[n+1] + (A + B * x) * alphas[n+1] - C * alphas[n+2]", 'C10.clenshaw', 'q2d step reads the wrong coefficient'),
    ('mutant', Q, "        if len(a_coef) == 0 and len(b_coef) == 0:\n            continue", "        if len(a_coef) == 0:\n            continue", 'C10.sym', 'one-sided guard (pinned defect)'),
    ('mutant', Q, "        if len(b_coef) > 0:\n            Nb = len(b_coef) - 1", "        if True:\n            Nb = len(b_coef) - 1", 'C10.sym', 'sine family summed unguarded'),
    ('mutant', Q, "    max_m = max([0, *ac.keys(), *bc.keys()])", "    max_m = max(max(ac.keys()), max(bc.keys()))", 'C10.pack', 'max of an empty family (pinned defect)'),
    ('mutant', I, "    modes = modes[:, mask.ravel()].T  # transpose moves modes to columns, as needed for least squares fit", "    modes = modes.T  # transpose moves modes to columns, as needed for least squares fit", 'C10.lstsq', 'modes not masked'),
    ('mutant', I, "    return np.tensordot(modes, weights, axes=(0, 0))", "    return np.tensordot(modes, weights, axes=(1, 0))", 'C10.tensordot', 'contraction over a spatial axis'),
    ('variant', J, "        alphas[n] = s[n] + (a * x + b) * alphas[n+1] - c * alphas[n+2]\n\n    return alphas[0]", "        alphas[n] = (b + x * a) * alphas[n+1] + (s[n] - alphas[n+2] * c)\n\n    return alphas[0]", '', 'step rearranged'),
]
