J = 'prysm/polynomials/jacobi.py'
Q = 'prysm/polynomials/qpoly.py'
I = 'prysm/polynomials/__init__.py'
QP = 'prysm/polynomials/qpoly.py'
CATALOGUE = [
    ('mutant', J, "    alphas[M] = s[M]\n    if M == 0:\n        # a single term: s[0] * P_0, and P_0 = 1\n        return alphas[0]\n\n", "    alphas[M] = s[M]\n", 'C10.len1', 'jacobi clenshaw without the length-1 guard (pinned defect)'),
    ('mutant', J, "        _, _, c = recurrence_abc(n+1, alpha, beta)\n        alphas[n] = s[n] + (a * x + b) * alphas[n+1] - c * alphas[n+2]", "        _, _, c = recurrence_abc(n, alpha, beta)\n        alphas[n] = s[n] + (a * x + b) * alphas[n+1] - c * alphas[n+2]", 'C10.clenshaw', 'c taken from n instead of n+1'),
    ('mutant', J, "    alphas[M-1] = s[M-1] + (a * x + b) * s[M]\n", "    alphas[M-1] = s[M-1] + (a * x - b) * s[M]\n", 'C10.clenshaw', 'top-but-one entry differs from the step'),
    ('mutant', J, "    for n in range(M-2, -1, -1):\n        a, b, _ = recurrence_abc(n, alpha, beta)", "    for n in range(M-2, 0, -1):\n        a, b, _ = recurrence_abc(n, alpha, beta)", 'C10.clenshaw', 'sweep stops at index 1'),
    ('mutant', Q, "        alphas[i] = bs[i] + prefix * alphas[i+1] - alphas[i+2]", "        alphas[i] = bs[i] + prefix * alphas[i+1] + alphas[i+2]", 'C10.clenshaw', 'qbfs step sign'),
    ('mutant', Q, "    x = usq\n    if len(cs) == 1:\n        # the sum needs alphas[0] and alphas[1]: a single coefficient is\n        # the same surface as that coefficient followed by a zero\n        cs = (*cs, 0)\n\n", "    x = usq\n", 'C10.len1', 'qbfs clenshaw without padding (pinned defect)'),
    ('mutant', Q, "        alphas[n] = ds[n] + (A + B * x) * alphas[n+1] - C * alphas[n+2]", "        alphas[n] = ds[n+1] + (A + B * x) * alphas[n+1] - C * alphas[n+2]", 'C10.clenshaw', 'q2d step reads the wrong coefficient'),
    ('mutant', Q, "        if len(a_coef) == 0 and len(b_coef) == 0:\n            continue", "        if len(a_coef) == 0:\n            continue", 'C10.sym', 'one-sided guard (pinned defect)'),
    ('mutant', Q, "        if len(b_coef) > 0:\n            Nb = len(b_coef) - 1", "        if True:\n            Nb = len(b_coef) - 1", 'C10.sym', 'sine family summed unguarded'),
    ('mutant', Q, "    max_m = max([0, *ac.keys(), *bc.keys()])", "    max_m = max(max(ac.keys()), max(bc.keys()))", 'C10.pack', 'max of an empty family (pinned defect)'),
    ('mutant', I, "    modes = modes[:, mask.ravel()].T  # transpose moves modes to columns, as needed for least squares fit", "    modes = modes.T  # transpose moves modes to columns, as needed for least squares fit", 'C10.lstsq', 'modes not masked'),
    ('mutant', I, "    return np.tensordot(modes, weights, axes=(0, 0))", "    return np.tensordot(modes, weights, axes=(1, 0))", 'C10.tensordot', 'contraction over a spatial axis'),
    ('variant', J, "        alphas[n] = s[n] + (a * x + b) * alphas[n+1] - c * alphas[n+2]\n\n    return alphas[0]", "        alphas[n] = (b + x * a) * alphas[n+1] + (s[n] - alphas[n+2] * c)\n\n    return alphas[0]", '', 'step rearranged'),
    # change of basis / assembly
    ('mutant', QP, '        g = g_qbfs(i)\n        h = h_qbfs(i)\n        f = f_qbfs(i)\n        bs[i] = (cs[i] - g * bs[i+1] - h*bs[i+2])/f\n', '        g = g_qbfs(i)\n        h = h_qbfs(i+1)\n        f = f_qbfs(i)\n        bs[i] = (cs[i] - g * bs[i+1] - h*bs[i+2])/f\n', 'C10.basis', 'Qbfs change of basis: h taken at i+1'),
    ('mutant', QP, '    g = g_qbfs(M-1)\n    f = f_qbfs(M-1)\n    bs[M-1] = (cs[M-1] - g * bs[M])/f\n', '    g = g_qbfs(M-1)\n    f = f_qbfs(M)\n    bs[M-1] = (cs[M-1] - g * bs[M])/f\n', 'C10.basis', 'Qbfs change of basis: second entry divided by f_M'),
    ('mutant', QP, '        ds[n] = (cs[n] - g_q2d(n, m) * ds[n+1]) / f_q2d(n, m)\n', '        ds[n] = (cs[n] - g_q2d(n+1, m) * ds[n+1]) / f_q2d(n, m)\n', 'C10.basis', 'Q2d change of basis: g taken at n+1'),
    ('mutant', QP, '    if m < 0:\n        m = -m\n\n    cs = cns\n', '    cs = cns\n', 'C10.basis', 'Q2d change of basis: negative m not folded'),
    ('mutant', QP, '    S = 2 * (alphas[0] + alphas[1])\n    return (x * (1 - x)) * S\n', '    S = 2 * alphas[0] + alphas[1]\n    return (x * (1 - x)) * S\n', 'C10.assembly', 'clenshaw_qbfs: alpha_1 weight'),
    ('mutant', QP, '        if n == 1:\n            return -4/3, -8/3, -11/3\n', '        if n == 1:\n            return -4/3, -8/3, 11/3\n', 'C10.assembly', 'effective C_1^1 sign'),
    ('mutant', QP, '                Sa -= 2/5 * alphas_a[0][3]\n', '                Sa -= 2/3 * alphas_a[0][3]\n', 'C10.assembly', 'm = 1 correction constant'),
    ('mutant', QP, '    if m == 2 and n == 0:\n        return 3, -2, 0\n', '    if m == 2 and n == 0:\n        return 3, -1, 0\n', 'C10.assembly', 'effective B_0^2'),
    ('variant', QP, '        bs[i] = (cs[i] - g * bs[i+1] - h*bs[i+2])/f\n', '        bs[i] = (cs[i] - (h*bs[i+2] + bs[i+1]*g)) * (1/f)\n', '', 'Qbfs change of basis rearranged'),
]
