C = 'prysm/convolution.py'
O = 'prysm/otf.py'
CATALOGUE = [
    ('mutant', C, "    i = fft.ifft2(O).real\n    return i\n", "    i = fft.fftshift(fft.ifft2(O).real)\n    return i\n", 'C15.origin', 'unshifted path ends with fftshift (pinned defect)'),
    ('mutant', C, "            fy, fx = [forward_ft_unit(dx, n, shift=shift) for n in obj.shape]", "            fy, fx = [forward_ft_unit(dx, n) for n in obj.shape]", 'C15.grid', 'callables get centred grids in the unshifted convention (pinned defect)'),
    ('mutant', C, "    i = fft.fftshift(fft.ifft2(O*H)).real  # i = image", "    i = fft.ifftshift(fft.ifft2(O*H)).real  # i = image", 'C15.origin', 'conv output ifftshift (odd sizes)'),
    ('mutant', C, "    H = fft.fft2(fft.ifftshift(h))", "    H = fft.fft2(fft.fftshift(h))", 'C15.origin', 'conv PSF pre-shift wrong for odd sizes'),
    ('mutant', C, "        return fft.fftshift(fft.ifft2(fft.ifftshift(O))).real", "        return fft.fftshift(fft.ifft2(fft.fftshift(O))).real", 'C15.origin', 'shifted path un-shifts the spectrum the wrong way (odd)'),
    ('mutant', C, "        O = O * tf  # NOQA\n", "        O = O * tf  # NOQA\n        break\n", 'C15.fold', 'only the first transfer function is applied'),
    ('mutant', O, "    data = fft.fftshift(fft.fft2(fft.ifftshift(psf)))", "    data = fft.fftshift(fft.fft2(psf))", 'C15.origin', 'OTF without pre-shift (linear phase in PTF)'),
    ('mutant', O, "    dat = abs(data)\n    dat /= dat[cy, cx]", "    dat = abs(data)\n    dat /= dat.max()", 'C15.dc', 'MTF normalised by its maximum'),
    ('mutant', O, "    cy, cx = (int(np.floor(s / 2)) for s in data.shape)\n    data /= data[cy, cx]\n    return RichData(data=data", "    cy, cx = (int(np.ceil(s / 2)) for s in data.shape)\n    data /= data[cy, cx]\n    return RichData(data=data", 'C15.dc', 'OTF DC index ceil'),
    ('variant', C, "    O = fft.fft2(fft.ifftshift(o))  # NOQA : O ambiguous (not, lowercase => uppercase notation)\n    H = fft.fft2(fft.ifftshift(h))\n    i = fft.fftshift(fft.ifft2(O*H)).real  # i = image",
     "    prod = fft.fft2(fft.ifftshift(h)) * fft.fft2(fft.ifftshift(o))\n    i = fft.fftshift(fft.ifft2(prod).real)", '', 'conv refactored'),
]
