"""ORIGIN -- origin typestate of FFT pipelines, per parity class of the length.

An array value is (o, r): its origin sample sits at index o and it carries a linear phase ramp r
(equivalently: its spectrum's DC would sit at index r).  Indices are u*a + w (mod n) with n = 2a + p.
fftshift: o += n//2; ifftshift: o -= n//2; fft: (o, r) -> (r, -o); ifft: (o, r) -> (-r, o);
products add ramps and need equal origins; abs()/abs()**2 clear the ramp; conj negates it.
"""
import ast

from ..core.interp import Domain, Value, Const, Tup, Unknown, ExtRef


class Ix:
    """u*a + w modulo n = 2a + p."""
    __slots__ = ('u', 'w', 'p')

    def __init__(self, u, w, p):
        if p == 0:
            u %= 2
        else:
            while u >= 2:
                u -= 2
                w -= 1
            while u < 0:
                u += 2
                w += 1
        self.u, self.w, self.p = u, w, p

    def __add__(self, o):
        return Ix(self.u + o.u, self.w + o.w, self.p)

    def __neg__(self):
        return Ix(-self.u, -self.w, self.p)

    def __sub__(self, o):
        return self + (-o)

    def __eq__(self, o):
        return isinstance(o, Ix) and (self.u, self.w, self.p) == (o.u, o.w, o.p)

    def __hash__(self):
        return hash((self.u, self.w, self.p))

    def is_zero(self):
        return self.u == 0 and self.w == 0

    def __repr__(self):
        if self.u == 0:
            return str(self.w)
        return ('a' if self.u == 1 else '%da' % self.u) + ('%+d' % self.w if self.w else '')


def half(p):
    return Ix(1, 0, p)          # n//2 == a for both parities


class Og(Value):
    def __init__(self, o, r, kind='space', note=''):
        self.o, self.r, self.kind, self.note = o, r, kind, note

    def __repr__(self):
        return 'Og(origin=%r, ramp=%r)' % (self.o, self.r)

    def __eq__(self, o):
        return isinstance(o, Og) and (self.o, self.r) == (o.o, o.r)

    def __hash__(self):
        return hash((self.o, self.r))


class Real(Value):
    """A scalar / array without origin semantics (constants, scalars): transparent in products."""

    def __repr__(self):
        return 'Real'

    def __eq__(self, o):
        return isinstance(o, Real)

    def __hash__(self):
        return 1


class LenTok(Real):
    """the length n = 2a + p of an axis (an entry of .shape)"""

    def __repr__(self):
        return 'n'


class NegLen(Real):
    """-n"""

    def __repr__(self):
        return '-n'


class HalfReal(Real):
    """n / 2 (true division): a + p/2"""

    def __repr__(self):
        return 'n/2'


class IxV(Value):
    """an integer position u*a + w computed from the length of the axis"""

    def __init__(self, ix):
        self.ix = ix

    def __repr__(self):
        return 'IxV(%r)' % (self.ix,)


class OriginDomain(Domain):
    name = 'ORIGIN'

    def __init__(self, parity):
        self.p = parity
        self.problems = []

    def centred(self):
        return Og(half(self.p), Ix(0, 0, self.p))

    def at_zero(self):
        return Og(Ix(0, 0, self.p), Ix(0, 0, self.p))

    def param(self, fi, name, default):
        return Real()

    def call_ext(self, dotted, args, kwargs, node):
        last = dotted.rsplit('.', 1)[-1]
        a0 = args[0] if args else None
        if dotted == 'builtins.callable' and isinstance(a0, (Og, Real)):
            return Const(False)
        # positions computed from the shape: n//2 = a, floor(n/2) = a, ceil(n/2) = a + p, -n//2 = -(a + p)
        if last == 'floor' and isinstance(a0, HalfReal):
            return IxV(half(self.p))
        if last == 'ceil' and isinstance(a0, HalfReal):
            return IxV(Ix(1, self.p, self.p))
        if last == 'int' and isinstance(a0, (IxV, HalfReal)):
            return a0 if isinstance(a0, IxV) else IxV(half(self.p))
        if last in ('round', 'rint', 'around') and isinstance(a0, HalfReal):
            # n even: n/2 exactly.  n odd: a + 1/2 rounds to the even neighbour, which is a + 1 whenever a is odd
            return IxV(half(self.p) if self.p == 0 else Ix(1, 1, self.p))
        if last == 'roll' and isinstance(a0, Og):
            sh = args[1] if len(args) > 1 else kwargs.get('shift')
            items = sh.items if isinstance(sh, Tup) else [sh]
            ixs = []
            for x in items:
                if isinstance(x, IxV):
                    ixs.append(x.ix)
                elif isinstance(x, Const) and isinstance(x.v, int) and not isinstance(x.v, bool):
                    ixs.append(Ix(0, x.v, self.p))
                else:
                    return Unknown('roll by an amount that is not followed')
            if not ixs or any(i != ixs[0] for i in ixs):
                return Unknown('roll by different amounts per axis')
            self.interp.emit('shift', which='roll', node=node, before=a0)
            return Og(a0.o + ixs[0], a0.r, a0.kind)
        if last in ('fftshift', 'ifftshift') and isinstance(a0, Og):
            if 'axes' in kwargs or len(args) > 1:
                return Unknown('shift with axes')
            h = half(self.p)
            self.interp.emit('shift', which=last, node=node, before=a0)
            return Og(a0.o + h if last == 'fftshift' else a0.o - h, a0.r, a0.kind)
        if last in ('fft2', 'fft', 'fftn', 'ifft2', 'ifft', 'ifftn') and dotted.startswith(('scipy.fft', 'numpy.fft')) and isinstance(a0, Og):
            self.interp.emit('fft', which=last, node=node, before=a0, norm=kwargs.get('norm'), s=kwargs.get('s', args[1] if len(args) > 1 else None))
            if last.startswith('i'):
                return Og(-a0.r, a0.o, 'space')
            return Og(a0.r, -a0.o, 'freq')
        if last == 'fftfreq':
            return Og(Ix(0, 0, self.p), Ix(0, 0, self.p), 'freqaxis')
        if last in ('abs', 'absolute') and isinstance(a0, Og):
            return Og(a0.o, Ix(0, 0, self.p), a0.kind)
        if last in ('conj', 'conjugate') and isinstance(a0, Og):
            return Og(a0.o, -a0.r, a0.kind)
        if last in ('real', 'imag') and isinstance(a0, Og):
            return self._real(a0, node)
        if last in ('asarray', 'array', 'copy', 'ascontiguousarray', 'astype', 'sqrt', 'float64', 'float32') and isinstance(a0, Og):
            return a0
        if last in ('isfinite', 'isnan') and isinstance(a0, Og):
            return Og(a0.o, Ix(0, 0, self.p), a0.kind)
        if last == 'meshgrid' and args and all(isinstance(a, Og) for a in args):
            return Tup(list(args))
        if last in ('hypot', 'arctan2') and len(args) == 2 and all(isinstance(a, Og) for a in args):
            return self.binop(ast.Mult(), args[0], args[1], node)
        if last in ('ones', 'zeros', 'ones_like', 'zeros_like', 'empty', 'full'):
            return Real()
        if last == 'iscomplexobj':
            return Unknown('iscomplexobj')
        if last == 'outer' and len(args) == 2 and all(isinstance(a, Og) for a in args):
            return self.binop(ast.Mult(), args[0], args[1], node)
        return None

    def _real(self, v, node):
        self.interp.emit('real', node=node, value=v)
        if not v.r.is_zero():
            self.interp.emit('real-of-ramped', node=node, value=v)
        return v

    def getattr(self, v, name, node):
        if isinstance(v, Og):
            if name in ('real', 'imag'):
                return self._real(v, node)
            if name in ('T',):
                return v
            if name == 'shape':
                return Tup([LenTok(), LenTok()])
            if name in ('dtype', 'ndim', 'size'):
                return Real()
        if isinstance(v, Real):
            return Real()
        return None

    def method(self, v, name, args, kwargs, node):
        if isinstance(v, Og):
            if name in ('astype', 'copy'):
                return v
            if name in ('conj', 'conjugate'):
                return Og(v.o, -v.r, v.kind)
            if name in ('sum', 'mean', 'max', 'min', 'std', 'var', 'any', 'all') and not args and not kwargs:
                return Real()
        if isinstance(v, Real):
            return Real()
        return None

    def binop(self, op, a, b, node):
        if isinstance(b, Const) and b.v == 2 and not isinstance(b.v, bool):
            if isinstance(a, LenTok):
                if isinstance(op, ast.FloorDiv):
                    return IxV(half(self.p))
                if isinstance(op, ast.Div):
                    return HalfReal()
            if isinstance(a, NegLen) and isinstance(op, ast.FloorDiv):
                return IxV(Ix(-1, -self.p, self.p))
        if isinstance(a, IxV) or isinstance(b, IxV):
            ia = a.ix if isinstance(a, IxV) else (Ix(0, a.v, self.p) if isinstance(a, Const) and isinstance(a.v, int) and not isinstance(a.v, bool) else None)
            ib = b.ix if isinstance(b, IxV) else (Ix(0, b.v, self.p) if isinstance(b, Const) and isinstance(b.v, int) and not isinstance(b.v, bool) else None)
            if ia is not None and ib is not None and isinstance(op, (ast.Add, ast.Sub)):
                return IxV(ia + ib if isinstance(op, ast.Add) else ia - ib)
            return Unknown('index arithmetic that is not followed')
        if isinstance(a, Og) and isinstance(b, Og):
            if isinstance(op, (ast.Mult, ast.Div, ast.Add, ast.Sub)):
                if a.o != b.o:
                    self.interp.emit('origin-mismatch', node=node, a=a, b=b)
                    return Unknown('operands with different origins')
                if isinstance(op, ast.Mult):
                    return Og(a.o, a.r + b.r, a.kind)
                if isinstance(op, ast.Div):
                    return Og(a.o, a.r - b.r, a.kind)
                if a.r != b.r:
                    return Unknown('sum of differently ramped arrays')
                return a
        x = a if isinstance(a, Og) else (b if isinstance(b, Og) else None)
        other = b if x is a else a
        if x is not None and isinstance(other, (Real, Const)):
            if isinstance(op, ast.Pow) and x is a:
                if isinstance(other, Const) and isinstance(other.v, int) and other.v >= 0:
                    r = Ix(0, 0, self.p)
                    for _ in range(other.v):
                        r = r + x.r
                    return Og(x.o, r, x.kind)
                return x if x.r.is_zero() else Unknown('power of ramped')
            if isinstance(op, (ast.Mult, ast.Div, ast.Add, ast.Sub, ast.MatMult)):
                return x
        if isinstance(a, (Real, Const)) and isinstance(b, (Real, Const)) and (isinstance(a, Real) or isinstance(b, Real)):
            return Real()
        return None

    def unary(self, op, a, node):
        if isinstance(op, ast.USub):
            if isinstance(a, LenTok):
                return NegLen()
            if isinstance(a, NegLen):
                return LenTok()
            if isinstance(a, IxV):
                return IxV(-a.ix)
            if isinstance(a, HalfReal):
                return Real()
        if isinstance(a, (Og, Real)):
            return a
        return None

    def compare(self, op, a, b, node):
        return None

    def subscript(self, v, idx, node):
        if isinstance(v, Real):
            return Real()
        return None

    def augassign(self, op, target, val, node):
        return None

    def truth(self, v):
        return None

    def iterate(self, v, node):
        if isinstance(v, Real) and not isinstance(v, (LenTok, NegLen, HalfReal)):
            return [Real(), Real()]        # a shape pair
        return None

    def join(self, values):
        first = values[0]
        if all(v == first for v in values[1:]):
            return first
        return Unknown('join')
