"""PRED -- elementwise predicates over NORM expressions (masks as formulas).

A comparison whose operands depend on a declared coordinate atom becomes a predicate value instead of a branch:
    a <= b  ->  Cmp('<=0', a - b)      a < b  ->  Cmp('<0', a - b)      (>=, > by swapping)
`&`, `|`, `~` build And/Or/Not over predicates (And/Or flattened, order-free).  `mask[pred] = v` is recorded as an event.
Scalar comparisons (no coordinate atom involved) keep the NORM behaviour (decided or forked).
"""
import ast
import re

from ..core.interp import Value, Const, Unknown
from .normdom import NormDomain, Sym
from ..core.norm import Rat


class Pred(Value):
    """kind in {'cmp', 'and', 'or', 'not', 'const'}."""
    __slots__ = ('kind', 'args')

    def __init__(self, kind, args):
        self.kind, self.args = kind, args

    def key(self):
        if self.kind == 'cmp':
            return '%s[%s]' % (self.args[0], self.args[1].key())
        if self.kind == 'not':
            return 'not(%s)' % self.args[0].key()
        if self.kind == 'const':
            return str(self.args[0])
        return '%s(%s)' % (self.kind, ', '.join(sorted(a.key() for a in self.args)))

    def __repr__(self):
        return 'Pred<%s>' % self.key()

    def __eq__(self, o):
        return isinstance(o, Pred) and self.key() == o.key()

    def __hash__(self):
        return hash(self.key())


def _pure_abs(dom, r):
    """the argument e when r is exactly |e| (one abs atom, coefficient 1), else None"""
    ats = sorted(r.atoms())
    if len(ats) == 1 and ats[0].startswith('abs(') and r == Rat(dom.R.atom(ats[0])):
        info = dom.R.info.get(ats[0])
        if info and info[0] == 'abs' and len(info[1]) == 1:
            e = info[1][0]
            return e if isinstance(e, Rat) else Rat(e)
    return None


def cmp_pred(dom, op, ra, rb):
    """Canonical comparison predicate of two Rats.  |e| <= b is -b <= e <= b and |e| >= b is e >= b or e <= -b (any real b), so a
    region written with an absolute value and the one written with two one-sided tests have one normal form."""
    if isinstance(op, (ast.LtE, ast.Lt, ast.GtE, ast.Gt)):
        ea, eb = _pure_abs(dom, ra), _pure_abs(dom, rb)
        if ea is not None and eb is None:
            if isinstance(op, (ast.LtE, ast.Lt)):
                return p_and(cmp_pred(dom, op, ea, rb), cmp_pred(dom, op, -ea, rb))
            return p_or(cmp_pred(dom, op, ea, rb), cmp_pred(dom, op, -ea, rb))
        if eb is not None and ea is None:
            if isinstance(op, (ast.GtE, ast.Gt)):          # a >= |e|
                return p_and(cmp_pred(dom, op, ra, eb), cmp_pred(dom, op, ra, -eb))
            return p_or(cmp_pred(dom, op, ra, eb), cmp_pred(dom, op, ra, -eb))
    if isinstance(op, ast.LtE):
        return Pred('cmp', ('<=0', ra - rb))
    if isinstance(op, ast.Lt):
        return Pred('cmp', ('<0', ra - rb))
    if isinstance(op, ast.GtE):
        return Pred('cmp', ('<=0', rb - ra))
    if isinstance(op, ast.Gt):
        return Pred('cmp', ('<0', rb - ra))
    if isinstance(op, ast.Eq):
        return Pred('cmp', ('==0', ra - rb))
    return None


def p_and(*ps):
    flat = []
    for p in ps:
        flat.extend(p.args if p.kind == 'and' else [p])
    uniq = {p.key(): p for p in flat}
    return Pred('and', tuple(uniq[k] for k in sorted(uniq))) if len(uniq) > 1 else list(uniq.values())[0]


def p_or(*ps):
    flat = []
    for p in ps:
        flat.extend(p.args if p.kind == 'or' else [p])
    uniq = {p.key(): p for p in flat}
    return Pred('or', tuple(uniq[k] for k in sorted(uniq))) if len(uniq) > 1 else list(uniq.values())[0]


def p_not(p):
    if p.kind == 'not':
        return p.args[0]
    if p.kind == 'cmp':
        kind, d = p.args
        if kind == '<=0':
            return Pred('cmp', ('<0', -d))           # not (d <= 0)  ==  -d < 0
        if kind == '<0':
            return Pred('cmp', ('<=0', -d))
    return Pred('not', (p,))


class PredDomain(NormDomain):
    name = 'PRED'

    def __init__(self, coords=('x', 'y', 'r', 't')):
        NormDomain.__init__(self)
        self.coords = set(coords)
        self._rx = re.compile(r'(?<![A-Za-z0-9_])(%s)(?![A-Za-z0-9_])' % '|'.join(sorted(self.coords)))

    def depends(self, r):
        return bool(self._rx.search(r.key()))

    def compare(self, op, a, b, node):
        ra, rb = self.rat(a), self.rat(b)
        if ra is not None and rb is not None and (self.depends(ra) or self.depends(rb)):
            p = cmp_pred(self, op, ra, rb)
            if p is not None:
                return p
            return None
        return NormDomain.compare(self, op, a, b, node)

    def binop(self, op, a, b, node):
        if isinstance(a, Pred) and isinstance(b, Pred):
            if isinstance(op, ast.BitAnd):
                return p_and(a, b)
            if isinstance(op, ast.BitOr):
                return p_or(a, b)
            if isinstance(op, ast.BitXor):
                return p_or(p_and(a, p_not(b)), p_and(p_not(a), b))
            return Unknown('arithmetic on predicates')
        if isinstance(a, Pred) or isinstance(b, Pred):
            # mask | False, mask & True
            other, p = (b, a) if isinstance(a, Pred) else (a, b)
            if isinstance(other, Const) and isinstance(other.v, (bool, int)) and other.v in (0, 1, False, True):
                if isinstance(op, ast.BitOr):
                    return Pred('const', (True,)) if other.v else p
                if isinstance(op, ast.BitAnd):
                    return p if other.v else Pred('const', (False,))
            return Unknown('predicate combined with a non-predicate')
        return NormDomain.binop(self, op, a, b, node)

    def unary(self, op, a, node):
        if isinstance(a, Pred) and isinstance(op, ast.Invert):
            return p_not(a)
        return NormDomain.unary(self, op, a, node)

    def augassign(self, op, target, val, node):
        if isinstance(target, Pred) or isinstance(val, Pred):
            return self.binop(op, target, val, node)
        return NormDomain.augassign(self, op, target, val, node) if hasattr(NormDomain, 'augassign') else None

    def store_subscript(self, target, idx, val, node):
        if isinstance(idx, Pred):
            self.interp.emit('maskstore', target=target, pred=idx, value=val, node=node)
            return True
        return NormDomain.store_subscript(self, target, idx, val, node) if hasattr(NormDomain, 'store_subscript') else None

    def call_ext(self, dotted, args, kwargs, node):
        if dotted == 'numpy.zeros' and kwargs.get('dtype') is not None and 'bool' in repr(kwargs.get('dtype')):
            return Const(False)
        if dotted in ('numpy.logical_not', 'numpy.invert') and len(args) == 1 and isinstance(args[0], Pred) and set(kwargs) <= {'out'}:
            return p_not(args[0])
        if dotted in ('numpy.logical_and', 'numpy.logical_or', 'numpy.logical_xor', 'numpy.bitwise_and', 'numpy.bitwise_or', 'numpy.bitwise_xor') and len(args) == 2 \
                and all(isinstance(a, Pred) for a in args) and set(kwargs) <= {'out'}:
            op = {'and': ast.BitAnd, 'or': ast.BitOr, 'xor': ast.BitXor}[dotted.rsplit('_', 1)[-1]]()
            return self.binop(op, args[0], args[1], node)
        if dotted == 'numpy.hypot' and len(args) == 2:
            ra, rb = self.rat(args[0]), self.rat(args[1])
            if ra is not None and rb is not None:
                from ..core.norm import _rat
                return self.lift(_rat(self.R.sqrt(ra * ra + rb * rb)))
        return NormDomain.call_ext(self, dotted, args, kwargs, node)


def eval_pred(p, subst, positive):
    """Truth value of predicate p after substituting atoms (dict atom -> Rat) when the sign of every comparison is decided
    by `positive` (atoms known > 0): True / False / None."""
    if p.kind == 'const':
        return bool(p.args[0])
    if p.kind == 'cmp':
        kind, d = p.args
        d = d.subs(subst)

        def sign_of(poly):
            # a polynomial in atoms known to be positive whose coefficients all have one sign has that sign
            if not poly.t:
                return 0
            if not all(a in positive for m in poly.t for a, _ in m):
                return None
            cs = list(poly.t.values())
            if all(c > 0 for c in cs):
                return 1
            if all(c < 0 for c in cs):
                return -1
            return None
        if d.is_zero():
            sg = 0
        else:
            sn, sd = sign_of(d.num), sign_of(d.den)
            if sn is None or sd is None or sd == 0:
                return None
            sg = sn * sd
        return {'<=0': sg <= 0, '<0': sg < 0, '==0': sg == 0}[kind]
    vals = [eval_pred(a, subst, positive) for a in p.args]
    if p.kind == 'not':
        return None if vals[0] is None else (not vals[0])
    if p.kind == 'and':
        if any(v is False for v in vals):
            return False
        return None if any(v is None for v in vals) else True
    if p.kind == 'or':
        if any(v is True for v in vals):
            return True
        return None if any(v is None for v in vals) else False
    return None
