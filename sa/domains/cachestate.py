"""CACHE-b: typestate of the lazily cached coordinate arrays of RichData / Interferogram.

Abstract values carry *versions*: the data array has a shape version; a Cartesian cache remembers the
shape version, the scale (a NORM value, compared with the current dx) and the origin version it was
built for; a polar cache additionally remembers which Cartesian origin it derives from.  A method
preserves coherence iff from every coherent entry state every path ends in a coherent state.
"""
import ast
import itertools

from ..core.interp import Domain, Value, Const, Tup, Unknown, Slice, Obj, ExtRef
from ..core.norm import Ring, Rat
from .normdom import NormDomain, Sym

_counter = itertools.count(1)


class DataV(Value):
    def __init__(self, sv, note=''):
        self.sv = sv
        self.note = note

    def __repr__(self):
        return 'Data(shape#%d)' % self.sv


class ShapeOf(Value):
    def __init__(self, sv):
        self.sv = sv

    def __repr__(self):
        return 'shape#%d' % self.sv


class CoordV(Value):
    def __init__(self, kind, sv, scale, ov):
        self.kind, self.sv, self.scale, self.ov = kind, sv, scale, ov

    def __repr__(self):
        return 'Coord(%s, shape#%d, scale=%s, origin#%d)' % (self.kind, self.sv, self.scale.key(), self.ov)


class PolarV(Value):
    def __init__(self, kind, sv, scale, ov):
        self.kind, self.sv, self.scale, self.ov = kind, sv, scale, ov

    def __repr__(self):
        return 'Polar(%s, shape#%d, scale=%s, from origin#%d)' % (self.kind, self.sv, self.scale.key(), self.ov)


class CoordAt(Value):
    """coord[idx] for a non-slice index: the coordinate value at one sample."""

    def __init__(self, ov, idxid):
        self.ov, self.idxid = ov, idxid

    def __repr__(self):
        return 'CoordAt(origin#%d)' % self.ov


SHAPE_PRESERVING = {'isnan', 'isfinite', 'abs', 'absolute', 'fft2', 'ifft2', 'real', 'imag', 'sqrt', 'copy', 'asarray', 'nan_to_num', 'conj', 'angle',
                    'logical_not', 'invert', 'exp', 'log', 'zeros_like', 'ones_like', 'fftshift', 'ifftshift', 'isinf', 'array',
                    # elementwise arithmetic spelled as a function: the data with something of its own shape (or a number) -- same shape
                    'subtract', 'add', 'multiply', 'divide', 'true_divide', 'negative', 'square'}


class CacheStateDomain(NormDomain):
    name = 'CACHE-b'

    def __init__(self):
        NormDomain.__init__(self)
        self.derived = {}        # (sv, id(idx0), id(idx1)) -> new sv
        self.keep = []           # keep index objects alive so ids stay unique

    def new_version(self):
        return next(_counter)

    def crop_version(self, sv, idx):
        items = idx.items if isinstance(idx, Tup) else [idx]
        key = (sv,) + tuple(id(x) for x in items)
        self.keep.append(items)
        if key not in self.derived:
            self.derived[key] = self.new_version()
        return self.derived[key]

    def _is_crop_index(self, idx):
        if isinstance(idx, Tup) and len(idx.items) == 2 and all(isinstance(x, Slice) for x in idx.items):
            return True
        # an index value that was not followed (a tuple of slices built by a helper or a comprehension): whatever window it is, the arrays
        # indexed with this very object are cut the same way -- the versions derived from it are keyed by the object's identity
        return isinstance(idx, Unknown)

    # -- hooks -------------------------------------------------------------
    def getattr(self, v, name, node):
        if isinstance(v, DataV):
            if name == 'shape':
                return ShapeOf(v.sv)
            if name in ('real', 'imag', 'T'):
                return DataV(v.sv) if name != 'T' else Unknown('transpose')
            if name in ('size', 'ndim', 'dtype'):
                return Unknown(name)
            return None
        if isinstance(v, (CoordV, PolarV)):
            if name == 'shape':
                return ShapeOf(v.sv)
            return None
        return NormDomain.getattr(self, v, name, node)

    def method(self, v, name, args, kwargs, node):
        if isinstance(v, DataV):
            if name in ('copy', 'astype', 'conj'):
                return DataV(v.sv)
            return Unknown('data.%s()' % name)
        if isinstance(v, (CoordV, PolarV)) and name in ('copy', 'astype'):
            return type(v)(v.kind, v.sv, v.scale, v.ov)
        return NormDomain.method(self, v, name, args, kwargs, node)

    def subscript(self, v, idx, node):
        if isinstance(v, ShapeOf):
            return Unknown('length')
        if isinstance(v, DataV):
            if self._is_crop_index(idx):
                return DataV(self.crop_version(v.sv, idx), 'crop')
            return Unknown('data element/extraction')
        if isinstance(v, (CoordV, PolarV)):
            if self._is_crop_index(idx):
                return type(v)(v.kind, self.crop_version(v.sv, idx), v.scale, v.ov)
            if isinstance(v, CoordV):
                self.keep.append(idx)
                return CoordAt(v.ov, id(idx))
            return Unknown('coordinate element')
        return NormDomain.subscript(self, v, idx, node)

    def store_subscript(self, target, idx, val, node):
        if isinstance(target, DataV):
            return True          # elementwise write: shape unchanged
        if isinstance(target, (CoordV, PolarV)):
            self.interp.emit('coord-store', target=target, node=node)
            return True
        return NormDomain.store_subscript(self, target, idx, val, node)

    def iterate(self, v, node):
        if isinstance(v, ShapeOf):
            return [Unknown('length'), Unknown('length')]
        return NormDomain.iterate(self, v, node)

    def binop(self, op, a, b, node):
        for x, y, left in ((a, b, True), (b, a, False)):
            if isinstance(x, DataV):
                if isinstance(y, DataV) and y.sv != x.sv:
                    return Unknown('shape mismatch')
                return DataV(x.sv)
            if isinstance(x, CoordV):
                r = self.rat(y)
                if isinstance(op, (ast.Mult,)) and r is not None:
                    return CoordV(x.kind, x.sv, x.scale * r, x.ov)
                if isinstance(op, ast.Div) and r is not None and left:
                    return CoordV(x.kind, x.sv, x.scale / r, x.ov)
                if isinstance(op, ast.Sub) and left and isinstance(y, CoordAt) and y.ov == x.ov:
                    # re-referencing to the sample at a given index: x and y re-referenced at the same index stay consistent
                    key = ('recentre', x.ov, y.idxid)
                    if key not in self.derived:
                        self.derived[key] = self.new_version()
                    return CoordV(x.kind, x.sv, x.scale, self.derived[key])
                if isinstance(op, (ast.Add, ast.Sub)) and (r is not None or isinstance(y, (Unknown, CoordAt))):
                    return CoordV(x.kind, x.sv, x.scale, self.new_version())
                return Unknown('coordinate arithmetic')
            if isinstance(x, PolarV):
                r = self.rat(y)
                if isinstance(op, ast.Mult) and r is not None and x.kind == 'r':
                    return PolarV(x.kind, x.sv, x.scale * r, x.ov)
                if isinstance(op, ast.Div) and r is not None and left and x.kind == 'r':
                    return PolarV(x.kind, x.sv, x.scale / r, x.ov)
                if isinstance(op, (ast.Gt, ast.Lt)):
                    return DataV(x.sv)
                return Unknown('polar arithmetic')
        return NormDomain.binop(self, op, a, b, node)

    def compare(self, op, a, b, node):
        return NormDomain.compare(self, op, a, b, node)

    def unary(self, op, a, node):
        if isinstance(a, DataV):
            return DataV(a.sv)
        return NormDomain.unary(self, op, a, node)

    def augassign(self, op, target, val, node):
        if isinstance(target, DataV):
            return DataV(target.sv)
        return None

    def call_ext(self, dotted, args, kwargs, node):
        last = dotted.rsplit('.', 1)[-1]
        if last in ('arctan2', 'hypot') and len(args) == 2 and all(isinstance(a, CoordV) for a in args):
            a, b = args
            ok = a.sv == b.sv and a.ov == b.ov and a.scale == b.scale
            if not ok:
                return Unknown('polar of inconsistent x/y')
            if last == 'hypot' and {a.kind, b.kind} == {'x', 'y'}:
                return PolarV('r', a.sv, a.scale, a.ov)
            if last == 'arctan2':
                # the azimuth is arctan2(y, x); with the arguments exchanged it is the angle from the other axis
                return PolarV('t' if (a.kind, b.kind) == ('y', 'x') else 'arctan2(x, y): not the azimuth arctan2(y, x)', a.sv, a.scale, a.ov)
            return Unknown('polar of inconsistent x/y')
        if args and isinstance(args[0], DataV) and last in ('rfft', 'rfft2', 'rfftn'):
            return DataV(self.new_version(), 'half spectrum')
        if args and isinstance(args[0], DataV) and last in ('irfft', 'irfft2', 'irfftn'):
            if 's' in kwargs or 'n' in kwargs or len(args) > 1:
                return Unknown('%s(data, s)' % last)
            # without the output size an odd length comes back one sample short: the data has a new shape
            return DataV(self.new_version(), 'irfft without the output size')
        if args and isinstance(args[0], DataV):
            if last in SHAPE_PRESERVING and 's' not in kwargs and (last not in ('fft2', 'ifft2') or len(args) == 1):
                return DataV(args[0].sv)
            return Unknown('%s(data)' % last)
        if dotted == 'builtins.tuple' and args and isinstance(args[0], ShapeOf):
            return args[0]
        if dotted == 'builtins.zip' and args and any(isinstance(a, ShapeOf) for a in args):
            return Unknown('zip(shape)')
        return NormDomain.call_ext(self, dotted, args, kwargs, node)

    def call_prysm(self, fi, args, kwargs, node):
        q = fi.qual
        if q == 'prysm.coordinates.make_xy_grid':
            shape = args[0] if args else kwargs.get('shape')
            dx = kwargs.get('dx', args[1] if len(args) > 1 else Const(0))
            r = self.rat(dx)
            if isinstance(shape, ShapeOf) and r is not None:
                ov = self.new_version()
                return Tup([CoordV('x', shape.sv, r, ov), CoordV('y', shape.sv, r, ov)])
            return Tup([Unknown('grid'), Unknown('grid')])
        if q == 'prysm.coordinates.cart_to_polar':
            x = args[0] if args else kwargs.get('x')
            y = args[1] if len(args) > 1 else kwargs.get('y')
            if isinstance(x, CoordV) and isinstance(y, CoordV) and x.kind == 'x' and y.kind == 'y' and x.sv == y.sv and x.ov == y.ov and x.scale == y.scale:
                return Tup([PolarV('r', x.sv, x.scale, x.ov), PolarV('t', x.sv, x.scale, x.ov)])
            return Tup([Unknown('polar of inconsistent x/y'), Unknown('polar of inconsistent x/y')])
        if q == 'prysm.fttools.pad2d':
            a = args[0] if args else kwargs.get('array')
            if isinstance(a, DataV):
                return DataV(self.new_version(), 'pad')
        if q == 'prysm.fttools.crop_center':
            a = args[0] if args else kwargs.get('img')
            if isinstance(a, DataV):
                return DataV(self.new_version(), 'crop_center')
        if q.startswith('prysm.util.') or q in ('prysm.interferogram.fit_plane', 'prysm.interferogram.fit_sphere', 'prysm.interferogram.designfilt2d',
                                                 'prysm.polynomials.lstsq', 'prysm.interferogram.psd', 'prysm.interferogram.bandlimited_rms',
                                                 'prysm.interferogram._rmax_square_array'):
            if q == 'prysm.interferogram.fit_sphere':
                return Tup([Unknown('mask'), Unknown('sphere')])
            if q == 'prysm.interferogram.psd':
                return Tup([Unknown('ux'), Unknown('uy'), Unknown('psd')])
            return Unknown(fi.name)
        return None

    def truth(self, v):
        return None

    def isinstance(self, v, names):
        if isinstance(v, (DataV, CoordV, PolarV)):
            return any(n in ('ndarray', 'Iterable') for n in names if isinstance(n, str))
        return NormDomain.isinstance(self, v, names)
