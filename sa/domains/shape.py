"""SHAPE -- array shapes with symbolic, pairwise-distinct dimensions (NumPy right-aligned broadcasting).

Rank polymorphism is decided by instantiating the coordinate shape at ranks 0..3 with fresh non-unit
symbols: distinct symbols never unify, so "works only when the row count equals the number of orders"
is a finding, not a pass.
"""
import ast

from ..core.db import walk_no_nested
from ..core.interp import Domain, Value, Const, Tup, Unknown, Slice, DictV, ExtRef, _Break, _Continue


class Dim(Value):
    __slots__ = ('n',)

    def __init__(self, n):
        self.n = n

    def __repr__(self):
        return str(self.n)

    def __eq__(self, o):
        return isinstance(o, Dim) and o.n == self.n

    def __hash__(self):
        return hash(('Dim', self.n))


class Sh(Value):
    """ndarray of known shape (tuple of Dim names / ints)."""
    __slots__ = ('dims',)

    def __init__(self, dims):
        self.dims = tuple(dims)

    def __repr__(self):
        return 'Sh%r' % (self.dims,)

    def __eq__(self, o):
        return isinstance(o, Sh) and o.dims == self.dims

    def __hash__(self):
        return hash(self.dims)


class Scalar(Value):
    def __repr__(self):
        return 'Scalar'

    def __eq__(self, o):
        return isinstance(o, Scalar)

    def __hash__(self):
        return 3


class NsV(Value):
    """list of K requested orders (python list or ndarray of shape (K,))."""

    def __init__(self, as_array=False, dim='K'):
        self.as_array = as_array
        self.dim = dim

    def __repr__(self):
        return 'NsV[%s]' % self.dim


class PairsV(Value):
    """list of K requested (n, m) pairs."""

    def __repr__(self):
        return 'PairsV'


class DefDict(DictV):
    """collections.defaultdict: a missing key yields the factory's value."""

    def __init__(self, default):
        DictV.__init__(self)
        self.default = default

    def get(self, k):
        v = DictV.get(self, k)
        return self.default if v is None else v


class SetV(Value):
    def __repr__(self):
        return 'SetV'


def broadcast(a, b):
    """Right-aligned broadcast of two dim tuples; None on error."""
    out = []
    la, lb = len(a), len(b)
    for i in range(1, max(la, lb) + 1):
        x = a[-i] if i <= la else 1
        y = b[-i] if i <= lb else 1
        if x == y:
            out.append(x)
        elif x == 1:
            out.append(y)
        elif y == 1:
            out.append(x)
        else:
            return None
    return tuple(reversed(out))


class ShapeDomain(Domain):
    name = 'SHAPE'

    def __init__(self, summaries=None):
        self.summaries = summaries or {}

    def param(self, fi, name, default):
        return default if default is not None else Scalar()

    def _dims(self, v):
        if isinstance(v, Sh):
            return v.dims
        if isinstance(v, (Scalar, Const)):
            return ()
        if isinstance(v, NsV):
            return (v.dim,)
        return None

    def binop(self, op, a, b, node):
        da, db = self._dims(a), self._dims(b)
        if (isinstance(a, (Sh, NsV)) or isinstance(b, (Sh, NsV))) and da is not None and db is not None:
            if isinstance(op, ast.MatMult):
                # matrix product: the last axis of a is contracted with the first (1-D) / second-to-last axis of b
                if da and db:
                    ka = da[-1]
                    kb = db[0] if len(db) == 1 else db[-2]
                    self.interp.emit('tensordot', pairs=[(ka, kb)], a=da, b=db, node=node)
                    if ka != kb:
                        self.interp.emit('contract-mismatch', a=da, b=db, node=node)
                    rest_b = () if len(db) == 1 else tuple(db[:-2]) + (db[-1],)
                    r_ = tuple(da[:-1]) + rest_b
                    return Sh(r_) if r_ else Scalar()
                return Unknown('matmul')
            r = broadcast(da, db)
            if r is None:
                self.interp.emit('broadcast-error', a=da, b=db, node=node)
                return Unknown('broadcast error %r vs %r' % (da, db))
            if len(r) > max(len(da), len(db)) or (r != da and r != db):
                self.interp.emit('broadcast-grow', a=da, b=db, result=r, node=node)
            return Sh(r)
        if isinstance(a, (Scalar, Const)) and isinstance(b, (Scalar, Const)) and (isinstance(a, Scalar) or isinstance(b, Scalar)):
            return Scalar()
        if isinstance(a, Dim) or isinstance(b, Dim):
            return Scalar()
        return None

    def unary(self, op, a, node):
        if isinstance(a, (Sh, Scalar)):
            return a
        return None

    def compare(self, op, a, b, node):
        if isinstance(a, Dim) and isinstance(b, Dim) and isinstance(op, (ast.Eq, ast.NotEq)):
            return (a == b) == isinstance(op, ast.Eq) if a == b else None
        return None

    def truth(self, v):
        return None

    def augassign(self, op, target, val, node):
        if isinstance(target, Sh):
            dv = self._dims(val)
            if dv is None:
                return Unknown('augassign')
            r = broadcast(target.dims, dv)
            if r is None or r != target.dims:
                self.interp.emit('broadcast-error', a=target.dims, b=dv, node=node)
                return Unknown('in-place broadcast error')
            return target
        return None

    def getattr(self, v, name, node):
        if isinstance(v, Sh):
            if name == 'shape':
                return Tup([Dim(d) for d in v.dims])
            if name == 'ndim':
                return Const(len(v.dims))
            if name in ('dtype',):
                return Scalar()
            if name == 'size':
                syms = [d for d in v.dims if d != 1]
                return Dim(syms[0]) if len(syms) == 1 and isinstance(syms[0], str) else Scalar()
            if name == 'T':
                return Sh(tuple(reversed(v.dims)))
            if name in ('real', 'imag'):
                return v
        if isinstance(v, Scalar):
            if name in ('dtype', 'real', 'imag'):
                return Scalar()
            if name == 'shape':
                return Tup([])
            if name == 'ndim':
                return Const(0)
        return None

    def method(self, v, name, args, kwargs, node):
        if isinstance(v, SetV) and name == 'add':
            return Const(None)
        if isinstance(v, Sh) and name in ('max', 'min', 'sum', 'mean'):
            ax = kwargs.get('axis', args[0] if args else None)
            if ax is None:
                return Scalar()
            if isinstance(ax, Const) and isinstance(ax.v, int) and -len(v.dims) <= ax.v < len(v.dims):
                d = list(v.dims)
                del d[ax.v]
                return Sh(tuple(d))
            return Unknown('reduction axis')
        if isinstance(v, Sh):
            if name in ('astype', 'copy', 'conj'):
                return v
            if name in ('ravel', 'flatten'):
                order = kwargs.get('order', args[0] if args else None)
                if order is not None and not (isinstance(order, Const) and order.v in ('C', None)):
                    self.interp.emit('layout-order', what='%s(order=%r)' % (name, getattr(order, 'v', order)), node=node)
                sym = [d for d in v.dims if d != 1]
                return Sh(('*'.join(str(x) for x in sym) if len(sym) != 1 else sym[0],)) if sym else Sh((1,))
            if name == 'reshape':
                shp = args[0] if len(args) == 1 else Tup(args)
                if isinstance(shp, (Const, Dim)) and not isinstance(getattr(shp, 'v', None), (tuple, list)):
                    shp = Tup([shp])                       # reshape(-1) / reshape(n)
                if isinstance(shp, Tup) and all(isinstance(d, (Const, Dim)) for d in shp.items):
                    new = [d.n if isinstance(d, Dim) else d.v for d in shp.items]
                    if new.count(-1) == 1:
                        rest_old = [d for d in v.dims if d != 1]
                        rest_new = [d for d in new if d not in (1, -1)]
                        left = list(rest_old)
                        for d in rest_new:
                            if d in left:
                                left.remove(d)
                            else:
                                return Unknown('reshape: sizes do not match')
                        if len(left) == 1:
                            new[new.index(-1)] = left[0]
                        elif not left:
                            new[new.index(-1)] = 1
                        else:
                            new[new.index(-1)] = '*'.join(str(x) for x in left)
                    # a reshape regroups adjacent axes in order; symbolic dimensions may not change places
                    # (a product dimension 'r*c' stands for its factors, in that order)
                    osym = [f_ for d in v.dims if isinstance(d, str) for f_ in d.split('*')]
                    nsym = [f_ for d in new if isinstance(d, str) for f_ in d.split('*')]
                    if osym != nsym and sorted(map(str, osym)) == sorted(map(str, nsym)):
                        self.interp.emit('reshape-reorders', old=v.dims, new=tuple(new), node=node)
                    return Sh(tuple(new))
                return Unknown('reshape')
        return None

    def isinstance(self, v, names):
        if isinstance(v, (Sh, NsV)):
            return any(n in ('ndarray', 'Iterable', 'list') for n in names if isinstance(n, str))
        if isinstance(v, Scalar):
            return any(n in ('float', 'int', 'Number', 'Real') for n in names if isinstance(n, str))
        return None

    def call_ext(self, dotted, args, kwargs, node):
        last = dotted.rsplit('.', 1)[-1]
        a0 = args[0] if args else None
        if dotted in ('builtins.list', 'builtins.tuple') and isinstance(a0, NsV):
            return NsV(False, a0.dim)
        if dotted in ('builtins.list', 'builtins.tuple') and isinstance(a0, Sh) and a0.dims:
            return a0                       # a list of rows indexes like the array
        if dotted == 'builtins.len' and isinstance(a0, PairsV):
            return Dim('K')
        if dotted == 'builtins.set' and not args:
            return SetV()
        if dotted == 'builtins.dict' and isinstance(a0, DictV):
            d = DictV()
            d.entries = list(a0.entries)
            return d
        if dotted == 'builtins.zip' and any(isinstance(a, (PairsV, NsV)) for a in args):
            return PairsV()
        if dotted == 'builtins.range' and any(isinstance(a, Scalar) for a in args):
            return NsV(False, 'R%d' % getattr(node, 'lineno', 0))
        if dotted == 'builtins.abs' and isinstance(a0, Scalar):
            return Scalar()
        if dotted == 'collections.defaultdict' and args:
            return DefDict(self.interp.call_value(a0, [], {}, node, None))
        if dotted in ('numpy.asarray', 'numpy.array') and isinstance(a0, PairsV):
            return Sh(('K', 2))
        if last == 'arange' and any(isinstance(a, Scalar) for a in args):
            return NsV(True, 'R%d' % getattr(node, 'lineno', 0))
        if last == 'unique' and isinstance(a0, (NsV, Sh)):
            return NsV(True, 'U')
        if last in ('abs', 'absolute') and isinstance(a0, NsV):
            return a0
        if dotted in ('numpy.asarray', 'numpy.array') and isinstance(a0, NsV):
            return Sh((a0.dim,))
        if dotted == 'builtins.len' and isinstance(a0, (NsV,)):
            return Dim(a0.dim)
        if dotted == 'builtins.len' and isinstance(a0, Sh) and a0.dims:
            return Dim(a0.dims[0])
        if last in ('empty', 'zeros', 'ones') and args:
            shp = a0
            if isinstance(shp, Tup) and all(isinstance(d, (Dim, Const)) for d in shp.items):
                return Sh(tuple(d.n if isinstance(d, Dim) else d.v for d in shp.items))
            if isinstance(shp, Const) and isinstance(shp.v, int):
                return Sh((shp.v,))
            if isinstance(shp, Dim):
                return Sh((shp.n,))
            return Unknown('array of unknown shape')
        if last in ('ones_like', 'zeros_like', 'empty_like', 'sqrt', 'cos', 'sin', 'exp', 'abs', 'asarray', 'array', 'copy', 'log') and isinstance(a0, (Sh, Scalar)):
            return a0
        if last in ('hypot', 'arctan2', 'multiply', 'add', 'subtract', 'divide', 'maximum', 'minimum') and len(args) == 2:
            da, db_ = self._dims(args[0]), self._dims(args[1])
            if da is not None and db_ is not None:
                r = broadcast(da, db_)
                if r is None:
                    self.interp.emit('broadcast-error', a=da, b=db_, node=node)
                    return Unknown('broadcast error')
                return Sh(r) if (isinstance(args[0], Sh) or isinstance(args[1], Sh)) else Scalar()
        if last == 'tensordot' and len(args) >= 2 and isinstance(args[0], Sh) and isinstance(args[1], Sh):
            da, db_ = list(args[0].dims), list(args[1].dims)
            axes = kwargs.get('axes', args[2] if len(args) > 2 else Const(2))
            ia = ib = None
            if isinstance(axes, Const) and isinstance(axes.v, int):
                ia, ib = list(range(len(da) - axes.v, len(da))), list(range(axes.v))
            elif isinstance(axes, Tup) and len(axes.items) == 2:
                def _ax(x):
                    if isinstance(x, Const) and isinstance(x.v, int):
                        return [x.v]
                    if isinstance(x, Const) and isinstance(x.v, (tuple, list)):
                        return list(x.v)
                    if isinstance(x, Tup) and all(isinstance(y, Const) and isinstance(y.v, int) for y in x.items):
                        return [y.v for y in x.items]
                    return None
                ia, ib = _ax(axes.items[0]), _ax(axes.items[1])
            elif isinstance(axes, Const) and isinstance(axes.v, (tuple, list)) and len(axes.v) == 2:
                norm_ = lambda x: [x] if isinstance(x, int) else list(x)
                ia, ib = norm_(axes.v[0]), norm_(axes.v[1])
            if ia is None or ib is None or len(ia) != len(ib) or any(not (-len(da) <= i < len(da)) for i in ia) or any(not (-len(db_) <= i < len(db_)) for i in ib):
                return Unknown('tensordot axes')
            ia = [i % len(da) for i in ia]
            ib = [i % len(db_) for i in ib]
            pairs = [(da[i], db_[j]) for i, j in zip(ia, ib)]
            self.interp.emit('tensordot', pairs=pairs, a=tuple(da), b=tuple(db_), node=node)
            if any(x != y for x, y in pairs):
                self.interp.emit('contract-mismatch', a=tuple(da), b=tuple(db_), node=node)
            r_ = tuple(d for i, d in enumerate(da) if i not in ia) + tuple(d for j, d in enumerate(db_) if j not in ib)
            return Sh(r_) if r_ else Scalar()
        if last in ('dot', 'matmul') and len(args) == 2 and not kwargs and all(isinstance(a, Sh) for a in args) and all(1 <= len(a.dims) <= 2 for a in args):
            return self.binop(ast.MatMult(), args[0], args[1], node)        # for 1-D / 2-D operands np.dot is the matrix product
        if last in ('moveaxis', 'swapaxes') and len(args) == 3 and isinstance(a0, Sh) and all(isinstance(a, Const) and isinstance(a.v, int) for a in args[1:]):
            n = len(a0.dims)
            i, j = args[1].v, args[2].v
            if -n <= i < n and -n <= j < n:
                d = list(a0.dims)
                if last == 'swapaxes':
                    d[i], d[j] = d[j], d[i]
                else:
                    x = d.pop(i % n)
                    d.insert(j % n, x)
                return Sh(tuple(d))
        if last == 'transpose' and isinstance(a0, Sh) and len(args) == 1 and not kwargs:
            return Sh(tuple(reversed(a0.dims)))
        if dotted in ('math.prod', 'numpy.prod') and len(args) == 1 and isinstance(a0, Tup) and a0.items and all(isinstance(d, (Dim, Const)) for d in a0.items):
            facs = [d.n if isinstance(d, Dim) else d.v for d in a0.items]
            if all(isinstance(f_, int) for f_ in facs):
                out = 1
                for f_ in facs:
                    out *= f_
                return Const(out)
            return Dim('*'.join(str(f_) for f_ in facs if f_ != 1)) if len([f_ for f_ in facs if f_ != 1]) != 1 else Dim([f_ for f_ in facs if f_ != 1][0])
        if last in ('ravel',) and isinstance(a0, Sh):
            return self.method(a0, 'ravel', list(args[1:]), kwargs, node)
        if dotted == 'builtins.hasattr' and isinstance(a0, Sh) and len(args) == 2 and isinstance(args[1], Const):
            return Const(args[1].v in ('ndim', 'shape', 'dtype', 'size', 'astype', 'reshape', '__len__', '__iter__'))
        if last == 'squeeze' and isinstance(a0, Sh):
            return Sh(tuple(d for d in a0.dims if d != 1))
        if last in ('array', 'asarray') and isinstance(a0, Tup) and a0.items and all(isinstance(x, Sh) for x in a0.items) and all(x.dims == a0.items[0].dims for x in a0.items):
            return Sh((len(a0.items),) + a0.items[0].dims)
        if last == 'stack' and isinstance(a0, Tup) and all(isinstance(x, Sh) for x in a0.items) and a0.items:
            ax = kwargs.get('axis', Const(0))
            base = a0.items[0].dims
            if all(x.dims == base for x in a0.items) and isinstance(ax, Const):
                d = list(base)
                pos = ax.v if ax.v >= 0 else len(d) + 1 + ax.v
                d.insert(pos, len(a0.items))
                return Sh(tuple(d))
        if dotted.startswith('builtins.') and last in ('float', 'int', 'abs') and isinstance(a0, (Scalar, Const, Dim)):
            return Scalar()
        return None

    def call_prysm(self, fi, args, kwargs, node):
        s = self.summaries.get(fi.qual)
        if s is not None:
            return s(self, fi, args, kwargs, node)
        return None

    def subscript(self, v, idx, node):
        if isinstance(v, NsV):
            return Scalar()
        if isinstance(v, PairsV):
            return Tup([Scalar(), Scalar()])
        if isinstance(v, Tup) and isinstance(idx, Scalar):
            kinds = []
            for it in v.items:
                if it not in kinds:
                    kinds.append(it)
            if not kinds:
                return Unknown('index into empty list')
            if len(kinds) == 1:
                return kinds[0]
            return kinds[self.interp.choose(len(kinds), 'list element kind')]
        if isinstance(v, Sh):
            def fix(x):
                return Const(None) if isinstance(x, ExtRef) and x.dotted.endswith('newaxis') else x
            idx = Tup([fix(x) for x in idx.items]) if isinstance(idx, Tup) else fix(idx)
        if isinstance(v, Sh):
            items = idx.items if isinstance(idx, Tup) else [idx]
            dims = list(v.dims)
            out = []
            k = 0
            for s in items:
                if isinstance(s, Const) and s.v is None:
                    out.append(1)
                    continue
                if isinstance(s, Const) and s.v is Ellipsis:
                    rest = len([x for x in items if not (isinstance(x, Const) and (x.v is None or x.v is Ellipsis))]) - (k)
                    keep = len(dims) - k - (len([x for x in items[items.index(s) + 1:] if not (isinstance(x, Const) and x.v is None)]))
                    out.extend(dims[k:k + keep])
                    k += keep
                    continue
                if k >= len(dims):
                    self.interp.emit('index-error', node=node)
                    return Unknown('too many indices')
                if isinstance(s, Slice):
                    if all(isinstance(z, Const) and z.v is None for z in (s.lo, s.hi, s.step)):
                        out.append(dims[k])
                    else:
                        out.append('sliced(%s)' % (dims[k],))
                    k += 1
                else:
                    k += 1          # integer / scalar index drops the axis
            out.extend(dims[k:])
            return Sh(tuple(out))
        if isinstance(v, Scalar):
            return Scalar()
        return None

    def store_subscript(self, target, idx, val, node):
        if isinstance(target, Sh):
            sub = self.subscript(target, idx, node)
            dv = self._dims(val)
            if isinstance(sub, Sh) and dv is not None:
                r = broadcast(sub.dims, dv)
                ok = r is not None and r == sub.dims
                self.interp.emit('store', target=target, sub=sub.dims, value=dv, ok=ok, node=node)
            else:
                self.interp.emit('store', target=target, sub=None, value=dv, ok=None, node=node)
            return True
        return None

    def iterate(self, v, node):
        if isinstance(v, Sh) and v.dims and isinstance(v.dims[0], int) and v.dims[0] <= 4:
            return [Sh(v.dims[1:]) if len(v.dims) > 1 else Scalar() for _ in range(v.dims[0])]
        return None

    def comprehension(self, node, frame):
        if len(node.generators) == 1:
            src = self.interp.ev(node.generators[0].iter, frame)
            if isinstance(src, NsV):
                return NsV(False, src.dim)
            if isinstance(src, PairsV):
                # [f(m, n) for m, n in requests]: when the element is an array, the result is a list of K such arrays
                g = node.generators[0]
                if isinstance(node, ast.ListComp) and isinstance(g.target, ast.Tuple) and all(isinstance(e, ast.Name) for e in g.target.elts) and not g.ifs:
                    from ..core.interp import Frame
                    fr = Frame(frame.fi, frame.module, {e.id: Scalar() for e in g.target.elts}, parent=frame)
                    try:
                        elt = self.interp.ev(node.elt, fr)
                    except Exception:
                        elt = None
                    if isinstance(elt, Sh):
                        return Tup([elt], 'list')
                return NsV()
        return None

    def loop(self, node, frame):
        """Shapes of loop-carried names are loop invariant here: run the body once and check the fixpoint."""
        if not isinstance(node, (ast.For, ast.While)):
            return False
        carried = set()
        for st in node.body:
            for n in walk_no_nested(st):
                if isinstance(n, ast.Name) and isinstance(n.ctx, ast.Store):
                    carried.add(n.id)
        before = {k: frame.env.get(k) for k in carried}
        if isinstance(node, ast.For):
            for leaf in ast.walk(node.target):
                if isinstance(leaf, ast.Name):
                    frame.env[leaf.id] = Scalar()
        try:
            self.interp.exec_block(node.body, frame)
        except (_Break, _Continue):
            pass
        for k in carried:
            b, a = before.get(k), frame.env.get(k)
            if b is not None and a is not None and type(b) is type(a) and b != a and isinstance(b, Sh):
                frame.env[k] = Unknown('shape of %s changes across iterations' % k)
                self.interp.emit('loop-shape-change', name=k, node=node)
        return True
