"""DEP -- dependency domain: what does a value depend on, and which inputs does it determine?

Used to decide memo (cache) key completeness by interpretation instead of by the shape of the code: run the public
entry point with every argument an atom; whenever a value is stored into a memo dict under a key, everything the stored
value (and the control flow that led to the store) depends on must be *determined* by the key.

A value carries
  deps : the input atoms it depends on.  An element is either an atom name ('Q', 'ary.shape', 'config.precision') or a
         component ('Q', 0) of a pair-like atom.
  inj  : the subset of deps in which the value is injective given its other deps (x -> x, float(x), x + y, c * x, 1/x;
         not round(x), x // 2, next_fast_len(x), x == y ...).
A key (a tuple of values) determines an element e if some component is injective in e and all other deps of that
component are already determined (closure); a whole atom is determined by its two components.
"""
import ast

from ..core.interp import Domain, Value, Const, Tup, DictV, Unknown, Obj


class Dep(Value):
    __slots__ = ('deps', 'inj')

    def __init__(self, deps=(), inj=()):
        self.deps = frozenset(deps)
        self.inj = frozenset(inj) & self.deps

    def __repr__(self):
        return 'Dep(%s|%s)' % (sorted(map(str, self.deps)), sorted(map(str, self.inj)))

    def __eq__(self, o):
        return isinstance(o, Dep) and (self.deps, self.inj) == (o.deps, o.inj)

    def __hash__(self):
        return hash((self.deps, self.inj))


class ConfigV(Value):
    """prysm's global configuration object: every attribute read is an input atom config.<name>."""

    def __repr__(self):
        return 'ConfigV'


UNKNOWN = '<unknown>'
INJECTIVE_CALLS = {'builtins.float', 'builtins.complex', 'builtins.tuple', 'builtins.list', 'numpy.asarray', 'numpy.array', 'numpy.float64', 'numpy.copy',
                   'numpy.ascontiguousarray', 'builtins.str', 'numpy.dtype', 'builtins.abs' if False else 'numpy.negative'}
ARRAY_FACETS = ('shape', 'dtype', 'size', 'ndim')
VIEW_ATTRS = ('T', 'real', 'imag', 'flat')


def deps_of(v):
    if isinstance(v, Dep):
        return set(v.deps)
    if isinstance(v, Tup):
        out = set()
        for x in v.items:
            out |= deps_of(x)
        return out
    if isinstance(v, DictV):
        out = set()
        for k, x in v.entries:
            out |= deps_of(k) | deps_of(x)
        return out
    if isinstance(v, Unknown):
        return {UNKNOWN}
    if isinstance(v, ConfigV):
        return {'config'}
    return set()


def inj_of(v):
    if isinstance(v, Dep):
        return set(v.inj)
    if isinstance(v, Tup):
        out = set()
        for x in v.items:
            out |= inj_of(x)
        return out
    return set()


def components(v):
    """flat list of the Dep leaves of a (nested) tuple value."""
    if isinstance(v, Tup):
        out = []
        for x in v.items:
            out += components(x)
        return out
    return [v] if isinstance(v, Dep) else []


def _covered(e, S):
    """is dependency element e determined, given the determined set S?"""
    if e in S:
        return True
    if isinstance(e, tuple):
        return e[0] in S
    return (e, 0) in S and (e, 1) in S


def determined_by(key):
    """closure: the set of elements (atoms / components) a key value determines."""
    comps = components(key)
    S = set()
    changed = True
    while changed:
        changed = False
        for c in comps:
            for e in c.inj:
                if e in S:
                    continue
                if all(_covered(o, S) for o in c.deps if o != e and not (isinstance(e, tuple) and o == e[0]) and not (isinstance(o, tuple) and o[0] == e)):
                    S.add(e)
                    changed = True
    return S


def missing_from(key, needed):
    S = determined_by(key)
    return sorted({(e if isinstance(e, str) else '%s[%d]' % e) for e in needed if not _covered(e, S)})


class DepDomain(Domain):
    name = 'DEP'

    def __init__(self):
        self.fill_quals = None         # qualified names of the functions that store into a memo (None: every test counts)
        self.reset()

    def reset(self):
        self.ctrl = set()              # deps of every undecided test taken so far on this path
        self.store_ctrl = []           # (node, frozenset(ctrl)) at each `self.<memo>[k] = v`
        self.cached = {}               # id(value) -> memo name, for values stored in a memo
        self.inplace = []              # (node, memo name) in-place operations on a value held by a memo
        self.derived = {}              # derived atom -> the atom it is a many-to-one function of
        self.memo_ctrl = {}            # memo name -> deps of the undecided tests taken before a store into it

    def atom(self, name):
        return Dep({name}, {name})

    # -- helpers -----------------------------------------------------------
    def _union(self, *vals, inj=False):
        d = set()
        for v in vals:
            d |= deps_of(v)
        return Dep(d, ())

    def _has_dep(self, *vals):
        return any(isinstance(v, (Dep, ConfigV, Unknown)) or (isinstance(v, (Tup, DictV)) and deps_of(v)) for v in vals)

    # -- hooks -------------------------------------------------------------
    def binop(self, op, a, b, node):
        if not self._has_dep(a, b):
            if isinstance(a, Const) and isinstance(b, Const):
                return None
            from ..core.interp import ExtRef
            if all(isinstance(x, (Const, ExtRef)) for x in (a, b)):
                return Dep()          # arithmetic on library constants (np.pi ...): a constant
            return None
        da, db = deps_of(a), deps_of(b)
        d = da | db
        inj = set()
        if isinstance(op, (ast.Add, ast.Sub, ast.Mult, ast.Div)) and isinstance(a, (Dep, Const)) and isinstance(b, (Dep, Const)):
            ia = inj_of(a) if isinstance(a, Dep) else set()
            ib = inj_of(b) if isinstance(b, Dep) else set()
            inj = (ia - db) | (ib - da)
        return Dep(d, inj)

    def unary(self, op, a, node):
        if not self._has_dep(a):
            return None
        if isinstance(op, (ast.USub, ast.UAdd)) and isinstance(a, Dep):
            return Dep(a.deps, a.inj)
        return self._union(a)

    def compare(self, op, a, b, node):
        if isinstance(op, (ast.In, ast.NotIn)) and isinstance(b, DictV):
            found = any(k == a for k, _ in b.entries)          # keys are compared structurally: decided, not forked
            return found != isinstance(op, ast.NotIn)
        if isinstance(op, (ast.Is, ast.IsNot)):
            return None
        if self._has_dep(a, b):
            return self._union(a, b)
        return None

    def truth(self, v):
        # control dependence: tests evaluated while a memo-filling function is on the call stack decide what is stored
        if isinstance(v, Dep) and (self.fill_quals is None or any(getattr(f, 'qual', None) in self.fill_quals for f in self.interp.callstack)):
            self.ctrl |= v.deps
        return None

    def on_branch(self, test, t, frame):
        pass

    def call_ext(self, dotted, args, kwargs, node):
        vals = list(args) + list(kwargs.values())
        if dotted in INJECTIVE_CALLS and len(args) == 1 and isinstance(args[0], Dep):
            return Dep(args[0].deps, args[0].inj)
        if dotted in ('builtins.tuple', 'builtins.list') and args and isinstance(args[0], Tup):
            return None
        if dotted == 'builtins.len' and args and isinstance(args[0], MemoDict):
            return Dep()          # how full the memo is (eviction housekeeping): not an input of what is stored
        if dotted == 'builtins.len' and args and isinstance(args[0], (Tup, DictV)):
            return None
        if dotted in ('builtins.isinstance', 'builtins.hasattr', 'builtins.callable') and args:
            if isinstance(args[0], Tup):
                return None
            return self._union(args[0])
        if dotted in ('builtins.print', 'warnings.warn'):
            return Const(None)
        if dotted in ('builtins.map', 'builtins.zip', 'builtins.enumerate', 'builtins.reversed') and args and any(isinstance(a, Tup) for a in args):
            return None          # structural: the interpreter applies / pairs the elements itself
        if dotted == 'builtins.map' and len(args) == 2 and isinstance(args[1], Dep):
            # map(f, xs) over an input sequence: elementwise f; float / complex / ... keep what the sequence determines
            fname = ('builtins.' + getattr(args[0], 'name', '')) if type(args[0]).__name__ == 'BuiltinRef' else getattr(args[0], 'dotted', '')
            return Dep(args[1].deps, args[1].inj if fname in INJECTIVE_CALLS else ())
        if len(vals) == 1 and isinstance(vals[0], Dep) and len(vals[0].deps) == 1 and vals[0].inj == vals[0].deps:
            # a many-to-one function of one atom (abs, round, int, len ...): a derived atom of its own.  A key holding it determines
            # it (and whatever is computed from it), but not the atom it was derived from
            (a,) = vals[0].deps
            d = '%s(%s)' % (dotted.rsplit('.', 1)[-1], a if isinstance(a, str) else '%s[%d]' % a)
            self.derived[d] = a
            return Dep({d}, {d})
        return self._union(*vals)

    def getattr(self, v, name, node):
        if isinstance(v, ConfigV):
            return self.atom('config.' + name)
        if isinstance(v, Dep):
            if name in ARRAY_FACETS:
                whole = [e for e in v.inj if isinstance(e, str)]
                if len(v.deps) == 1 and len(whole) == 1:
                    return self.atom('%s.%s' % (whole[0], name))
                return Dep(v.deps, ())
            if name in VIEW_ATTRS:
                return Dep(v.deps, v.inj)
            if name in ('itemsize', 'nbytes', 'strides', 'flags', 'base', 'data'):
                return Dep(v.deps, ())
            return None            # a method: the interpreter builds the bound method and asks `method`
        return None

    def method(self, v, name, args, kwargs, node):
        if isinstance(v, Dep):
            vals = [v] + list(args) + list(kwargs.values())
            if name in ('copy', 'conj', 'conjugate', 'ravel', 'flatten', 'squeeze') and not args:
                return Dep(v.deps, v.inj)
            return self._union(*vals)
        return None

    def subscript(self, v, idx, node):
        if isinstance(v, Dep):
            whole = [e for e in v.inj if isinstance(e, str)]
            if isinstance(idx, Const) and isinstance(idx.v, int) and len(v.deps) == 1 and len(whole) == 1 and idx.v in (0, 1, -1, -2):
                k = idx.v % 2
                return Dep({(whole[0], k)}, {(whole[0], k)})
            return self._union(v, idx)
        if isinstance(v, Tup) and self._has_dep(idx):
            return self._union(v, idx)
        if isinstance(v, DictV) and not isinstance(v, MemoDict) and self._has_dep(idx):
            return self._union(Tup([x for _, x in v.entries]), idx)        # one of the entries, chosen by idx
        return None

    def store_subscript(self, target, idx, val, node):
        if isinstance(target, Dep):
            if id(target) in self.cached:
                self.inplace.append((node, self.cached[id(target)]))
            return True
        return None

    def augassign(self, op, target, val, node):
        if isinstance(target, Dep):
            if id(target) in self.cached:
                self.inplace.append((node, self.cached[id(target)]))
            r = self.binop(op, target, val, node)
            return r if r is not None else Dep(target.deps, ())
        return None

    def iterate(self, v, node):
        if isinstance(v, Dep):
            whole = [e for e in v.inj if isinstance(e, str)]
            if len(v.deps) == 1 and len(whole) == 1:
                return [Dep({(whole[0], 0)}, {(whole[0], 0)}), Dep({(whole[0], 1)}, {(whole[0], 1)})]
            return [Dep(v.deps, ()), Dep(v.deps, ())]
        return None

    def instantiate(self, ci, args, kwargs, node):
        if ci.name == 'Config':
            return ConfigV()
        return None

    def join(self, values):
        if any(isinstance(v, Dep) for v in values):
            return self._union(*values)
        return Domain.join(self, values)

    def on_stmt(self, node, frame):
        if isinstance(node, ast.Assign):
            for t in node.targets:
                if isinstance(t, ast.Subscript) and isinstance(t.value, ast.Attribute) and isinstance(t.value.value, ast.Name) and t.value.value.id == 'self':
                    self.store_ctrl.append((node, frozenset(self.ctrl), t.value.attr))


class MemoDict(DictV):
    """a memo dict that tells the domain which values it holds (so in-place operations on them can be seen)."""
    strict_keys = True

    def __init__(self, dom, name):
        DictV.__init__(self)
        self._dom, self._name = dom, name

    def set(self, k, v):
        DictV.set(self, k, v)
        self._dom.memo_ctrl.setdefault(self._name, set()).update(self._dom.ctrl)      # the tests that led to this store
        for x in ([v] if not isinstance(v, Tup) else list(v.items)):
            if isinstance(x, Dep):
                self._dom.cached[id(x)] = self._name


def memo_audit(db, it, dom, ci, entry, kwargs, memo_attrs=None):
    """Run the method `entry` of class `ci` with atom arguments on a fresh instance and audit every memo store.

    Returns (records, problems): records = [(memo attr, key value, stored value, ctrl deps, path conds)], problems =
    [(kind, text)] with kind in {'incomplete', 'keyerror', 'inplace', 'unknown'}."""
    from ..core.db import walk_no_nested
    init = db.method(ci, '__init__')
    memos = memo_attrs
    if memos is None:
        memos = [t.attr for st in (init.node.body if init else []) if isinstance(st, ast.Assign) and isinstance(st.value, ast.Dict) and not st.value.keys
                 for t in st.targets if isinstance(t, ast.Attribute)]
    holder = {}
    fills = set()
    for m_ in ci.methods.values():
        for n_ in walk_no_nested(m_.node):
            if isinstance(n_, ast.Assign) and any(isinstance(t_, ast.Subscript) and isinstance(t_.value, ast.Attribute) and t_.value.attr in memos for t_ in n_.targets):
                fills.add(m_.qual)
    dom.fill_quals = fills

    def mkself():
        o = Obj(ci)
        for m in memos:
            o.attrs[m] = MemoDict(dom, m)
        holder['o'] = o
        return o

    def setup(interp):
        dom.reset()
    records, problems = [], []
    seen = set()
    for p in it.run(entry, kwargs=kwargs, self_obj=mkself, setup=setup):
        o = holder['o']
        if p.outcome != 'return':
            why = getattr(p, 'value', None)
            txt = repr(why)
            if 'KeyError' in txt:
                problems.append(('keyerror', 'a memo is read under a key that was not stored on the path %s' % (p.conds,)))
            continue
        ctrl = set()
        for node, c, attr in dom.store_ctrl:
            if attr in memos:
                ctrl |= c
        for m in memos:
            d = o.attrs.get(m)
            if not isinstance(d, DictV):
                continue
            for k, v in d.entries:
                need = deps_of(v) | ctrl
                if UNKNOWN in need:
                    problems.append(('unknown', 'the value stored in self.%s is outside the DEP fragment: %r' % (m, [x for x in ([v] if not isinstance(v, Tup) else v.items) if isinstance(x, Unknown)][:2])))
                    need.discard(UNKNOWN)
                miss = missing_from(k, need)
                sig = (m, tuple(miss))
                records.append((m, k, v, ctrl, list(p.conds)))
                if miss and sig not in seen:
                    seen.add(sig)
                    problems.append(('incomplete', 'self.%s is filled from %s, which the key does not determine' % (m, miss)))
        for node, m in dom.inplace:
            problems.append(('inplace', 'in-place operation at line %d on an array held by the memo self.%s' % (getattr(node, 'lineno', 0), m)))
    return records, problems
