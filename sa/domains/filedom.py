"""FILE: a domain in which a writer can be interpreted into a *symbolic file* and a reader interpreted on that file.

Arrays have a small concrete shape and symbolic cells (views share their cells, so a store through a view is seen through every other
one); text is a string in which every formatted value is one placeholder character standing for a token whose value is known and whose
width is not; binary data is a list of bytes, each a number or "byte k of n of field f".  Built on NORM for the scalar algebra.
Pure stdlib."""
import ast
import itertools
import math
import struct
from fractions import Fraction

from ..core.db import AnalysisError
from ..core.interp import Value, Const, Tup, Unknown, Slice, ExtRef, AbsRaise, DictV, _Break, _Continue
from ..core.norm import Rat
from .normdom import NormDomain, Sym

PUA0 = 0xE000


class Box:
    __slots__ = ('v',)

    def __init__(self, v):
        self.v = v


class Junk(Value):
    """a determined value that is not a measurement: int(NaN), a sample made of data bytes and padding, uninitialised memory"""

    def __init__(self, why):
        self.why = why

    def __repr__(self):
        return 'Junk(%s)' % self.why


class DType(Value):
    def __init__(self, kind, size, order='<'):
        self.kind, self.size, self.order = kind, size, ('<' if order in ('=', '@', '|') else order)

    def code(self):
        c = {('i', 1): 'b', ('i', 2): 'h', ('i', 4): 'i', ('i', 8): 'q', ('u', 1): 'B', ('u', 2): 'H', ('u', 4): 'I', ('u', 8): 'Q',
             ('f', 2): 'e', ('f', 4): 'f', ('f', 8): 'd'}.get((self.kind, self.size))
        return None if c is None else self.order + c

    def __repr__(self):
        return 'DType(%s%s%d)' % (self.order, self.kind, self.size)

    def __eq__(self, o):
        return isinstance(o, DType) and (self.kind, self.size, self.order) == (o.kind, o.size, o.order)

    def __hash__(self):
        return hash((self.kind, self.size, self.order))


_NP_TYPES = {'int8': ('i', 1), 'int16': ('i', 2), 'int32': ('i', 4), 'int64': ('i', 8), 'uint8': ('u', 1), 'uint16': ('u', 2), 'uint32': ('u', 4),
             'uint64': ('u', 8), 'float16': ('f', 2), 'float32': ('f', 4), 'float64': ('f', 8), 'intc': ('i', 4), 'int_': ('i', 8), 'double': ('f', 8),
             'single': ('f', 4), 'short': ('i', 2), 'ushort': ('u', 2), 'uintc': ('u', 4), 'longlong': ('i', 8)}
_STR_TYPES = {'i1': ('i', 1), 'i2': ('i', 2), 'i4': ('i', 4), 'i8': ('i', 8), 'u1': ('u', 1), 'u2': ('u', 2), 'u4': ('u', 4), 'u8': ('u', 8),
              'f2': ('f', 2), 'f4': ('f', 4), 'f8': ('f', 8), 'b': ('i', 1), 'B': ('u', 1), 'h': ('i', 2), 'H': ('u', 2), 'i': ('i', 4), 'I': ('u', 4),
              'l': ('i', 8), 'L': ('u', 8), 'q': ('i', 8), 'Q': ('u', 8), 'e': ('f', 2), 'f': ('f', 4), 'd': ('f', 8)}
_STR_TYPES.update({k: v for k, v in _NP_TYPES.items()})


def as_dtype(v):
    """Value -> DType or None (np.int32, 'int32', '>i4', a DType, builtin int / float)"""
    if isinstance(v, DType):
        return v
    if isinstance(v, ExtRef) and v.dotted.startswith('numpy.') and v.dotted[6:] in _NP_TYPES:
        return DType(*_NP_TYPES[v.dotted[6:]])
    if isinstance(v, Const) and isinstance(v.v, str):
        s = v.v
        order = '<'
        if s and s[0] in '<>=|':
            order, s = s[0], s[1:]
        if s in _STR_TYPES:
            return DType(*_STR_TYPES[s], order=order)
    from ..core.interp import BuiltinRef
    if isinstance(v, BuiltinRef) and v.name in ('int', 'float'):
        return DType('i' if v.name == 'int' else 'f', 8)
    return None


def _size(shape):
    n = 1
    for d in shape:
        n *= d
    return n


class FArr(Value):
    """concrete shape, cells in boxes (C order); views share boxes"""

    def __init__(self, shape, boxes, dtype=None, swapped=False):
        self.shape = tuple(shape)
        self.boxes = list(boxes)
        self.dtype = dtype
        self.swapped = swapped          # byteswap() without a matching change of dtype: the values are not readable, the bytes are
        assert len(self.boxes) == _size(self.shape), (self.shape, len(self.boxes))

    @classmethod
    def of(cls, shape, values, dtype=None):
        return cls(shape, [Box(v) for v in values], dtype)

    def values(self):
        return [b.v for b in self.boxes]

    @property
    def ndim(self):
        return len(self.shape)

    @property
    def size(self):
        return len(self.boxes)

    def __repr__(self):
        return 'FArr%s%r' % (self.shape, self.values())

    def view(self, shape, order=None):
        return FArr(shape, self.boxes if order is None else [self.boxes[k] for k in order], self.dtype, self.swapped)

    def flat_index(self, idx):
        k = 0
        for i, d in zip(idx, self.shape):
            k = k * d + i
        return k

    def axis_perm(self, perm):
        """the view with axes in the order perm"""
        shape = tuple(self.shape[p] for p in perm)
        order = []
        for idx in itertools.product(*[range(d) for d in shape]):
            src = [0] * self.ndim
            for pos, p in enumerate(perm):
                src[p] = idx[pos]
            order.append(self.flat_index(src))
        return self.view(shape, order)

    def flipped(self, axes):
        order = []
        for idx in itertools.product(*[range(d) for d in self.shape]):
            src = [(self.shape[a] - 1 - i) if a in axes else i for a, i in enumerate(idx)]
            order.append(self.flat_index(src))
        return self.view(self.shape, order)


def is_nan(v):
    return isinstance(v, Const) and isinstance(v.v, float) and v.v != v.v


NAN = Const(float('nan'))


class Pos(Value):
    """a position in (or the length of) a text that contains tokens of unknown width: exact as a place between two characters, not as a number"""

    def __init__(self, n, text=None):
        self.n = n

    def __repr__(self):
        return 'Pos(%d)' % self.n


class Text(Value):
    """a string with placeholder characters (dom.holes[ch] = (value, exact)); `upto` marks a prefix txt[:k] whose end is not known
    (it covers at least the part before the first placeholder, at most `s`)"""

    def __init__(self, s, upto=False):
        self.s = s
        self.upto = upto

    def __repr__(self):
        return 'Text(%r%s)' % (self.s, '...?' if self.upto else '')

    def __eq__(self, o):
        return isinstance(o, Text) and o.s == self.s and o.upto == self.upto

    def __hash__(self):
        return hash(self.s)


def has_holes(s):
    return any(PUA0 <= ord(c) < PUA0 + 0x1900 for c in s)


class BytesV(Value):
    """items: int (a byte) or (field id, k, n) = byte k of the n bytes of field id"""

    def __init__(self, items, mutable=False):
        self.items = list(items)
        self.mutable = mutable

    def __repr__(self):
        return 'Bytes(%d)' % len(self.items)


class StructV(Value):
    def __init__(self, fmt):
        self.fmt = fmt

    def __repr__(self):
        return 'Struct(%r)' % self.fmt


class FInfo(Value):
    def __init__(self, kind):
        self.kind = kind


class FileH(Value):
    """an open file (or a path that names it): content is a Text / str for text files, a BytesV for binary ones"""

    def __init__(self, key, mode='r'):
        self.key, self.mode, self.pos, self.closed = key, mode, 0, False

    def __repr__(self):
        return 'File(%s,%s)' % (self.key, self.mode)


_ELEMENTWISE = ('hypot', 'arctan2', 'cos', 'sin', 'tan', 'exp', 'log', 'log10', 'arccos', 'arcsin', 'arctan', 'power', 'maximum', 'minimum', 'sign', 'deg2rad', 'radians',
                'rad2deg', 'degrees', 'sinh', 'cosh', 'tanh', 'expm1', 'log1p')
_CODE_SIZE = {'x': 1, 'c': 1, 'b': 1, 'B': 1, '?': 1, 'h': 2, 'H': 2, 'i': 4, 'I': 4, 'l': 4, 'L': 4, 'q': 8, 'Q': 8, 'e': 2, 'f': 4, 'd': 8, 's': 1, 'p': 1}


def parse_struct(fmt):
    """'>30sH' -> (order, [(count, code)...]) with standard sizes (native formats are read as little-endian standard)"""
    order = '<'
    if fmt and fmt[0] in '@=<>!':
        order = {'@': '<', '=': '<', '!': '>'}.get(fmt[0], fmt[0])
        fmt = fmt[1:]
    out = []
    num = ''
    for ch in fmt:
        if ch.isdigit():
            num += ch
            continue
        if ch.isspace():
            continue
        if ch not in _CODE_SIZE:
            raise ValueError(ch)
        out.append((int(num) if num else 1, ch))
        num = ''
    return order, out


class FileDomain(NormDomain):
    name = 'FILE'
    scalar_mode = True
    alias_inplace = False       # np.<ufunc>(..., out=x) writes into the cells of x (every view sees it)

    def __init__(self, **kw):
        NormDomain.__init__(self, **kw)
        self.holes = {}           # placeholder char -> (value, exact)
        self.fields = {}          # field id -> (struct code with order, value)
        self.files = {}           # key -> Text / str / BytesV
        self.count_range = None   # (lo, hi) of a valid stored count
        self.count_src = {}       # count atom -> the writer's value
        self.assumed = []         # decisions taken from the valid range of the stored counts
        self.warned = []          # warnings.warn calls
        self.stats = {}           # order-statistic atom -> (min / max / mean ..., [Rat of each cell])
        self.tiny = set()         # atoms standing for a machine epsilon
        self._n = 0

    def param(self, fi, name, default):
        # a routine is run as it would be called: a parameter that is not given takes its default
        if default is not None:
            return default
        return NormDomain.param(self, fi, name, default)

    # ------------------------------------------------------------------ helpers
    def fresh(self, prefix):
        self._n += 1
        return '%s%d' % (prefix, self._n)

    def is_cell(self, v):
        return isinstance(v, (Sym, Junk, Unknown)) or (isinstance(v, Const) and isinstance(v.v, (int, float, bool, complex)))

    def emap(self, f, *ops):
        """elementwise with numpy broadcasting; scalars are cells"""
        shapes = [o.shape for o in ops if isinstance(o, FArr)]
        nd = max(len(s) for s in shapes)
        out_shape = []
        for k in range(nd):
            dims = {s[len(s) - nd + k] for s in shapes if len(s) - nd + k >= 0}
            dims.discard(1)
            if len(dims) > 1:
                raise AbsRaise('ValueError')
            out_shape.append(dims.pop() if dims else 1)
        vals = []
        for idx in itertools.product(*[range(d) for d in out_shape]):
            cells = []
            for o in ops:
                if isinstance(o, FArr):
                    if o.swapped:
                        cells.append(Unknown('value of a byte-swapped array'))
                        continue
                    sub = idx[nd - o.ndim:]
                    cells.append(o.boxes[o.flat_index([0 if d == 1 else i for i, d in zip(sub, o.shape)])].v)
                else:
                    cells.append(o)
            vals.append(f(*cells))
        return FArr.of(out_shape, vals)

    def cell_binop(self, op, a, b, node):
        for x in (a, b):
            if isinstance(x, Junk):
                return x
        for x in (a, b):
            if isinstance(x, Unknown):
                return x
        if is_nan(a) or is_nan(b):
            if isinstance(op, (ast.BitAnd, ast.BitOr, ast.BitXor)):
                return Unknown('bit operation on NaN')
            return NAN
        if isinstance(op, (ast.Div, ast.FloorDiv, ast.Mod)) and isinstance(b, Const) and isinstance(b.v, (int, float)) and not isinstance(b.v, bool) and b.v == 0:
            if isinstance(a, Const) and isinstance(a.v, (int, float)) and a.v == 0:
                return NAN
            return Junk('a number divided by zero (inf)')
        if isinstance(a, Const) and isinstance(b, Const) and isinstance(a.v, bool) and isinstance(b.v, bool) and isinstance(op, (ast.BitAnd, ast.BitOr, ast.BitXor)):
            return Const({ast.BitAnd: a.v and b.v, ast.BitOr: a.v or b.v, ast.BitXor: a.v != b.v}[type(op)])
        return self.interp.binop(op, a, b, node)

    def cell_compare(self, op, a, b, node):
        """Const(bool) or Unknown"""
        for x, y in ((a, b), (b, a)):
            if isinstance(x, Junk) and getattr(x, 'in_range', False) and isinstance(y, Const) and isinstance(y.v, (int, float)) and self.count_range is not None:
                # a number put together from the leading bytes of a valid stored count and zero padding lies in the valid range as well
                r = self._range_cmp(op if x is a else {ast.Lt: ast.Gt, ast.LtE: ast.GtE, ast.Gt: ast.Lt, ast.GtE: ast.LtE}.get(type(op), type(op))(), y.v, 'a partial sample')
                if r is not None:
                    return Const(r)
        for x in (a, b):
            if isinstance(x, Unknown):
                return Unknown('comparison with a value that is not followed')
        for x in (a, b):
            if isinstance(x, Junk):
                return x            # a test on a number that is not a measurement: whichever way it goes, what it guards is not one either
        if is_nan(a) or is_nan(b):
            return Const(isinstance(op, ast.NotEq))
        r = self.scalar_compare(op, a, b, node)
        if r is None and isinstance(a, Const) and isinstance(b, Const):
            r = self.interp.compare(op, a, b, node)
        return Const(bool(r)) if r is not None and not isinstance(r, Value) else Unknown('comparison not decided')

    def _range_cmp(self, op, c, what):
        import operator
        ops = {ast.Eq: operator.eq, ast.NotEq: operator.ne, ast.Lt: operator.lt, ast.LtE: operator.le, ast.Gt: operator.gt, ast.GtE: operator.ge}
        if type(op) not in ops:
            return None
        lo, hi = self.count_range
        if isinstance(op, (ast.Eq, ast.NotEq)):
            if lo <= c <= hi:
                return None
            self.assumed.append('%s %s %r decided: valid counts lie in [%s, %s]' % (what, type(op).__name__, c, lo, hi))
            return isinstance(op, ast.NotEq)
        f = ops[type(op)]
        if f(lo, c) == f(hi, c):
            self.assumed.append('%s %s %r decided: valid counts lie in [%s, %s]' % (what, type(op).__name__, c, lo, hi))
            return f(lo, c)
        return None

    def scalar_compare(self, op, a, b, node):
        # a stored count against a constant: decided by the valid range of the format
        import operator
        ops = {ast.Eq: operator.eq, ast.NotEq: operator.ne, ast.Lt: operator.lt, ast.LtE: operator.le, ast.Gt: operator.gt, ast.GtE: operator.ge}
        flip = {ast.Lt: ast.Gt, ast.LtE: ast.GtE, ast.Gt: ast.Lt, ast.GtE: ast.LtE, ast.Eq: ast.Eq, ast.NotEq: ast.NotEq}
        if type(op) in ops and self.count_range is not None:
            if isinstance(b, Sym) and isinstance(a, Const):
                a, b, op = b, a, flip[type(op)]()
            if isinstance(a, Sym) and isinstance(b, Const) and isinstance(b.v, (int, float)) and not isinstance(b.v, bool):
                ats = a.r.atoms()
                if len(ats) == 1 and list(ats)[0] in self.count_src and a.r == Rat(self.R.atom(list(ats)[0])):
                    lo, hi = self.count_range
                    f = ops[type(op)]
                    r_lo, r_hi = f(lo, b.v), f(hi, b.v)
                    inside = lo <= b.v <= hi
                    if isinstance(op, (ast.Eq, ast.NotEq)):
                        if not inside:
                            self.assumed.append('%s %s %r decided: valid counts lie in [%s, %s]' % (list(ats)[0], type(op).__name__, b.v, lo, hi))
                            return isinstance(op, ast.NotEq)
                        return None
                    if r_lo == r_hi:
                        self.assumed.append('%s %s %r decided: valid counts lie in [%s, %s]' % (list(ats)[0], type(op).__name__, b.v, lo, hi))
                        return r_lo
                    return None
        return NormDomain.compare(self, op, a, b, node)

    # ------------------------------------------------------------------ arithmetic
    def binop(self, op, a, b, node):
        if isinstance(op, ast.MatMult) and isinstance(a, FArr) and isinstance(b, FArr):
            return self.matmul(a, b, node)
        if isinstance(a, FArr) or isinstance(b, FArr):
            if not all(isinstance(x, FArr) or self.is_cell(x) for x in (a, b)):
                return Unknown('array arithmetic with %r' % (b if isinstance(a, FArr) else a,))
            return self.emap(lambda x, y: self.cell_binop(op, x, y, node), a, b)
        if isinstance(a, (Text,)) or isinstance(b, (Text,)) or (isinstance(op, ast.Add) and any(isinstance(x, Const) and isinstance(x.v, str) for x in (a, b))):
            if isinstance(op, ast.Add):
                sa, sb = self.text_of(a), self.text_of(b)
                if sa is not None and sb is not None and not getattr(a, 'upto', False) and not getattr(b, 'upto', False):
                    return self.mk_text(sa + sb)
            if isinstance(op, ast.Mod) and isinstance(a, Const) and isinstance(a.v, str):
                return self.percent_format(a.v, b)
            return Unknown('text arithmetic')
        if isinstance(op, ast.Mod) and isinstance(a, Const) and isinstance(a.v, str) and not isinstance(b, Const):
            return self.percent_format(a.v, b)
        if isinstance(a, BytesV) or isinstance(b, BytesV):
            ia, ib = self.bytes_items(a), self.bytes_items(b)
            if isinstance(op, ast.Add) and ia is not None and ib is not None:
                return BytesV(ia + ib)
            if isinstance(op, ast.Mult):
                for x, y in ((a, b), (b, a)):
                    if isinstance(x, BytesV) and isinstance(y, Const) and isinstance(y.v, int):
                        return BytesV(x.items * y.v)
            return Unknown('bytes arithmetic')
        if isinstance(a, Pos) or isinstance(b, Pos):
            if isinstance(a, Pos) and isinstance(b, Const) and isinstance(b.v, int) and isinstance(op, (ast.Add, ast.Sub)):
                return Pos(a.n + b.v if isinstance(op, ast.Add) else a.n - b.v)
            if isinstance(b, Pos) and isinstance(a, Const) and isinstance(a.v, int) and isinstance(op, ast.Add):
                return Pos(b.n + a.v)
            return Unknown('arithmetic on a position in a text of unknown width')
        if isinstance(a, (Junk, Unknown)) or isinstance(b, (Junk, Unknown)):
            return a if isinstance(a, (Junk, Unknown)) else b
        if is_nan(a) or is_nan(b):
            return NAN
        return NormDomain.binop(self, op, a, b, node)

    def unary(self, op, a, node):
        if isinstance(a, FArr):
            def f(x):
                if isinstance(op, ast.Invert) and isinstance(x, Const) and isinstance(x.v, bool):
                    return Const(not x.v)
                if isinstance(x, (Junk, Unknown)) or is_nan(x):
                    return x
                return self.interp.ev_unary_value(op, x, node)
            return self.emap(f, a)
        return NormDomain.unary(self, op, a, node)

    def compare(self, op, a, b, node):
        if isinstance(op, (ast.In, ast.NotIn)) and isinstance(b, DictV) and not b.open and isinstance(a, (Tup, Const, Sym)):
            # a memo probed with `key in memo`: the samples and parameters are in general position (different symbols stand for different
            # values -- the case in which two of them coincide is the case in which they are written with one symbol), so a key is in the
            # memo exactly when an entry was stored under the same key
            hit = any(k == a for k, _ in b.entries)
            return hit == isinstance(op, ast.In)
        if isinstance(op, (ast.Is, ast.IsNot)) and isinstance(a, (FArr, BytesV, FileH)) and isinstance(b, (FArr, BytesV, FileH)):
            # arrays are objects: two names are the same array when they hold the same object (a view is another object)
            return (a is b) == isinstance(op, ast.Is)
        if isinstance(a, FArr) or isinstance(b, FArr):
            if isinstance(op, (ast.Is, ast.IsNot, ast.In, ast.NotIn)):
                return None
            return self.emap(lambda x, y: self.cell_compare(op, x, y, node), a, b)
        if isinstance(a, Pos) or isinstance(b, Pos):
            import operator
            ops = {ast.Eq: operator.eq, ast.NotEq: operator.ne, ast.Lt: operator.lt, ast.LtE: operator.le, ast.Gt: operator.gt, ast.GtE: operator.ge}
            if type(op) not in ops:
                return None
            if isinstance(a, Pos) and isinstance(b, Pos):
                return ops[type(op)](a.n, b.n)
            p, c, f = (a, b, ops[type(op)]) if isinstance(a, Pos) else (b, a, lambda x, y: ops[type(op)](y, x))
            if isinstance(c, Const) and isinstance(c.v, int) and c.v <= 0 and (c.v < 0 or p.n > 0):
                return f(max(p.n, 1), c.v)          # a position that exists is >= 0 (> 0 when characters precede it)
            return None
        if isinstance(a, Text) or isinstance(b, Text):
            if isinstance(op, (ast.Eq, ast.NotEq)):
                sa, sb = self.text_of(a), self.text_of(b)
                if sa is None or sb is None or getattr(a, 'upto', False) or getattr(b, 'upto', False):
                    return None
                if sa == sb:
                    return isinstance(op, ast.Eq)
                if not has_holes(sa) or not has_holes(sb):
                    # a token of unknown digits equals a literal only if the literal could be that token
                    lit, oth = (sa, sb) if not has_holes(sa) else (sb, sa)
                    if self.could_match(oth, lit):
                        return None
                    return isinstance(op, ast.NotEq)
                return None
            if isinstance(op, (ast.In, ast.NotIn)) and isinstance(b, Text) and isinstance(a, Const) and isinstance(a.v, str):
                r = self.text_find(b, a.v, 0, None)
                if r is None:
                    return None
                return (not (isinstance(r, Const) and r.v == -1)) == isinstance(op, ast.In)
            return None
        if isinstance(a, BytesV) or isinstance(b, BytesV):
            return None
        return self.scalar_compare(op, a, b, node)

    def truth(self, v):
        if isinstance(v, FArr):
            if v.size == 1:
                return self.truth(v.boxes[0].v) if not isinstance(v.boxes[0].v, Const) else bool(v.boxes[0].v.v)
            return None
        if isinstance(v, Text):
            return True if v.s else None
        if isinstance(v, BytesV):
            return len(v.items) > 0
        if isinstance(v, FileH):
            return True
        if isinstance(v, Pos):
            return True if v.n > 0 else None
        return NormDomain.truth(self, v)

    # ------------------------------------------------------------------ indexing
    def _int(self, v):
        if isinstance(v, Const) and isinstance(v.v, int) and not isinstance(v.v, bool):
            return v.v
        if isinstance(v, Sym) and v.r.num.is_const() and v.r.den.is_const():
            c = v.r.num.const_value() / v.r.den.const_value()
            if c.denominator == 1:
                return int(c)
        return None

    def select(self, arr, idx, node):
        """(shape, [flat positions]) of arr[idx] for basic indexing, one boolean mask, or one list of integers; None: not followed"""
        items = list(idx.items) if isinstance(idx, Tup) and idx.kind == 'tuple' else [idx]
        # a boolean mask of the whole array
        if len(items) == 1 and isinstance(items[0], FArr) and items[0].shape == arr.shape and arr.ndim >= 1 \
                and not all(self._int(x) is not None for x in items[0].values()):
            m = items[0].values()
            if all(isinstance(x, Const) and isinstance(x.v, bool) for x in m):
                sel = [k for k, x in enumerate(m) if x.v]
                return (len(sel),), sel
            return None
        # an open mesh (np.ix_): index arrays of shapes (n, 1) and (1, m) select the n x m block of their combinations
        if len(items) == arr.ndim == 2 and all(isinstance(x, FArr) and x.ndim == 2 for x in items) and items[0].shape[1] == 1 and items[1].shape[0] == 1:
            ri, ci = [self._int(c) for c in items[0].values()], [self._int(c) for c in items[1].values()]
            if None in ri or None in ci:
                return None
            if any(not -arr.shape[0] <= i < arr.shape[0] for i in ri) or any(not -arr.shape[1] <= j < arr.shape[1] for j in ci):
                raise AbsRaise('IndexError', node)
            return (len(ri), len(ci)), [arr.flat_index((i % arr.shape[0], j % arr.shape[1])) for i in ri for j in ci]
        # pointwise indexing with one integer array per axis: a[rows, cols]
        if len(items) == arr.ndim >= 2 and all(isinstance(x, (FArr, Tup)) for x in items):
            lists = []
            nd_shapes = {x.shape for x in items if isinstance(x, FArr) and x.ndim != 1}
            if nd_shapes and (len(nd_shapes) != 1 or not all(isinstance(x, FArr) and x.ndim != 1 for x in items)):
                return None         # index arrays of several shapes broadcast against each other: not modelled
            for x, d in zip(items, arr.shape):
                cells = x.values() if isinstance(x, FArr) else x.items
                ii = [self._int(c) for c in cells]
                if None in ii:
                    return None
                if any(not -d <= i < d for i in ii):
                    raise AbsRaise('IndexError', node)
                lists.append([i % d for i in ii])
            if len({len(l) for l in lists}) != 1:
                if min(len(l) for l in lists) == 1:
                    n_ = max(len(l) for l in lists)
                    lists = [l * n_ if len(l) == 1 else l for l in lists]
                if len({len(l) for l in lists}) != 1:
                    raise AbsRaise('IndexError', node)
            return (tuple(nd_shapes)[0] if nd_shapes else (len(lists[0]),)), [arr.flat_index(idx) for idx in zip(*lists)]
        n_real = sum(1 for x in items if not (isinstance(x, Const) and (x.v is None or x.v is Ellipsis)))
        if any(isinstance(x, Const) and x.v is Ellipsis for x in items):
            k = [i for i, x in enumerate(items) if isinstance(x, Const) and x.v is Ellipsis][0]
            items[k:k + 1] = [Slice(Const(None), Const(None), Const(None))] * (arr.ndim - n_real)
        else:
            items = items + [Slice(Const(None), Const(None), Const(None))] * (arr.ndim - n_real)
        per_axis = []       # (list of indices, keep axis?) or ('new',)
        ax = 0
        for x in items:
            if isinstance(x, Const) and x.v is None:
                per_axis.append(('new',))
                continue
            if ax >= arr.ndim:
                raise AbsRaise('IndexError', node)
            d = arr.shape[ax]
            if isinstance(x, Slice):
                lo, hi, st = [None if (isinstance(z, Const) and z.v is None) else self._int(z) for z in (x.lo, x.hi, x.step)]
                if any(v is None and not (isinstance(z, Const) and z.v is None) for v, z in zip((lo, hi, st), (x.lo, x.hi, x.step))):
                    return None
                per_axis.append((list(range(d))[slice(lo, hi, st)], True))
            elif self._int(x) is not None:
                i = self._int(x)
                if not -d <= i < d:
                    raise AbsRaise('IndexError', node)
                per_axis.append(([i % d], False))
            elif isinstance(x, FArr) and x.ndim == 1 and x.shape[0] == d and all(isinstance(c, Const) and isinstance(c.v, bool) for c in x.values()):
                per_axis.append(([k for k, c in enumerate(x.values()) if c.v], True))
            elif isinstance(x, (FArr, Tup)) and all(self._int(c) is not None for c in (x.values() if isinstance(x, FArr) else x.items)):
                ii = [self._int(c) for c in (x.values() if isinstance(x, FArr) else x.items)]
                if any(not -d <= i < d for i in ii):
                    raise AbsRaise('IndexError', node)
                per_axis.append(([i % d for i in ii], True))
            else:
                return None
            ax += 1
        shape = []
        lists = []
        for pa in per_axis:
            if pa[0] == 'new':
                shape.append(1)
            else:
                if pa[1]:
                    shape.append(len(pa[0]))
                lists.append(pa[0])
        sel = [arr.flat_index(c) for c in itertools.product(*lists)]
        return tuple(shape), sel

    def subscript(self, v, idx, node):
        if isinstance(v, FArr):
            r = self.select(v, idx, node)
            if r is None:
                return Unknown('array index that is not followed')
            shape, sel = r
            if not shape:
                return v.boxes[sel[0]].v if not v.swapped else Unknown('value of a byte-swapped array')
            return FArr(shape, [v.boxes[k] for k in sel], v.dtype, v.swapped)
        if isinstance(v, (Text,)) or (isinstance(v, Const) and isinstance(v.v, str)):
            return self.text_subscript(v, idx, node)
        if isinstance(v, BytesV) or (isinstance(v, Const) and isinstance(v.v, (bytes, bytearray))):
            items = self.bytes_items(v)
            if isinstance(idx, Slice):
                b = [None if (isinstance(z, Const) and z.v is None) else self._int(z) for z in (idx.lo, idx.hi, idx.step)]
                if any(x is None and not (isinstance(z, Const) and z.v is None) for x, z in zip(b, (idx.lo, idx.hi, idx.step))):
                    return Unknown('slice of bytes with bounds that are not followed')
                return BytesV(items[slice(*b)])
            i = self._int(idx)
            if i is not None:
                if not -len(items) <= i < len(items):
                    raise AbsRaise('IndexError', node)
                x = items[i]
                return Const(x) if isinstance(x, int) else Unknown('one byte of a packed value')
            return Unknown('bytes index')
        return NormDomain.subscript(self, v, idx, node)

    def store_subscript(self, target, idx, val, node):
        if isinstance(target, FArr):
            if isinstance(idx, FArr) and idx.shape == target.shape and not isinstance(val, FArr) and any(not isinstance(c, Const) for c in idx.values()) \
                    and all(isinstance(c, (Unknown, Junk)) or (isinstance(c, Const) and isinstance(c.v, bool)) for c in idx.values()):
                # a mask with cells that are not decided: the store is followed where the mask is
                for b, c in zip(target.boxes, idx.values()):
                    if isinstance(c, Const):
                        if c.v:
                            b.v = val
                    elif isinstance(c, Junk) and isinstance(b.v, Junk):
                        j = Junk(b.v.why)
                        j.maybe = val           # either the value stored under the mask, or the number that was there: not the sample in either case
                        b.v = j
                    else:
                        b.v = Unknown('store under a mask cell that is not decided')
                return True
            r = self.select(target, idx, node)
            if r is None:
                for b in target.boxes:
                    b.v = Unknown('store with an index that is not followed')
                return True
            shape, sel = r
            if isinstance(val, FArr):
                if val.size == len(sel):
                    vals = val.values()
                elif val.size == 1:
                    vals = val.values() * len(sel)
                else:
                    # trailing-axes broadcast
                    if shape and len(sel) % val.size == 0 and tuple(shape[len(shape) - val.ndim:]) == val.shape:
                        vals = val.values() * (len(sel) // val.size)
                    else:
                        raise AbsRaise('ValueError', node)
            else:
                vals = [val] * len(sel)
            for k, x in zip(sel, vals):
                target.boxes[k].v = x
            return True
        if isinstance(target, BytesV) and target.mutable:
            if isinstance(idx, Slice):
                b = [None if (isinstance(z, Const) and z.v is None) else self._int(z) for z in (idx.lo, idx.hi, idx.step)]
                new = self.bytes_items(val)
                if new is None or any(x is None and not (isinstance(z, Const) and z.v is None) for x, z in zip(b, (idx.lo, idx.hi, idx.step))):
                    target.items = [('?', 0, 1)] * len(target.items)
                    return True
                n0 = len(target.items)
                target.items[slice(*b)] = new
                if len(target.items) != n0 and isinstance(getattr(target, 'fixed', None), int):
                    raise AbsRaise('ValueError', node)
                return True
            i = self._int(idx)
            if i is not None and self._int(val) is not None:
                target.items[i] = self._int(val) & 255
                return True
            target.items = [('?', 0, 1)] * len(target.items)
            return True
        if isinstance(target, Unknown):
            # the value that is written into was lost (an array routine this domain does not model, ...): it may be a view of an array the
            # rule goes on to judge, and dropping the store would leave that array as it was.  Not followed, said so.
            raise AnalysisError('a store into a value that was not followed (%s), which may be a view of an array that is judged later' % (target.why if hasattr(target, 'why') else target,))
        return None

    def augassign(self, op, target, val, node):
        if isinstance(target, FArr):
            new = self.binop(op, target, val, node)
            if isinstance(new, FArr) and new.shape == target.shape:
                for b, x in zip(target.boxes, new.values()):
                    b.v = x
                return target
            return None
        return None

    def iterate(self, v, node):
        if isinstance(v, FArr) and v.ndim >= 1:
            return [self.subscript(v, Const(i), node) for i in range(v.shape[0])]
        if isinstance(v, BytesV):
            return [Const(x) if isinstance(x, int) else Unknown('one byte of a packed value') for x in v.items]
        if isinstance(v, FileH):
            t = self.file_text(v)
            return self.text_lines(t, keepends=True) if t is not None else None
        return None

    # ------------------------------------------------------------------ array attributes / methods
    def getattr(self, v, name, node):
        if isinstance(v, FArr):
            if name == 'shape':
                return Tup([Const(d) for d in v.shape])
            if name == 'ndim':
                return Const(v.ndim)
            if name == 'size':
                return Const(v.size)
            if name == 'T':
                return v.axis_perm(list(reversed(range(v.ndim))))
            if name == 'dtype':
                return v.dtype if v.dtype is not None else DType('f', 8)
            if name == 'flat':
                return v.view((v.size,))
            if name == 'nbytes':
                return Const(v.size * (v.dtype.size if v.dtype else 8))
            if name == 'itemsize':
                return Const(v.dtype.size if v.dtype else 8)
            if name in ('real', 'imag'):
                return self.np_array_fn(name, v, [v], {}, node)
            return None
        if isinstance(v, StructV):
            if name == 'size':
                return self.struct_fn('calcsize', [Const(v.fmt)], {}, node)
            if name == 'format':
                return Const(v.fmt)
            return None
        if isinstance(v, FInfo):
            if name in ('eps', 'tiny', 'resolution', 'smallest_normal') and v.kind == 'finfo':
                self.tiny.add('machine_' + name)
                return self.sym('machine_' + name)
            return Unknown('machine limit %s' % name)
        if isinstance(v, DType):
            if name == 'itemsize':
                return Const(v.size)
            if name == 'kind':
                return Const(v.kind)
            if name == 'byteorder':
                return Const(v.order)
            if name == 'type':
                return v
            return None
        if isinstance(v, FileH):
            if name == 'closed':
                return Const(v.closed)
            if name == 'name':
                return Const(str(v.key))
            if name in ('write', 'read', 'close', 'readline', 'readlines', 'seek', 'tell', 'flush', 'writelines'):
                return None         # bound method (the interpreter builds it)
            return None
        return NormDomain.getattr(self, v, name, node)

    def _quant(self, x, how):
        if isinstance(x, (Junk, Unknown)):
            return x
        if is_nan(x):
            return Junk('%s(NaN)' % how) if how == 'int' else NAN
        if isinstance(x, Const) and isinstance(x.v, (int, bool)):
            return x
        if isinstance(x, Const) and isinstance(x.v, float):
            return Const({'int': int, 'round': round, 'floor': math.floor, 'ceil': math.ceil}[how](x.v))
        if isinstance(x, Sym):
            if self._int(x) is not None:
                return Const(self._int(x))
            if x.r.num.is_const() and x.r.den.is_const():
                c = x.r.num.const_value() / x.r.den.const_value()
                return Const({'int': int, 'round': round, 'floor': math.floor, 'ceil': math.ceil}[how](c))
            ats = x.r.atoms()
            if len(ats) == 1 and self.R.info.get(list(ats)[0], ('',))[0] == 'quant' and x.r == Rat(self.R.atom(list(ats)[0])):
                return x            # already whole
            return Sym(self.R.func('quant', [x.r]))
        return Unknown('quantisation of %r' % (x,))

    def astype(self, v, dt):
        if dt is not None and dt.kind in ('i', 'u'):
            return FArr.of(v.shape, [self._quant(x, 'int') for x in self._vals(v)], dt)
        return FArr.of(v.shape, self._vals(v), dt)

    def _vals(self, v):
        return [Unknown('value of a byte-swapped array')] * v.size if v.swapped else v.values()

    def method(self, v, name, args, kwargs, node):
        if isinstance(v, FArr):
            return self.arr_method(v, name, args, kwargs, node)
        if isinstance(v, Text) or (isinstance(v, Const) and isinstance(v.v, str) and any(isinstance(a, (Text, Pos)) for a in args)):
            return self.text_method(v, name, args, kwargs, node)
        if isinstance(v, Const) and isinstance(v.v, str) and name in ('format', 'join', 'encode'):
            return self.text_method(v, name, args, kwargs, node)
        if isinstance(v, BytesV) or (isinstance(v, Const) and isinstance(v.v, (bytes, bytearray))):
            return self.bytes_method(v, name, args, kwargs, node)
        if isinstance(v, FileH):
            return self.file_method(v, name, args, kwargs, node)
        if isinstance(v, StructV):
            if name in ('pack', 'pack_into', 'unpack', 'unpack_from', 'iter_unpack'):
                return self.struct_fn(name, [Const(v.fmt)] + list(args), kwargs, node)
            return Unknown('Struct method %s' % name)
        if isinstance(v, DType):
            if name == 'newbyteorder':
                o = args[0].v if args and isinstance(args[0], Const) else 'S'
                o = {'S': '>' if v.order == '<' else '<', 'big': '>', 'little': '<', 'B': '>', 'L': '<', '=': '<', 'native': '<', 'N': '<', '|': v.order}.get(o, o)
                return DType(v.kind, v.size, o)
            return Unknown('dtype method %s' % name)
        if isinstance(v, (Junk,)):
            return v
        if isinstance(v, Sym) and name in ('round',):
            return self._quant(v, 'round')
        return NormDomain.method(self, v, name, args, kwargs, node)

    def arr_method(self, v, name, args, kwargs, node):
        if name == 'astype':
            dt = as_dtype(args[0] if args else kwargs.get('dtype'))
            return self.astype(v, dt)
        if name == 'copy':
            return FArr.of(v.shape, v.values(), v.dtype) if not v.swapped else FArr(v.shape, [Box(b.v) for b in v.boxes], v.dtype, True)
        if name in ('ravel', 'flatten', 'reshape', 'view', 'squeeze', 'transpose', 'swapaxes', 'byteswap', 'newbyteorder', 'tobytes', 'tostring',
                    'tofile', 'tolist', 'item', 'fill', 'round', 'clip', 'min', 'max', 'sum', 'mean', 'any', 'all', 'nonzero'):
            pass
        if name in ('ravel', 'flatten'):
            o = kwargs.get('order', args[0] if args else Const('C'))
            if isinstance(o, Const) and o.v in ('C', 'K', 'A'):
                return v.view((v.size,)) if name == 'ravel' else FArr.of((v.size,), v.values(), v.dtype)
            if isinstance(o, Const) and o.v == 'F':
                t = v.axis_perm(list(reversed(range(v.ndim))))
                return t.view((v.size,))
            return Unknown('ravel order')
        if name == 'reshape':
            return self.reshape(v, args[0] if len(args) == 1 else Tup(args), kwargs, node)
        if name == 'squeeze' and not args and not kwargs:
            return v.view(tuple(d for d in v.shape if d != 1))
        if name == 'squeeze':
            ax = kwargs.get('axis', args[0] if args else None)
            axes = [self._int(ax)] if self._int(ax) is not None else ([self._int(x) for x in ax.items] if isinstance(ax, Tup) else [None])
            if None in axes:
                return Unknown('squeeze axis')
            axes = [k % v.ndim for k in axes]
            if any(v.shape[k] != 1 for k in axes):
                raise AbsRaise('ValueError', node)
            return v.view(tuple(d for k, d in enumerate(v.shape) if k not in axes))
        if name == 'transpose':
            perm = [self._int(a) for a in (args[0].items if len(args) == 1 and isinstance(args[0], Tup) else args)]
            if not perm:
                perm = list(reversed(range(v.ndim)))
            if None in perm or sorted(p % v.ndim for p in perm) != list(range(v.ndim)):
                return Unknown('transpose axes')
            return v.axis_perm([p % v.ndim for p in perm])
        if name == 'moveaxis' and len(args) == 2 and all(self._int(a) is not None for a in args):
            src, dst = self._int(args[0]) % v.ndim, self._int(args[1]) % v.ndim
            perm = [k for k in range(v.ndim) if k != src]
            perm.insert(dst, src)
            return v.axis_perm(perm)
        if name == 'swapaxes' and len(args) == 2 and all(self._int(a) is not None for a in args):
            perm = list(range(v.ndim))
            i, j = self._int(args[0]) % v.ndim, self._int(args[1]) % v.ndim
            perm[i], perm[j] = perm[j], perm[i]
            return v.axis_perm(perm)
        if name == 'byteswap':
            inplace = kwargs.get('inplace', args[0] if args else Const(False))
            if isinstance(inplace, Const) and not inplace.v:
                return FArr(v.shape, [Box(b.v) for b in v.boxes], v.dtype, not v.swapped)
            if isinstance(inplace, Const) and inplace.v:
                v.swapped = not v.swapped
                return v
            return Unknown('byteswap')
        if name == 'newbyteorder' or (name == 'view' and len(args) == 1 and as_dtype(args[0]) is not None):
            dt0 = v.dtype or DType('f', 8)
            if name == 'view':
                dt = as_dtype(args[0])
                if (dt.kind, dt.size) != (dt0.kind, dt0.size):
                    return Unknown('view with another item type')
            else:
                dt = self.method(dt0, 'newbyteorder', args, kwargs, node)
            sw = v.swapped != (dt.order != dt0.order)
            return FArr(v.shape, v.boxes, dt, sw)
        if name in ('tobytes', 'tostring'):
            o = kwargs.get('order', args[0] if args else Const('C'))
            if not (isinstance(o, Const) and o.v in ('C', None, 'A', 'K')):
                if isinstance(o, Const) and o.v == 'F':
                    return self.arr_bytes(v.axis_perm(list(reversed(range(v.ndim)))))
                return Unknown('tobytes order')
            return self.arr_bytes(v)
        if name == 'tofile' and args:
            f = args[0]
            sep = kwargs.get('sep', args[1] if len(args) > 1 else Const(''))
            if isinstance(sep, Const) and sep.v == '':
                self.file_write(f, self.arr_bytes(v), node, binary=True)
                return Const(None)
            return Unknown('tofile with a separator')
        if name == 'tolist':
            def rec(a):
                if not isinstance(a, FArr):
                    return a            # indexing the last axis gives the cell itself
                if a.ndim == 0:
                    return a.boxes[0].v
                return Tup([rec(self.subscript(a, Const(i), node)) for i in range(a.shape[0])], 'list')
            return rec(v)
        if name == 'item' and v.size == 1:
            return v.boxes[0].v
        if name == 'fill' and len(args) == 1:
            for b in v.boxes:
                b.v = args[0]
            return Const(None)
        if name == 'round':
            return FArr.of(v.shape, [self._quant(x, 'round') for x in self._vals(v)], v.dtype)
        if name in ('min', 'max', 'sum', 'mean', 'any', 'all', 'std', 'ptp', 'argmin', 'argmax', 'nonzero'):
            return self.call_ext('numpy.' + name, [v] + list(args), kwargs, node)
        if name in ('conj', 'conjugate'):
            return self.np_array_fn('conj', v, [v], {}, node)
        if name == 'dot' and args and isinstance(args[0], FArr):
            return self.matmul(v, args[0], node)
        if name == 'clip':
            return self.np_array_fn('clip', v, [v] + list(args), kwargs, node)
        if name == '__len__':
            return Const(v.shape[0]) if v.ndim else Unknown('len of 0-d')
        return Unknown('array method %s' % name)

    def reshape(self, v, shp, kwargs, node):
        dims = [self._int(x) for x in (shp.items if isinstance(shp, Tup) else [shp])]
        if None in dims:
            return Unknown('reshape to a shape that is not followed')
        if dims.count(-1) == 1:
            rest = _size([d for d in dims if d != -1])
            if rest == 0 or v.size % rest:
                raise AbsRaise('ValueError', node)
            dims[dims.index(-1)] = v.size // rest
        if _size(dims) != v.size:
            raise AbsRaise('ValueError', node)
        o = kwargs.get('order', Const('C'))
        if isinstance(o, Const) and o.v == 'F':
            # Fortran order read and Fortran order placement
            src = v.axis_perm(list(reversed(range(v.ndim)))).boxes
            tmp = FArr(tuple(reversed(dims)), src, v.dtype, v.swapped)
            return tmp.axis_perm(list(reversed(range(len(dims)))))
        if not (isinstance(o, Const) and o.v in ('C', 'A')):
            return Unknown('reshape order')
        return v.view(tuple(dims))

    # ------------------------------------------------------------------ library calls
    def call_ext(self, dotted, args, kwargs, node):
        if isinstance(kwargs.get('out'), FArr) and dotted.startswith('numpy.'):
            out = kwargs['out']
            r = self.interp.call_value(ExtRef(dotted), list(args), {k: v for k, v in kwargs.items() if k != 'out'}, node, None)
            if isinstance(r, FArr) and r.size == out.size:
                for b, x in zip(out.boxes, r.values()):
                    b.v = x
                return out
            if self.is_cell(r) and not isinstance(r, Unknown):
                for b in out.boxes:
                    b.v = r
                return out
            for b in out.boxes:
                b.v = Unknown('result written through out= is not followed')
            return out
        tail = dotted.rsplit('.', 1)[-1]
        if '.fft.' in dotted and tail in ('fftfreq', 'rfftfreq') and args and self._int(args[0]) is not None and 0 < self._int(args[0]) <= 64:
            n = self._int(args[0])
            d = kwargs.get('d', args[1] if len(args) > 1 else Const(1))
            rd = self.rat(d)
            if rd is not None:
                ks = list(range(0, (n - 1) // 2 + 1)) + list(range(-(n // 2), 0)) if tail == 'fftfreq' else list(range(0, n // 2 + 1))
                return FArr.of((len(ks),), [self.lift(Rat(self.R.const(k)) / (rd * n)) for k in ks])
        if '.fft.' in dotted and tail in ('fftshift', 'ifftshift') and args and isinstance(args[0], FArr):
            a = args[0]
            axes = kwargs.get('axes', args[1] if len(args) > 1 else Const(None))
            if isinstance(axes, Const) and axes.v is None:
                ax = list(range(a.ndim))
            elif self._int(axes) is not None:
                ax = [self._int(axes) % a.ndim]
            elif isinstance(axes, Tup) and all(self._int(x) is not None for x in axes.items):
                ax = [self._int(x) % a.ndim for x in axes.items]
            else:
                return Unknown('fftshift axes')
            order = []
            for idx in itertools.product(*[range(d_) for d_ in a.shape]):
                src = []
                for k, (i, d_) in enumerate(zip(idx, a.shape)):
                    sh = (d_ // 2) if tail == 'fftshift' else -(d_ // 2)
                    src.append((i - sh) % d_ if k in ax else i)
                order.append(a.flat_index(src))
            return a.view(a.shape, order).__class__.of(a.shape, [a.boxes[k].v for k in order], a.dtype)
        if tail == 'next_fast_len' and args and self._int(args[0]) is not None and '.fft.' in dotted:
            n = max(self._int(args[0]), 1)
            while True:
                k = n
                for p_ in (2, 3, 5, 7, 11):
                    while k % p_ == 0:
                        k //= p_
                if k == 1:
                    return Const(n)
                n += 1
        if '.fft.' in dotted and tail in ('fft', 'ifft', 'fft2', 'ifft2') and args and isinstance(args[0], FArr):
            a = args[0]
            inverse = tail.startswith('i')
            if tail in ('fft', 'ifft'):
                n = kwargs.get('n', args[1] if len(args) > 1 else Const(None))
                ax = self._int(kwargs.get('axis', args[2] if len(args) > 2 else Const(-1)))
                sizes = [None if (isinstance(n, Const) and n.v is None) else self._int(n)]
                axes = [ax]
                if ax is None or (sizes[0] is None and not (isinstance(n, Const) and n.v is None)):
                    return Unknown('fft size / axis that is not followed')
            else:
                sz = kwargs.get('s', args[1] if len(args) > 1 else Const(None))
                axes = [-2, -1]
                if isinstance(sz, Const) and sz.v is None:
                    sizes = [None, None]
                elif isinstance(sz, Tup) and len(sz.items) == 2 and all(self._int(x) is not None for x in sz.items):
                    sizes = [self._int(x) for x in sz.items]
                else:
                    return Unknown('fft2 size that is not followed')
                if a.ndim < 2 or 'axes' in kwargs or len(args) > 2:
                    return Unknown('fft2 axes')
            norm = kwargs.get('norm', Const(None))
            if not (isinstance(norm, Const) and norm.v in (None, 'backward', 'ortho', 'forward')) or (set(kwargs) - {'n', 'axis', 's', 'norm', 'axes'}):
                return Unknown('fft options that are not followed')
            cur = a
            for ax, n in zip(axes, sizes):
                cur = self.dft_axis(cur, ax % cur.ndim, n, inverse, node, norm.v or 'backward')
                if not isinstance(cur, FArr):
                    return cur
            return cur
        if dotted in ('numpy.iscomplexobj', 'numpy.isrealobj') and args and isinstance(args[0], FArr):
            dt = args[0].dtype
            cplx = (dt is not None and dt.kind == 'c') or any(isinstance(x, Const) and isinstance(x.v, complex) for x in args[0].values()) or \
                any(isinstance(x, Sym) and 'I' in x.r.atoms() for x in args[0].values())
            if dt is None and not cplx and any(isinstance(x, Sym) for x in args[0].values()):
                return Unknown('whether an array of symbolic samples is complex')
            return Const(cplx if dotted.endswith('iscomplexobj') else not cplx)
        if np_take := (dotted == 'numpy.take' and len(args) >= 2 and isinstance(args[0], FArr)):
            ax = kwargs.get('axis', args[2] if len(args) > 2 else Const(None))
            idx = args[1]
            a = args[0]
            if isinstance(ax, Const) and ax.v is None:
                return self.subscript(a.view((a.size,)), idx, node)
            k = self._int(ax)
            if k is not None:
                k %= a.ndim
                sl = Slice(Const(None), Const(None), Const(None))
                return self.subscript(a, Tup([sl] * k + [idx]), node)
        if dotted in ('numpy.add.outer', 'numpy.multiply.outer', 'numpy.subtract.outer', 'numpy.outer') and len(args) == 2 and all(isinstance(a, FArr) for a in args):
            op = {'numpy.add.outer': ast.Add(), 'numpy.subtract.outer': ast.Sub()}.get(dotted, ast.Mult())
            a, b = args
            if dotted == 'numpy.outer':
                a, b = a.view((a.size,)), b.view((b.size,))
            return FArr.of(a.shape + b.shape, [self.cell_binop(op, x, y, node) for x in a.values() for y in b.values()])
        if dotted in ('scipy.ndimage.convolve', 'scipy.ndimage.correlate') and len(args) >= 2 and isinstance(args[0], FArr) and args[0].ndim == 2:
            ker = args[1] if isinstance(args[1], FArr) else (self.from_nested(args[1], node) if isinstance(args[1], Tup) else None)
            mode = kwargs.get('mode', Const('reflect'))
            if isinstance(ker, FArr) and ker.ndim == 2 and isinstance(mode, Const) and mode.v in ('reflect', 'constant', 'nearest', 'mirror', 'wrap') \
                    and not (set(kwargs) - {'mode', 'cval', 'output'}) and len(args) == 2 \
                    and ('output' not in kwargs or (isinstance(kwargs['output'], FArr) and kwargs['output'].shape == args[0].shape)):
                img = args[0]
                H, W = img.shape
                kh, kw = ker.shape
                ch, cw = kh // 2, kw // 2
                cval = kwargs.get('cval', Const(0))

                def at(i, n):
                    if 0 <= i < n:
                        return i
                    if mode.v == 'constant':
                        return None
                    if mode.v == 'nearest':
                        return min(max(i, 0), n - 1)
                    if mode.v == 'wrap':
                        return i % n
                    if n == 1:
                        return 0
                    if mode.v == 'reflect':         # d c b a | a b c d | d c b a
                        p_ = i % (2 * n)
                        return p_ if p_ < n else 2 * n - 1 - p_
                    p_ = i % (2 * n - 2)            # mirror: d c b | a b c d | c b a
                    return p_ if p_ < n else 2 * n - 2 - p_
                out = []
                for i in range(H):
                    for j in range(W):
                        acc = Const(0)
                        for p_ in range(kh):
                            for q_ in range(kw):
                                kv = ker.boxes[p_ * kw + q_].v
                                if isinstance(kv, Const) and kv.v == 0:
                                    continue
                                # correlate: in[i + p - c]; convolve: the kernel flipped
                                di, dj = (p_ - ch, q_ - cw) if dotted.endswith('correlate') else (ch - p_ - (1 - kh % 2), cw - q_ - (1 - kw % 2))
                                ii, jj = at(i + di, H), at(j + dj, W)
                                x = cval if (ii is None or jj is None) else img.boxes[ii * W + jj].v
                                acc = self.cell_binop(ast.Add(), acc, self.cell_binop(ast.Mult(), kv, x, node), node)
                        out.append(acc)
                if 'output' in kwargs:
                    # written into the array (or view) that was handed in
                    dst = kwargs['output']
                    for b, x in zip(dst.boxes, out):
                        b.v = x
                    return dst
                return FArr.of((H, W), out)
            return Unknown('ndimage.%s with arguments that are not followed' % dotted.rsplit('.', 1)[-1])
        if dotted == 'numpy.einsum' and len(args) >= 2 and isinstance(args[0], FArr) and isinstance(args[1], (Tup, FArr)):
            # the sublist form einsum(op0, axes0, op1, axes1, ..., [output axes]) said as a subscript string
            def axes_of(v):
                cells = v.values() if isinstance(v, FArr) else v.items
                ii = [self._int(c) for c in cells]
                return None if None in ii or any(not 0 <= i < 26 for i in ii) else ''.join('abcdefghijklmnopqrstuvwxyz'[i] for i in ii)
            ops_, subs_, rest = [], [], list(args)
            while len(rest) >= 2 and isinstance(rest[0], FArr) and isinstance(rest[1], (Tup, FArr)):
                ops_.append(rest[0])
                subs_.append(axes_of(rest[1]))
                rest = rest[2:]
            out_axes = axes_of(rest[0]) if len(rest) == 1 and isinstance(rest[0], (Tup, FArr)) else ('' if rest else None)
            if None not in subs_ and (not rest or (len(rest) == 1 and out_axes is not None)):
                spec = ','.join(subs_) + (('->' + out_axes) if rest else '')
                return self.call_ext('numpy.einsum', [Const(spec)] + ops_, kwargs, node)
            return Unknown('einsum in the sublist form with axes that are not followed')
        if dotted == 'numpy.einsum' and len(args) >= 2 and isinstance(args[0], Const) and isinstance(args[0].v, str) and all(isinstance(a, FArr) for a in args[1:]) \
                and not (set(kwargs) - {'optimize'}):
            spec = args[0].v.replace(' ', '')
            ops = list(args[1:])
            if '...' in spec:
                # expand the ellipsis to letters that are not used, right-aligned on each operand
                ins_, _, out_ = spec.partition('->')
                parts = ins_.split(',')
                if len(parts) == len(ops):
                    free = [c for c in 'ZYXWVUTSRQPONMLKJIHGFEDCBA' if c not in spec]
                    nell = max([o.ndim - len(p.replace('...', '')) for p, o in zip(parts, ops) if '...' in p] + [0])
                    ell = ''.join(free[:nell])
                    parts = [p.replace('...', ell[len(ell) - (o.ndim - len(p.replace('...', ''))):]) if '...' in p else p for p, o in zip(parts, ops)]
                    if '->' in spec:
                        out_ = out_.replace('...', ell)
                        spec = ','.join(parts) + '->' + out_
                    else:
                        letters = sorted(set(c for c in ''.join(parts) if c.isalpha() and c not in ell))
                        spec = ','.join(parts) + '->' + ell + ''.join(c for c in letters if ''.join(parts).count(c) == 1)
            if '...' not in spec:
                if '->' in spec:
                    ins, out = spec.split('->')
                else:
                    ins = spec
                    letters = sorted(set(c for c in ins if c.isalpha()))
                    out = ''.join(c for c in letters if ins.count(c) == 1)
                ins = ins.split(',')
                if len(ins) == len(ops) and all(len(s_) == o.ndim for s_, o in zip(ins, ops)):
                    dims = {}
                    okd = True
                    for s_, o in zip(ins, ops):
                        for c, d in zip(s_, o.shape):
                            if dims.setdefault(c, d) != d:
                                okd = False
                    if okd and all(c in dims for c in out):
                        summed = [c for c in dims if c not in out]
                        oshape = tuple(dims[c] for c in out)
                        data = []
                        for oidx in itertools.product(*[range(d) for d in oshape]):
                            env = dict(zip(out, oidx))
                            acc = Const(0)
                            for sidx in itertools.product(*[range(dims[c]) for c in summed]):
                                env.update(zip(summed, sidx))
                                term = Const(1)
                                for s_, o in zip(ins, ops):
                                    term = self.cell_binop(ast.Mult(), term, o.boxes[o.flat_index([env[c] for c in s_])].v, node)
                                acc = self.cell_binop(ast.Add(), acc, term, node)
                            data.append(acc)
                        return FArr.of(oshape, data) if oshape else data[0]
            return Unknown('einsum with a subscript string that is not followed')
        if dotted.startswith('numpy.random.') and dotted.rsplit('.', 1)[-1] in ('poisson', 'normal', 'random', 'uniform', 'standard_normal', 'rand', 'randn', 'binomial', 'gamma'):
            # a draw: samples that are not followed, of the shape numpy gives them
            nm = dotted.rsplit('.', 1)[-1]
            size = kwargs.get('size')
            npos = {'poisson': 1, 'normal': 2, 'uniform': 2, 'binomial': 2, 'gamma': 2, 'random': 0, 'standard_normal': 0}.get(nm)
            if size is None and npos is not None and len(args) > npos:
                size = args[npos]
            if nm in ('rand', 'randn'):
                size = Tup(list(args))
            params = [a for a in (args[:npos] if npos is not None else []) if isinstance(a, FArr)]
            if size is None or (isinstance(size, Const) and size.v is None):
                if params:
                    return FArr.of(params[0].shape, [Unknown('a random draw')] * params[0].size)
                return Unknown('a random draw')
            dims = [self._int(x) for x in (size.items if isinstance(size, Tup) else [size])]
            if None in dims:
                return Unknown('a random draw of a shape that is not followed')
            return FArr.of(tuple(dims), [Unknown('a random draw')] * _size(dims))
        if dotted == 'numpy.choose' and len(args) >= 2 and isinstance(args[0], FArr):
            sel = args[0]
            ch = args[1].items if isinstance(args[1], Tup) else (self.iterate(args[1], node) if isinstance(args[1], FArr) else None)
            if ch is not None and all(isinstance(c, FArr) or self.is_cell(c) for c in ch) and all(self._int(x) is not None for x in sel.values()):
                n = len(ch)

                def pick(k, *cells):
                    i = self._int(k)
                    return cells[i] if 0 <= i < n else Junk('choose index out of range')
                if any(not 0 <= self._int(x) < n for x in sel.values()):
                    raise AbsRaise('ValueError', node)
                return self.emap(pick, sel, *ch)
            return Unknown('choose with a selector / choices that are not followed')
        if dotted == 'numpy.ix_' and args and all(isinstance(a, FArr) and a.ndim == 1 for a in args):
            n = len(args)
            return Tup([a.view(tuple(a.size if k == i else 1 for k in range(n))) for i, a in enumerate(args)])
        if dotted == 'numpy.roll' and len(args) >= 2 and isinstance(args[0], FArr):
            a = args[0]
            ax = kwargs.get('axis', args[2] if len(args) > 2 else Const(None))
            sh = self._int(args[1])
            if sh is not None and isinstance(ax, Const) and ax.v is None:
                vals = a.values()
                n = len(vals)
                if n:
                    k = sh % n
                    vals = vals[n - k:] + vals[:n - k]
                return FArr.of(a.shape, vals, a.dtype)
            axk = self._int(ax)
            if sh is not None and axk is not None:
                axk %= a.ndim
                order = []
                for idx in itertools.product(*[range(d) for d in a.shape]):
                    src = list(idx)
                    src[axk] = (idx[axk] - sh) % a.shape[axk]
                    order.append(a.flat_index(src))
                return FArr.of(a.shape, [a.boxes[k].v for k in order], a.dtype)
            return Unknown('roll by an amount / along an axis that is not followed')
        if dotted == 'struct.Struct' and args and isinstance(args[0], Const) and isinstance(args[0].v, (str, bytes)):
            return StructV(args[0].v if isinstance(args[0].v, str) else args[0].v.decode())
        a0 = args[0] if args else None
        np_ = dotted[6:] if dotted.startswith('numpy.') else None
        if np_ in _NP_TYPES and not args:
            return DType(*_NP_TYPES[np_])
        if np_ in _NP_TYPES and len(args) == 1 and (self.is_cell(a0) or isinstance(a0, FArr)):
            dt = DType(*_NP_TYPES[np_])
            if isinstance(a0, FArr):
                return self.astype(a0, dt)
            return self._quant(a0, 'int') if dt.kind in 'iu' else a0
        if dotted == 'numpy.dtype' and args:
            dt = as_dtype(a0)
            return dt if dt is not None else Unknown('dtype')
        if np_ in ('atleast_1d', 'atleast_2d', 'atleast_3d') and len(args) > 1 and all(isinstance(a, FArr) for a in args):
            return Tup([self.np_array_fn(np_, a, [a], {}, node) for a in args], 'list')
        if np_ is not None and isinstance(a0, FArr):
            r = self.np_array_fn(np_, a0, args, kwargs, node)
            if r is not None:
                return r
        if np_ in ('isnan', 'isfinite', 'isinf') and self.is_cell(a0):
            return self._isnan_cell(a0, np_)
        if np_ in ('around', 'round', 'round_', 'rint', 'floor', 'ceil', 'trunc', 'fix') and self.is_cell(a0) and len(args) == 1:
            return self._quant(a0, {'floor': 'floor', 'ceil': 'ceil', 'trunc': 'int', 'fix': 'int'}.get(np_, 'round'))
        if dotted in ('math.floor', 'math.ceil', 'math.trunc', 'builtins.round') and len(args) == 1 and isinstance(a0, (Sym, Const)):
            return self._quant(a0, {'math.floor': 'floor', 'math.ceil': 'ceil', 'math.trunc': 'int', 'builtins.round': 'round'}[dotted])
        if np_ in ('array', 'asarray', 'asanyarray', 'ascontiguousarray', 'asfortranarray') and isinstance(a0, Tup):
            arr = self.from_nested(a0, node)
            if arr is not None:
                dt = as_dtype(kwargs.get('dtype', args[1] if len(args) > 1 else None))
                return self.astype(arr, dt) if dt is not None else arr
        if np_ in ('zeros', 'ones', 'empty', 'full') and args:
            dims = [self._int(x) for x in (a0.items if isinstance(a0, Tup) else [a0])]
            if None not in dims:
                fill = {'zeros': Const(0), 'ones': Const(1), 'empty': Junk('uninitialised memory')}.get(np_) or args[1]
                dt = as_dtype(kwargs.get('dtype', args[2] if np_ == 'full' and len(args) > 2 else (args[1] if np_ != 'full' and len(args) > 1 else None)))
                return FArr.of(dims, [fill] * _size(dims), dt)
        if np_ == 'arange' and 1 <= len(args) <= 3 and all(self._int(x) is not None for x in args):
            r = range(*[self._int(x) for x in args])
            if len(r) <= 5000:
                return FArr.of((len(r),), [Const(i) for i in r], DType('i', 8))
        if np_ == 'linspace' and len(args) >= 2:
            num = self._int(kwargs.get('num', args[2] if len(args) > 2 else Const(50)))
            lo, hi = self.rat(args[0]), self.rat(args[1])
            endpoint = kwargs.get('endpoint', Const(True))
            if num is not None and 0 < num <= 64 and lo is not None and hi is not None and isinstance(endpoint, Const):
                den = (num - 1) if endpoint.v else num
                cells = [self.lift(lo + (hi - lo) * Fraction(k, den)) if den else self.lift(lo) for k in range(num)]
                return FArr.of((num,), cells)
        if np_ == 'meshgrid' and len(args) == 2 and all(isinstance(a, FArr) and a.ndim == 1 for a in args):
            ind = kwargs.get('indexing', Const('xy'))
            if isinstance(ind, Const) and ind.v in ('xy', 'ij'):
                x, y = args
                if ind.v == 'xy':
                    return Tup([FArr.of((y.size, x.size), [x.boxes[j].v for i in range(y.size) for j in range(x.size)]),
                                FArr.of((y.size, x.size), [y.boxes[i].v for i in range(y.size) for j in range(x.size)])], 'list')
                return Tup([FArr.of((x.size, y.size), [x.boxes[i].v for i in range(x.size) for j in range(y.size)]),
                            FArr.of((x.size, y.size), [y.boxes[j].v for i in range(x.size) for j in range(y.size)])], 'list')
        if np_ in ('stack', 'vstack', 'hstack', 'concatenate', 'column_stack', 'dstack') and args and isinstance(a0, Tup):
            parts = [self.from_nested(x, node) if isinstance(x, Tup) else x for x in a0.items]
            if parts and all(isinstance(x, FArr) for x in parts):
                ax = self._int(kwargs.get('axis', args[1] if len(args) > 1 else Const(0)))
                if np_ == 'stack' and ax is not None and all(x.shape == parts[0].shape for x in parts):
                    first = FArr.of((len(parts),) + parts[0].shape, [v for x in parts for v in x.values()])
                    k = ax % (parts[0].ndim + 1)
                    if k == 0:
                        return first
                    perm = list(range(1, first.ndim))
                    perm.insert(k, 0)
                    return first.axis_perm(perm)
                if np_ == 'column_stack' and all(x.ndim == 1 and x.size == parts[0].size for x in parts):
                    return FArr.of((parts[0].size, len(parts)), [x.boxes[i].v for i in range(parts[0].size) for x in parts])
                if np_ == 'vstack' and all(x.ndim == 1 and x.size == parts[0].size for x in parts):
                    return FArr.of((len(parts), parts[0].size), [v for x in parts for v in x.values()])
                if np_ in ('concatenate', 'hstack') and all(x.ndim == 1 for x in parts) and (ax in (0, None) or np_ == 'hstack'):
                    return FArr.of((sum(x.size for x in parts),), [v for x in parts for v in x.values()])
                if np_ in ('concatenate', 'vstack') and ax == 0 and all(x.ndim == parts[0].ndim and x.shape[1:] == parts[0].shape[1:] for x in parts):
                    return FArr.of((sum(x.shape[0] for x in parts),) + parts[0].shape[1:], [v for x in parts for v in x.values()])
            return Unknown('%s of parts that are not followed' % np_)
        if np_ in ('ones_like', 'zeros_like', 'empty_like', 'full_like') and isinstance(a0, FArr):
            fill = {'ones_like': Const(1), 'zeros_like': Const(0), 'empty_like': Junk('uninitialised memory')}.get(np_) or (args[1] if len(args) > 1 else kwargs.get('fill_value'))
            return FArr.of(a0.shape, [fill] * a0.size, as_dtype(kwargs.get('dtype')) or a0.dtype)
        if np_ in ('matmul', 'dot') and len(args) == 2 and all(isinstance(a, FArr) for a in args):
            return self.matmul(args[0], args[1], node)
        if np_ == 'tensordot' and len(args) >= 2 and all(isinstance(a, FArr) for a in args[:2]) and not (set(kwargs) - {'axes'}):
            # contraction of the listed axes, the remaining axes of a then those of b: said as an einsum
            a_, b_ = args[0], args[1]
            axes = kwargs.get('axes', args[2] if len(args) > 2 else Const(2))
            ax_a = ax_b = None
            if self._int(axes) is not None:
                k = self._int(axes)
                if 0 <= k <= min(a_.ndim, b_.ndim):
                    ax_a, ax_b = list(range(a_.ndim - k, a_.ndim)), list(range(k))
            elif isinstance(axes, Tup) and len(axes.items) == 2:
                def lst(v, nd):
                    xs = [self._int(v)] if self._int(v) is not None else ([self._int(c) for c in v.items] if isinstance(v, Tup) else [None])
                    return None if None in xs else [x % nd for x in xs]
                ax_a, ax_b = lst(axes.items[0], a_.ndim), lst(axes.items[1], b_.ndim)
            if ax_a is not None and ax_b is not None and len(ax_a) == len(ax_b) and len(set(ax_a)) == len(ax_a) and len(set(ax_b)) == len(ax_b):
                if any(a_.shape[i] != b_.shape[j] for i, j in zip(ax_a, ax_b)):
                    raise AbsRaise('ValueError', node)
                letters = iter('abcdefghijklmnopqrstuvwxyz')
                la, lb = [None] * a_.ndim, [None] * b_.ndim
                for i, j in zip(ax_a, ax_b):
                    la[i] = lb[j] = next(letters)
                for i in range(a_.ndim):
                    la[i] = la[i] or next(letters)
                for j in range(b_.ndim):
                    lb[j] = lb[j] or next(letters)
                out = ''.join(c for i, c in enumerate(la) if i not in ax_a) + ''.join(c for j, c in enumerate(lb) if j not in ax_b)
                return self.call_ext('numpy.einsum', [Const('%s,%s->%s' % (''.join(la), ''.join(lb), out)), a_, b_], {}, node)
            return Unknown('tensordot with axes that are not followed')
        if dotted == 'numpy.linalg.lstsq' and len(args) >= 2 and isinstance(a0, FArr) and isinstance(args[1], FArr):
            return self.lstsq(a0, args[1], node)
        if np_ in ('frombuffer', 'fromstring', 'fromfile', 'loadtxt', 'genfromtxt', 'savetxt', 'save', 'load'):
            return self.np_io(np_, args, kwargs, node)
        if np_ in ('finfo', 'iinfo'):
            return FInfo(np_)
        if dotted.startswith('struct.'):
            return self.struct_fn(dotted[7:], args, kwargs, node)
        if dotted == 'ctypes.create_string_buffer' and args:
            n = self._int(a0)
            if n is not None:
                b = BytesV([0] * n, mutable=True)
                b.fixed = n
                return b
            items = self.bytes_items(a0)
            if items is not None:
                b = BytesV(items + [0], mutable=True)
                b.fixed = len(items) + 1
                return b
        if dotted in ('builtins.bytes', 'builtins.bytearray'):
            if not args:
                return BytesV([], mutable=dotted.endswith('bytearray'))
            n = self._int(a0)
            if n is not None:
                return BytesV([0] * n, mutable=dotted.endswith('bytearray'))
            items = self.bytes_items(a0)
            if items is not None:
                return BytesV(items, mutable=dotted.endswith('bytearray'))
            if isinstance(a0, FArr):
                return self.arr_bytes(a0)
            if isinstance(a0, (Text, Const)) and len(args) == 2:
                return self.text_method(a0, 'encode', args[1:], {}, node)
            return Unknown('bytes of a value that is not followed')
        if dotted == 'builtins.range' and args and all(self._int(x) is not None for x in args) and not kwargs:
            rg = range(*[self._int(x) for x in args])
            if len(rg) <= 5000:
                return Tup([Const(i) for i in rg], 'range')
        if dotted in ('math.prod', 'numpy.prod', 'math.fsum') and len(args) == 1 and isinstance(a0, Tup):
            acc = Const(1 if 'prod' in dotted else 0)
            for x in a0.items:
                acc = self.interp.binop(ast.Mult() if 'prod' in dotted else ast.Add(), acc, x, node)
            return acc
        if dotted == 'builtins.memoryview' and args:
            return a0
        if dotted == 'builtins.len' and args:
            if isinstance(a0, FArr):
                if a0.ndim == 0:
                    raise AbsRaise('TypeError', node)
                return Const(a0.shape[0])
            if isinstance(a0, BytesV):
                return Const(len(a0.items))
            if isinstance(a0, Text):
                return Pos(len(a0.s)) if not a0.upto else Unknown('length of a prefix of unknown width')
            return NormDomain.call_ext(self, dotted, args, kwargs, node)
        if dotted in ('builtins.float', 'builtins.int') and args:
            if isinstance(a0, (Text, Const)) and (isinstance(a0, Text) or isinstance(a0.v, str)):
                return self.parse_number(a0, dotted[9:], node)
            if isinstance(a0, (Junk, Unknown)):
                return a0
            if dotted == 'builtins.int' and isinstance(a0, (Sym, Const)):
                return self._quant(a0, 'int')
            if isinstance(a0, FArr) and a0.size == 1:
                return self.call_ext(dotted, [a0.boxes[0].v], kwargs, node)
        if dotted in ('builtins.str', 'builtins.repr', 'builtins.format') and args:
            if isinstance(a0, Text) or (isinstance(a0, Const) and isinstance(a0.v, str) and dotted == 'builtins.str'):
                return a0
            if isinstance(a0, BytesV) and len(args) > 1:
                return self.bytes_method(a0, 'decode', args[1:], {}, node)
            spec = args[1].v if len(args) > 1 and isinstance(args[1], Const) else ''
            s = self.format_value(a0, 'r' if dotted == 'builtins.repr' else None, spec)
            return self.mk_text(s) if s is not None else Unknown('str of a value that is not followed')
        if dotted == 'builtins.hasattr' and len(args) == 2 and isinstance(args[1], Const):
            if isinstance(a0, FileH):
                return Const(args[1].v in ('write', 'read', 'close', 'seek', 'tell', 'readline', 'readlines', 'flush', 'name', 'mode', 'closed', '__enter__', '__exit__'))
            if isinstance(a0, Const) and isinstance(a0.v, str):
                return Const(hasattr(a0.v, args[1].v))
            if isinstance(a0, FArr):
                return Const(args[1].v in ('shape', 'dtype', 'ndim', 'size', 'astype', 'tobytes', 'reshape', 'ravel', '__len__', '__iter__', '__array__', 'T', 'copy', 'tofile'))
        if dotted == 'builtins.isinstance' and len(args) == 2:
            r = self.isinstance_(a0, args[1])
            if r is not None:
                return Const(r)
        if dotted == 'builtins.open' and args:
            mode = kwargs.get('mode', args[1] if len(args) > 1 else Const('r'))
            return self.open_file(a0, mode.v if isinstance(mode, Const) else 'r', node)
        if dotted in ('pathlib.Path', 'os.fspath', 'os.path.expanduser', 'os.path.abspath', 'os.path.realpath', 'os.path.normpath', 'builtins.str') and len(args) == 1 \
                and (isinstance(a0, FileH) or (isinstance(a0, Const) and a0.v in self.files) or (isinstance(a0, Const) and getattr(self, 'file_keys', None) and a0.v in self.file_keys)):
            return a0 if isinstance(a0, FileH) else FileH(a0.v, 'path')
        if dotted == 'warnings.warn':
            self.warned.append(node)
            self.interp.emit('warn', node=node)
            return Const(None)
        if dotted in ('numpy.exp', 'cmath.exp') and len(args) == 1 and isinstance(a0, Sym):
            # exp(i pi q) for q a multiple of 1/2: 1, i, -1, -i
            q = -(a0.r * self.R.I) / Rat(self.R.atom('pi'))         # a / (i pi) = -a i / pi
            if q.num.is_const() and q.den.is_const():
                c = q.num.const_value() / q.den.const_value()
                if getattr(c, 'imag', 0) == 0:
                    c = Fraction(c.real) if isinstance(c, complex) else c
                    if c.denominator in (1, 2):
                        k = int(c * 2) % 4
                        return Const((1, 1j, -1, -1j)[k])
                    if c.denominator in (3, 6):
                        return self.unit_root(int(c * 6) % 12, 12)
        if dotted in ('numpy.cos', 'numpy.sin', 'math.cos', 'math.sin') and len(args) == 1 and isinstance(a0, Sym):
            # multiples of pi/2: exact values
            q = a0.r / (Rat(self.R.atom('pi')) / 2)
            if q.num.is_const() and q.den.is_const():
                c = q.num.const_value() / q.den.const_value()
                if c.denominator == 1:
                    k = int(c) % 4
                    return Const((1, 0, -1, 0)[k] if dotted.endswith('cos') else (0, 1, 0, -1)[k])
        if dotted in ('builtins.max', 'builtins.min') and kwargs:
            if all(isinstance(x, Const) for x in args) and set(kwargs) == {'key'}:
                return None
            from ..core.interp import BuiltinRef
            k = kwargs.get('key')
            vals = a0.items if len(args) == 1 and isinstance(a0, Tup) else args
            if set(kwargs) == {'key'} and ((isinstance(k, BuiltinRef) and k.name == 'abs') or (isinstance(k, ExtRef) and k.dotted in ('numpy.abs', 'numpy.absolute', 'math.fabs'))) \
                    and len(vals) >= 2 and all(self.rat(x) is not None for x in vals):
                return self.func_atom(dotted[9:] + '_by_abs', sorted(vals, key=lambda x: self.rat(x).key()))      # the one of largest |.|, with its sign
            return Unknown('%s with a key / default' % dotted[9:])
        if dotted in ('builtins.max', 'builtins.min') and len(args) == 1 and isinstance(a0, FArr):
            return self.call_ext('numpy.' + dotted[9:], args, kwargs, node)
        if dotted in ('builtins.abs', 'numpy.abs', 'numpy.absolute', 'numpy.fabs') and (isinstance(a0, (Junk, Unknown)) or is_nan(a0)):
            return a0
        if dotted == 'builtins.abs' and isinstance(a0, FArr):
            return self.np_array_fn('abs', a0, args, kwargs, node)
        if dotted == 'builtins.print':
            return Const(None)
        if dotted in ('builtins.max', 'builtins.min', 'builtins.abs') and any(isinstance(x, (Junk, Unknown)) for x in args):
            return [x for x in args if isinstance(x, (Junk, Unknown))][0]
        return NormDomain.call_ext(self, dotted, args, kwargs, node)

    def unit_root(self, k, n):
        """exp(2 pi i k / n) for n = 12 (multiples of 30 degrees), exactly: cos and sin are 0, +-1/2, +-sqrt(3)/2, +-1"""
        assert n == 12
        half = Rat(self.R.const(1)) / 2
        s3 = Rat(self.R.sqrt(Rat(self.R.const(3)))) / 2
        zero, one = Rat(self.R.const(0)), Rat(self.R.const(1))
        cos = [one, s3, half, zero, -half, -s3, -one, -s3, -half, zero, half, s3]
        sin = cos[9:] + cos[:9]           # sin(x) = cos(x - 90 degrees)
        return self.lift(cos[k % 12] + self.R.I * sin[k % 12])

    def dft_axis(self, a, ax, n, inverse, node, norm='backward'):
        """exact DFT along one axis (zero padded / cut to n) for lengths 1, 2 and 4, whose roots of unity are 1, -1, i, -i"""
        N = a.shape[ax] if n is None else n
        if N not in (1, 2, 3, 4, 6):
            return Unknown('a DFT of length %d (only lengths 1, 2, 3, 4, 6 are evaluated exactly)' % N)
        if N in (3, 6):
            roots = [self.unit_root((-1 if not inverse else 1) * j * (12 // N), 12) for j in range(N)]
        else:
            roots = {1: [1], 2: [1, -1], 4: [1, -1j, -1, 1j]}[N]
            if inverse:
                roots = [complex(r).conjugate() if isinstance(r, complex) else r for r in roots]
            roots = [Const(r) for r in roots]
        moved = a.axis_perm([k for k in range(a.ndim) if k != ax] + [ax])
        lead = moved.shape[:-1]
        L = moved.shape[-1]
        out = []
        for row in range(_size(lead)):
            xs = [moved.boxes[row * L + j].v for j in range(min(L, N))] + [Const(0)] * max(0, N - L)
            for k in range(N):
                acc = Const(0)
                for j, x in enumerate(xs):
                    w = roots[(k * j) % N]
                    term = x if (isinstance(w, Const) and w.v == 1) else self.cell_binop(ast.Mult(), x, w, node)
                    acc = self.cell_binop(ast.Add(), acc, term, node)
                # backward: 1 forward, 1/N inverse; ortho: 1/sqrt(N) both ways; forward: 1/N forward, 1 inverse
                if N > 1 and ((norm == 'backward' and inverse) or (norm == 'forward' and not inverse)):
                    acc = self.cell_binop(ast.Div(), acc, Const(N), node)
                elif N in (3, 6) and norm == 'ortho':
                    acc = self.cell_binop(ast.Mult(), acc, self.lift(Rat(self.R.sqrt(Rat(self.R.const(1)) / N))), node)
                elif N > 1 and norm == 'ortho':
                    acc = self.cell_binop(ast.Div(), acc, Const(2), node) if N == 4 else \
                        self.cell_binop(ast.Mult(), acc, self.lift(Rat(self.R.sqrt(Rat(self.R.const(1)) / 2))), node)        # sqrt(1/2), the form NORM keeps
                out.append(acc)
        res = FArr.of(lead + (N,), out, DType('c', 16))
        back = list(range(a.ndim - 1))
        back.insert(ax, a.ndim - 1)
        return res.axis_perm(back)

    def matmul(self, a, b, node):
        it = self.interp
        if a.ndim > 2 or b.ndim > 2:
            # stacks of matrices: the product over the last two axes, leading axes broadcast
            A = a if a.ndim >= 2 else a.view((1, a.size))
            B = b if b.ndim >= 2 else b.view((b.size, 1))
            la, lb = A.shape[:-2], B.shape[:-2]
            nd = max(len(la), len(lb))
            la_, lb_ = (1,) * (nd - len(la)) + la, (1,) * (nd - len(lb)) + lb
            if any(x != y and 1 not in (x, y) for x, y in zip(la_, lb_)) or A.shape[-1] != B.shape[-2]:
                raise AbsRaise('ValueError', node)
            lead = tuple(max(x, y) for x, y in zip(la_, lb_))
            n, k, m = A.shape[-2], A.shape[-1], B.shape[-1]
            out = []
            for idx in itertools.product(*[range(d) for d in lead]):
                ia = [0 if d == 1 else i for i, d in zip(idx, la_)][nd - len(la):]
                ib = [0 if d == 1 else i for i, d in zip(idx, lb_)][nd - len(lb):]
                for i in range(n):
                    for j in range(m):
                        acc = Const(0)
                        for q in range(k):
                            acc = self.cell_binop(ast.Add(), acc, self.cell_binop(ast.Mult(), A.boxes[A.flat_index(ia + [i, q])].v, B.boxes[B.flat_index(ib + [q, j])].v, node), node)
                        out.append(acc)
            shape = lead + (n, m)
            res = FArr.of(shape, out)
            if a.ndim == 1:
                res = res.view(lead + (m,))
            elif b.ndim == 1:
                res = res.view(lead + (n,))
            return res
        A = a if a.ndim == 2 else a.view((1, a.size))
        B = b if b.ndim == 2 else b.view((b.size, 1))
        if A.ndim != 2 or B.ndim != 2 or A.shape[1] != B.shape[0]:
            raise AbsRaise('ValueError', node)
        out = []
        for i in range(A.shape[0]):
            for j in range(B.shape[1]):
                acc = Const(0)
                for k in range(A.shape[1]):
                    acc = self.cell_binop(ast.Add(), acc, self.cell_binop(ast.Mult(), A.boxes[i * A.shape[1] + k].v, B.boxes[k * B.shape[1] + j].v, node), node)
                out.append(acc)
        shape = (A.shape[0], B.shape[1])
        if a.ndim == 1 and b.ndim == 1:
            return out[0]
        if a.ndim == 1:
            shape = (B.shape[1],)
        elif b.ndim == 1:
            shape = (A.shape[0],)
        return FArr.of(shape, out)

    def lstsq(self, A, b, node):
        """exact least squares: the design matrix must be numbers (rational, after NORM's simplification), the right-hand side may be symbolic"""
        if A.ndim != 2 or b.ndim != 1 or A.shape[0] != b.size:
            return Unknown('lstsq of shapes that are not (m, k), (m,)')
        m, k = A.shape
        rows = []
        for i in range(m):
            row = []
            for j in range(k):
                r = self.rat(A.boxes[i * k + j].v)
                if r is None or not (r.num.is_const() and r.den.is_const()):
                    return Unknown('lstsq with a design matrix that is not numeric')
                row.append(r.num.const_value() / r.den.const_value())
            rows.append(row)
        rhs = [self.rat(x) for x in b.values()]
        if any(x is None for x in rhs):
            return Unknown('lstsq with a right-hand side that is not followed')
        one = Rat(self.R.const(1))
        N = [[sum(rows[i][p] * rows[i][q] for i in range(m)) for q in range(k)] for p in range(k)]
        y = []
        for p in range(k):
            acc = Rat(self.R.const(0))
            for i in range(m):
                if rows[i][p] != 0:
                    acc = acc + rhs[i] * rows[i][p]
            y.append(acc)
        # Gaussian elimination on the normal equations
        for c in range(k):
            piv = next((r_ for r_ in range(c, k) if N[r_][c] != 0), None)
            if piv is None:
                return Unknown('rank-deficient least squares')
            N[c], N[piv] = N[piv], N[c]
            y[c], y[piv] = y[piv], y[c]
            pv = N[c][c]
            N[c] = [v / pv for v in N[c]]
            y[c] = y[c] * (1 / Fraction(pv))
            for r_ in range(k):
                if r_ != c and N[r_][c] != 0:
                    f = N[r_][c]
                    N[r_] = [v - f * w for v, w in zip(N[r_], N[c])]
                    y[r_] = y[r_] - y[c] * f
        coef = FArr.of((k,), [self.lift(v) for v in y])
        return Tup([coef, Unknown('residuals'), Const(k), Unknown('singular values')])

    def isinstance_(self, v, cls):
        from ..core.interp import BuiltinRef
        names = []
        from ..core.interp import ClassRef
        for c in (cls.items if isinstance(cls, Tup) else [cls]):
            if isinstance(c, BuiltinRef):
                names.append(c.name)
            elif isinstance(c, ExtRef):
                names.append(c.dotted.rsplit('.', 1)[-1])
            elif isinstance(c, ClassRef):
                names.append('class ' + c.ci.qual)         # an array / text / bytes / file is not an instance of a class of the library
            else:
                return None
        kinds = None
        if isinstance(v, FArr):
            kinds = {'ndarray', 'Iterable', 'Sized', 'Collection', 'Sequence_no'}
        elif isinstance(v, Text):
            kinds = {'str', 'Iterable', 'Sequence', 'Sized'}
        elif isinstance(v, BytesV):
            kinds = {'bytearray' if v.mutable and not hasattr(v, 'fixed') else 'bytes', 'Iterable', 'Sized', 'ByteString'}
            if hasattr(v, 'fixed'):
                kinds = {'Array', 'Sized'}
        elif isinstance(v, FileH):
            kinds = {'Path', 'PurePath', 'PathLike', 'PosixPath'} if v.mode == 'path' else {'IOBase', 'BufferedWriter', 'BufferedReader', 'TextIOWrapper', 'RawIOBase', 'BufferedIOBase', 'TextIOBase'}
        if kinds is None:
            return None
        return any(n in kinds for n in names)

    def _isnan_cell(self, x, which):
        if isinstance(x, (Junk, Unknown)):
            return Unknown('%s of a value that is not followed' % which)
        if which == 'isinf':
            return Const(False) if not (isinstance(x, Const) and isinstance(x.v, float) and math.isinf(x.v)) else Const(True)
        n = is_nan(x)
        return Const(n if which == 'isnan' else not n)

    def from_nested(self, v, node):
        if isinstance(v, FArr):
            return v
        if isinstance(v, Tup):
            subs = [self.from_nested(x, node) if isinstance(x, (Tup, FArr)) else x for x in v.items]
            if subs and all(isinstance(s, FArr) for s in subs) and all(s.shape == subs[0].shape for s in subs):
                return FArr.of((len(subs),) + subs[0].shape, [x for s in subs for x in s.values()])
            if all(self.is_cell(s) for s in subs):
                return FArr.of((len(subs),), subs)
            if all(isinstance(s, (Text, Const)) for s in subs) and subs:
                cells = [self.parse_number(s, 'float', node) for s in subs]
                return FArr.of((len(subs),), cells)
        return None

    def np_array_fn(self, f, a, args, kwargs, node):
        if f in ('array', 'asarray', 'asanyarray', 'ascontiguousarray', 'asfortranarray', 'copy', 'require', 'atleast_1d', 'atleast_2d'):
            dt = as_dtype(kwargs.get('dtype', args[1] if len(args) > 1 and f != 'copy' else None))
            if f in ('array', 'copy') and not (isinstance(kwargs.get('copy'), Const) and kwargs['copy'].v is False):
                a = self.arr_method(a, 'copy', [], {}, node)
            if f == 'atleast_2d' and a.ndim < 2:
                a = a.view((1,) * (2 - a.ndim) + a.shape)
            return self.astype(a, dt) if dt is not None else a
        if f in ('isnan', 'isfinite', 'isinf'):
            return FArr.of(a.shape, [self._isnan_cell(x, f) for x in self._vals(a)])
        if f in ('logical_not', 'invert', 'bitwise_not'):
            return self.unary(ast.Invert(), a, node)
        if f in ('logical_and', 'logical_or', 'logical_xor') and len(args) == 2:
            return self.binop({'logical_and': ast.BitAnd(), 'logical_or': ast.BitOr(), 'logical_xor': ast.BitXor()}[f], a, args[1], node)
        if f in ('around', 'round', 'round_', 'rint', 'floor', 'ceil', 'trunc', 'fix'):
            dec = kwargs.get('decimals', args[1] if len(args) > 1 else Const(0))
            if not (isinstance(dec, Const) and dec.v == 0):
                return Unknown('rounding to decimals')
            how = {'floor': 'floor', 'ceil': 'ceil', 'trunc': 'int', 'fix': 'int'}.get(f, 'round')
            return FArr.of(a.shape, [self._quant(x, how) for x in self._vals(a)], a.dtype)
        if f in ('flipud', 'fliplr', 'flip'):
            if f == 'flip':
                ax = kwargs.get('axis', args[1] if len(args) > 1 else Const(None))
                if isinstance(ax, Const) and ax.v is None:
                    axes = set(range(a.ndim))
                elif self._int(ax) is not None:
                    axes = {self._int(ax) % a.ndim}
                elif isinstance(ax, Tup) and all(self._int(x) is not None for x in ax.items):
                    axes = {self._int(x) % a.ndim for x in ax.items}
                else:
                    return Unknown('flip axis')
            else:
                axes = {0} if f == 'flipud' else {1}
                if max(axes) >= a.ndim:
                    raise AbsRaise('ValueError', node)
            return a.flipped(axes)
        if f in ('transpose', 'swapaxes', 'moveaxis', 'reshape', 'ravel', 'squeeze'):
            return self.arr_method(a, f, args[1:], kwargs, node)
        if f == 'rot90':
            k = self._int(kwargs.get('k', args[1] if len(args) > 1 else Const(1)))
            if k is None or a.ndim != 2:
                return Unknown('rot90')
            r = a
            for _ in range(k % 4):
                r = r.axis_perm([1, 0]).flipped({0})
            return r
        if f in ('nanmin', 'nanmax', 'min', 'max', 'amin', 'amax', 'nanmean', 'mean', 'sum', 'nansum', 'ptp', 'std', 'nanstd', 'median', 'nanmedian'):
            if 'axis' in kwargs or len(args) > 1:
                ax = kwargs.get('axis', args[1] if len(args) > 1 else None)
                if not (isinstance(ax, Const) and ax.v is None):
                    return self.reduce_axis(f, a, ax, node)
            vals = self._vals(a)
            if any(isinstance(x, (Unknown, Junk)) for x in vals):
                return [x for x in vals if isinstance(x, (Unknown, Junk))][0]
            nan_aware = f.startswith('nan')
            if any(is_nan(x) for x in vals):
                if not nan_aware:
                    return NAN
                vals = [x for x in vals if not is_nan(x)]
            if not vals:
                return NAN if nan_aware or f in ('mean', 'std', 'median') else (Const(0) if f == 'sum' else None)
            base = f[3:] if nan_aware else {'amin': 'min', 'amax': 'max'}.get(f, f)
            if all(isinstance(x, Const) for x in vals) and base in ('min', 'max', 'sum'):
                return Const({'min': min, 'max': max, 'sum': sum}[base](x.v for x in vals))
            if base in ('sum', 'mean'):
                acc = Const(0)
                for x in vals:
                    acc = self.interp.binop(ast.Add(), acc, x, node)
                return acc if base == 'sum' else self.interp.binop(ast.Div(), acc, Const(len(vals)), node)
            # an order statistic of the valid cells: one opaque number per (statistic, set of cells)
            key = '%s{%s}' % (base, ','.join(sorted(self.key(x) or repr(x) for x in vals)))
            self.stats[key] = (base, [self.rat(x) for x in vals])
            return self.sym(key)
        if f in ('any', 'all') and ('axis' in kwargs or len(args) > 1) and not (isinstance(kwargs.get('axis', args[1] if len(args) > 1 else None), Const)
                                                                              and kwargs.get('axis', args[1] if len(args) > 1 else None).v is None):
            return self.reduce_axis(f, a, kwargs.get('axis', args[1] if len(args) > 1 else None), node)
        if f in ('argmax', 'argmin', 'nanargmax', 'nanargmin') and len(args) == 1 and not kwargs:
            vals = self._vals(a)
            if vals and all(isinstance(x, Const) and not is_nan(x) for x in vals):
                nums = [x.v for x in vals]
                return Const(nums.index(max(nums) if 'max' in f else min(nums)))
            return Unknown('%s of cells that are not constants' % f)
        if f in ('any', 'all'):
            vals = self._vals(a)
            if all(isinstance(x, Const) for x in vals):
                return Const((any if f == 'any' else all)(bool(x.v) for x in vals))
            return Unknown('%s of cells that are not decided' % f)
        if f in ('count_nonzero',):
            vals = self._vals(a)
            if all(isinstance(x, Const) for x in vals):
                return Const(sum(1 for x in vals if x.v))
        if f in ('conj', 'conjugate'):
            def cj(x):
                if isinstance(x, (Junk, Unknown)) or is_nan(x):
                    return x
                if isinstance(x, Const):
                    return Const(x.v.conjugate()) if isinstance(x.v, complex) else x
                if isinstance(x, Sym):
                    try:
                        return self.lift(x.r.conj())
                    except Exception:
                        return Unknown('conj')
                return Unknown('conj of %r' % (x,))
            return FArr.of(a.shape, [cj(x) for x in self._vals(a)], a.dtype)
        if f in ('real', 'imag'):
            def part(x):
                if isinstance(x, Sym):
                    try:
                        c = x.r.conj()
                    except Exception:
                        return Unknown(f)
                    return self.lift((x.r + c) / 2) if f == 'real' else self.lift((x.r - c) / (self.R.I * 2))
                if isinstance(x, Const) and isinstance(x.v, complex):
                    return Const(x.v.real if f == 'real' else x.v.imag)
                if isinstance(x, Const):
                    return x if f == 'real' else Const(0)
                return x
            return FArr.of(a.shape, [part(x) for x in self._vals(a)])
        if f in ('abs', 'absolute', 'fabs', 'negative', 'sqrt', 'square'):
            def one(x):
                if isinstance(x, (Junk, Unknown)) or is_nan(x):
                    return x
                if isinstance(x, Const) and isinstance(x.v, (int, float)) and f in ('abs', 'absolute', 'fabs', 'negative', 'square'):
                    return Const({'abs': abs, 'absolute': abs, 'fabs': abs, 'negative': lambda z: -z, 'square': lambda z: z * z}[f](x.v))
                if isinstance(x, Sym) and x.r.is_zero() and f in ('abs', 'absolute', 'fabs', 'negative', 'square', 'sqrt'):
                    return Const(0)
                if isinstance(x, Const) and isinstance(x.v, complex) and f in ('abs', 'absolute'):
                    return Const(abs(x.v)) if abs(x.v) == int(abs(x.v)) else self.interp.call_value(ExtRef('numpy.' + f), [x], {}, node, None)
                if isinstance(x, Sym) and f in ('abs', 'absolute', 'fabs') and x.r.num.is_const() and x.r.den.is_const():
                    c = x.r.num.const_value() / x.r.den.const_value()
                    if getattr(c, 'imag', 0) == 0:
                        return self.lift(Rat(self.R.const(abs(Fraction(c.real) if isinstance(c, complex) else c))))
                return self.interp.call_value(ExtRef('numpy.' + f), [x], {}, node, None)
            return self.emap(one, a)
        if f == 'where' and len(args) == 3:
            def pick(c, x, y):
                if isinstance(c, Const):
                    return x if c.v else y
                return Unknown('where with a condition that is not decided')
            return self.emap(pick, a, args[1], args[2])
        if (f == 'where' and len(args) == 1) or f in ('nonzero', 'flatnonzero', 'argwhere'):
            vals = self._vals(a)
            if not all(isinstance(x, Const) for x in vals):
                return Unknown('%s of cells that are not decided' % f)
            hits = [idx for idx, x in zip(itertools.product(*[range(d) for d in a.shape]), vals) if x.v]
            if f == 'flatnonzero':
                return FArr.of((len(hits),), [Const(a.flat_index(h)) for h in hits], DType('i', 8))
            if f == 'argwhere':
                return FArr.of((len(hits), a.ndim), [Const(i) for h in hits for i in h], DType('i', 8))
            return Tup([FArr.of((len(hits),), [Const(h[k]) for h in hits], DType('i', 8)) for k in range(a.ndim)])
        if f == 'clip' and (len(args) == 3 or {'a_min', 'a_max'} & set(kwargs)):
            lo = kwargs.get('a_min', args[1] if len(args) > 1 else Const(None))
            hi = kwargs.get('a_max', args[2] if len(args) > 2 else Const(None))

            def clip(x, l, h):
                if isinstance(x, (Junk, Unknown)) or is_nan(x):
                    return x
                if isinstance(x, Const) and all(isinstance(b, Const) for b in (l, h)):
                    v = x.v
                    if l.v is not None:
                        v = max(v, l.v)
                    if h.v is not None:
                        v = min(v, h.v)
                    return Const(v)
                return Unknown('a clipped sample (bounds against a symbolic value)')
            return self.emap(clip, a, lo, hi)
        if f == 'nan_to_num':
            return Unknown('nan_to_num')
        if f == 'expand_dims' and len(args) + len(kwargs) == 2:
            ax = self._int(kwargs.get('axis', args[1] if len(args) > 1 else None))
            if ax is None:
                return Unknown('expand_dims axis')
            k = ax % (a.ndim + 1)
            return a.view(a.shape[:k] + (1,) + a.shape[k:])
        if f == 'broadcast_to' and len(args) == 2:
            dims = [self._int(x) for x in (args[1].items if isinstance(args[1], Tup) else [args[1]])]
            if None in dims or len(dims) < a.ndim:
                return Unknown('broadcast_to a shape that is not followed')
            src = (1,) * (len(dims) - a.ndim) + a.shape
            if any(s_ not in (1, d) for s_, d in zip(src, dims)):
                raise AbsRaise('ValueError', node)
            boxes = []
            for idx in itertools.product(*[range(d) for d in dims]):
                k = 0
                for i, s_ in zip(idx, src):
                    k = k * s_ + (0 if s_ == 1 else i)
                boxes.append(a.boxes[k])
            return FArr(tuple(dims), boxes, a.dtype, a.swapped)
        if f in ('shape', 'ndim', 'size'):
            return self.getattr(a, f, node)
        if f in ('multiply', 'add', 'subtract', 'divide', 'true_divide') and len(args) == 2:
            return self.binop({'multiply': ast.Mult(), 'add': ast.Add(), 'subtract': ast.Sub(), 'divide': ast.Div(), 'true_divide': ast.Div()}[f], a, args[1], node)
        if f in _ELEMENTWISE and len(args) <= 2 and not kwargs and all(isinstance(x, FArr) or self.is_cell(x) for x in args):
            return self.emap(lambda *cells: self.scalar_fn(f, list(cells), node), *args)
        if f in ('concatenate', 'hstack', 'vstack', 'stack'):
            return None
        if f in ('putmask', 'place', 'copyto') and len(args) == 3:
            m, val = (args[1], args[2]) if f != 'copyto' else (kwargs.get('where'), args[1])
            self.store_subscript(a, m, val, node)
            return Const(None)
        return None

    def scalar_fn(self, f, cells, node):
        for x in cells:
            if isinstance(x, (Junk, Unknown)) or is_nan(x):
                return x
        if all(isinstance(x, Const) and isinstance(x.v, (int, float)) and not isinstance(x.v, bool) for x in cells):
            try:
                fn = {'maximum': max, 'minimum': min, 'power': pow, 'sign': lambda z: (z > 0) - (z < 0), 'arctan2': math.atan2, 'arccos': math.acos, 'arcsin': math.asin,
                      'arctan': math.atan, 'deg2rad': math.radians, 'rad2deg': math.degrees}.get(f) or getattr(math, f)
                v = fn(*[x.v for x in cells])
                if isinstance(v, float) and v == int(v) and abs(v) < 2 ** 53 and all(isinstance(x.v, int) for x in cells) and f in ('hypot', 'sqrt', 'power', 'maximum', 'minimum'):
                    v = int(v)
                return Const(v)
            except (ValueError, ZeroDivisionError, OverflowError):
                return Junk('%s outside its domain' % f)
        return self.interp.call_value(ExtRef('numpy.' + f), list(cells), {}, node, None)

    def reduce_axis(self, f, a, ax, node):
        if isinstance(ax, Tup) and ax.items and all(self._int(x) is not None for x in ax.items):
            # several axes: one after the other, highest first (mean over equal-sized groups is the mean of the means)
            cur = a
            for k in sorted({self._int(x) % a.ndim for x in ax.items}, reverse=True):
                cur = self.reduce_axis(f, cur, Const(k), node)
                if not isinstance(cur, FArr):
                    return cur
            return cur
        k = self._int(ax)
        if k is None:
            return Unknown('reduction axis')
        k %= a.ndim
        moved = a.axis_perm([k] + [i for i in range(a.ndim) if i != k])
        out_shape = moved.shape[1:]
        n = _size(out_shape)
        if moved.shape[0] == 0:
            return FArr.of(out_shape, [NAN] * n)
        cols = []
        for j in range(n):
            col = FArr((moved.shape[0],), [moved.boxes[i * n + j] for i in range(moved.shape[0])])
            cols.append(self.np_array_fn(f, col, [col], {}, node))
        if f in ('mean', 'nanmean') and moved.shape[0] == 1:
            cols = [moved.boxes[j].v for j in range(n)]
        return FArr.of(out_shape, cols)

    # ------------------------------------------------------------------ text
    def mk_text(self, s, upto=False):
        if not has_holes(s) and not upto:
            return Const(s)
        return Text(s, upto)

    def text_of(self, v):
        if isinstance(v, Text):
            return v.s
        if isinstance(v, Const) and isinstance(v.v, str):
            return v.v
        return None

    def hole(self, value, exact=True):
        ch = chr(PUA0 + len(self.holes))
        self.holes[ch] = (value, exact)
        return ch

    def format_value(self, v, conv, spec):
        """the text of a formatted value: a literal for constants, one placeholder token for a number that is followed"""
        if isinstance(v, Text):
            return v.s if not spec and not v.upto else None
        if isinstance(v, Const) and not (isinstance(v.v, float) and v.v != v.v):
            try:
                x = v.v
                if conv == 'r':
                    x = repr(x)
                elif conv == 's':
                    x = str(x)
                return format(x, spec)
            except Exception:
                return None
        if isinstance(v, (Sym, Junk)) or is_nan(v):
            if is_nan(v):
                return format(float('nan'), spec) if not spec or spec[-1] in 'efgEFG' else None
            exact = spec in ('', 'r', 'd') or conv == 'r' or self._exact_spec(spec, v)
            return self.hole(v, exact)
        return None

    def _exact_spec(self, spec, v):
        import re
        m = re.fullmatch(r'[-+ ]?0?\d*(?:\.(\d+))?([eEgGfFd])', spec or '')
        if not m:
            return False
        if m.group(2) in 'd':
            return True
        if self._whole(v) and m.group(2) in 'fF':
            return True
        return m.group(2) in 'eEgG' and m.group(1) is not None and int(m.group(1)) >= 16 + (m.group(2) in 'gG')

    def percent_format(self, fmt, arg):
        import re
        vals = list(arg.items) if isinstance(arg, Tup) and arg.kind == 'tuple' else [arg]
        out = []
        pos = 0
        k = 0
        for m in re.finditer(r'%([-+ #0]*)(\d+)?(?:\.(\d+))?([diouxXeEfFgGcrs%])', fmt):
            out.append(fmt[pos:m.start()])
            pos = m.end()
            if m.group(4) == '%':
                out.append('%')
                continue
            if k >= len(vals):
                raise AbsRaise('TypeError')
            v = vals[k]
            k += 1
            if isinstance(v, Const) and not isinstance(v.v, (bytes,)):
                try:
                    out.append(m.group(0) % (v.v,))
                    continue
                except Exception:
                    return Unknown('%-format of a constant')
            if isinstance(v, Text) and m.group(4) == 's' and not m.group(2):
                out.append(v.s)
                continue
            if isinstance(v, (Sym, Junk)):
                code = m.group(4)
                exact = (code in 'di' and not m.group(3)) or (code in 'rs') or self._exact_spec((('.' + m.group(3)) if m.group(3) else '') + code, v)
                out.append(self.hole(v if code not in 'di' else self._quant(v, 'int'), exact))
                continue
            return Unknown('%-format of a value that is not followed')
        out.append(fmt[pos:])
        if k != len(vals):
            raise AbsRaise('TypeError')
        return self.mk_text(''.join(out))

    def could_match(self, holed, lit):
        """could the text with number tokens be exactly the literal?"""
        import re
        pat = ''.join('[-+0-9.eEinfa]+' if (PUA0 <= ord(c) < PUA0 + 0x1900) else re.escape(c) for c in holed)
        return re.fullmatch(pat, lit) is not None

    def parse_number(self, v, kind, node):
        s = self.text_of(v)
        if s is None or getattr(v, 'upto', False):
            return Unknown('number from a text that is not followed')
        t = s.strip()
        if len(t) == 1 and t in self.holes:
            val, exact = self.holes[t]
            if not exact:
                if isinstance(val, Sym):
                    return Sym(self.R.func('written_with_limited_precision', [val.r]))
                return Unknown('a number written with limited precision')
            if kind == 'int' and not self._whole(val):
                raise AbsRaise('ValueError', node)
            return val
        if has_holes(t):
            raise AbsRaise('ValueError', node)
        try:
            return Const(int(t) if kind == 'int' else float(t))
        except ValueError:
            raise AbsRaise('ValueError', node)

    def _whole(self, val):
        if isinstance(val, Const):
            return isinstance(val.v, int) or (isinstance(val.v, float) and val.v == int(val.v))
        if isinstance(val, Sym):
            ats = val.r.atoms()
            return len(ats) == 1 and self.R.info.get(list(ats)[0], ('',))[0] == 'quant' and val.r == Rat(self.R.atom(list(ats)[0]))
        return isinstance(val, Junk)

    def _pos_in(self, s, k):
        """nominal position k of text s as a value: a number when no token of unknown width precedes it"""
        if k < 0:
            return Const(k)
        return Const(k) if not has_holes(s[:k]) else Pos(k)

    def _nominal(self, s, v, default, end=False):
        """nominal index for a bound given as Const int / Pos / None; ('fuzzy', k) when a plain number lands behind a token of unknown width"""
        if v is None or (isinstance(v, Const) and v.v is None):
            return default
        if isinstance(v, Pos):
            return v.n
        i = self._int(v)
        if i is None:
            return None
        if i < 0:
            if has_holes(s):
                return ('fuzzy', i)
            return max(len(s) + i, 0)
        first = next((k for k, c in enumerate(s) if PUA0 <= ord(c) < PUA0 + 0x1900), None)
        if first is None or i <= first:
            return min(i, len(s)) if first is None else i
        return ('fuzzy', i)

    def text_subscript(self, v, idx, node):
        s = self.text_of(v)
        if getattr(v, 'upto', False):
            return Unknown('index into a prefix of unknown width')
        if isinstance(idx, Slice):
            if not (isinstance(idx.step, Const) and idx.step.v in (None, 1)):
                if not has_holes(s) and all(isinstance(z, Const) for z in (idx.lo, idx.hi, idx.step)):
                    return Const(s[slice(idx.lo.v, idx.hi.v, idx.step.v)])
                return Unknown('strided slice of text')
            lo = self._nominal(s, idx.lo, 0)
            hi = self._nominal(s, idx.hi, len(s), end=True)
            if lo is None or hi is None or isinstance(lo, tuple):
                return Unknown('slice of text at a place that is not followed')
            if isinstance(hi, tuple):
                if hi[1] < 0:
                    return Unknown('slice of text counted from an end of unknown width')
                # txt[lo:k] with k behind a token of unknown width: a prefix of s[lo:], at least up to the first token
                return self.mk_text(s[lo:], upto=True)
            return self.mk_text(s[lo:hi])
        i = self._nominal(s, idx, None)
        if isinstance(i, int):
            if i >= len(s):
                raise AbsRaise('IndexError', node)
            return self.mk_text(s[i])
        return Unknown('character of a text at a place that is not followed')

    def text_find(self, v, sub, lo, hi, reverse=False):
        s = self.text_of(v)
        lo_n = self._nominal(s, lo, 0)
        hi_n = self._nominal(s, hi, len(s))
        if lo_n is None or hi_n is None or isinstance(lo_n, tuple):
            return None
        upto = getattr(v, 'upto', False) or isinstance(hi_n, tuple)
        if isinstance(hi_n, tuple):
            hi_n = len(s)
        if has_holes(sub):
            return None
        k = (s.rfind if reverse else s.find)(sub, lo_n, hi_n)
        if k < 0:
            # tokens of numbers cannot contain the searched text unless it is made of number characters
            if has_holes(s[lo_n:hi_n]) and sub and all(c in '-+0123456789.eEinfa' for c in sub):
                return None
            return Const(-1)
        if upto:
            first = next((i for i, c in enumerate(s) if PUA0 <= ord(c) < PUA0 + 0x1900), len(s))
            if k + len(sub) <= first:
                return Const(k)
            return None         # present in the text, whether inside the prefix is not known
        if has_holes(s[lo_n:k] if not reverse else s[k:hi_n]) and sub and all(c in '-+0123456789.eEinfa' for c in sub):
            return None
        return self._pos_in(s, k)

    def text_lines(self, v, keepends=False):
        s = self.text_of(v)
        if s is None or getattr(v, 'upto', False):
            return None
        return [self.mk_text(x) for x in s.splitlines(keepends)]

    def text_method(self, v, name, args, kwargs, node):
        s = self.text_of(v)
        upto = getattr(v, 'upto', False)
        if name in ('find', 'index', 'rfind', 'rindex') and args and isinstance(args[0], Const) and isinstance(args[0].v, str):
            r = self.text_find(v, args[0].v, args[1] if len(args) > 1 else None, args[2] if len(args) > 2 else None, reverse=name.startswith('r'))
            if r is None:
                return Unknown('%s in a text at a place that is not decided' % name)
            if name.endswith('index') and isinstance(r, Const) and r.v == -1:
                raise AbsRaise('ValueError', node)
            return r
        if name == 'count' and args and isinstance(args[0], Const) and not upto:
            if has_holes(s) and all(c in '-+0123456789.eEinfa' for c in args[0].v):
                return Unknown('count of number characters in a text with number tokens')
            return Const(s.count(args[0].v))
        if upto:
            if name in ('startswith',) and args and isinstance(args[0], Const) and isinstance(args[0].v, str):
                first = next((i for i, c in enumerate(s) if PUA0 <= ord(c) < PUA0 + 0x1900), len(s))
                if len(args[0].v) <= first:
                    return Const(s.startswith(args[0].v))
            return Unknown('%s of a prefix of unknown width' % name)
        cargs = []
        for a in args:
            if isinstance(a, Const):
                cargs.append(a.v)
            elif isinstance(a, Text) and not a.upto:
                cargs.append(a.s)
            else:
                cargs = None
                break
        if name == 'format':
            return self.str_format(s, args, kwargs, node)
        if name == 'join' and len(args) == 1:
            its = self.interp.iterate(args[0], node)
            if its is None:
                return Unknown('join over a sequence that is not followed')
            parts = [self.text_of(x) for x in its]
            if any(p is None for p in parts) or any(getattr(x, 'upto', False) for x in its):
                return Unknown('join of values that are not text')
            return self.mk_text(s.join(parts))
        if name == 'encode':
            if not has_holes(s):
                return BytesV(list(s.encode(cargs[0] if cargs else 'utf-8'))) if False else Const(s.encode(cargs[0] if cargs else 'utf-8'))
            t = Text(s)
            t.encoded = True
            return t            # the same characters as bytes (number tokens are ASCII)
        if cargs is None:
            return Unknown('text method %s with arguments that are not followed' % name)
        if name in ('split', 'rsplit', 'splitlines', 'partition', 'rpartition'):
            if name in ('split', 'rsplit') and cargs and cargs[0] is not None and has_holes(s) and all(c in '-+0123456789.eEinfa' for c in cargs[0]):
                return Unknown('split on number characters')
            if name in ('partition', 'rpartition') and has_holes(s) and all(c in '-+0123456789.eEinfa' for c in cargs[0]):
                return Unknown('partition on number characters')
            kw = {k: x.v for k, x in kwargs.items() if isinstance(x, Const)}
            r = getattr(s, name)(*cargs, **kw)
            return Tup([self.mk_text(x) for x in r], 'list' if name in ('split', 'rsplit', 'splitlines') else 'tuple')
        if name in ('strip', 'lstrip', 'rstrip', 'upper', 'lower', 'casefold', 'title', 'capitalize', 'swapcase', 'expandtabs', 'removeprefix', 'removesuffix', 'replace'):
            if name == 'replace' and has_holes(s) and all(c in '-+0123456789.eEinfa' for c in cargs[0]):
                return Unknown('replace of number characters')
            if name in ('strip', 'lstrip', 'rstrip') and cargs and cargs[0] is not None and has_holes(s) and any(c in '-+0123456789.eEinfa' for c in cargs[0]):
                return Unknown('strip of number characters')
            return self.mk_text(getattr(s, name)(*cargs))
        if name in ('startswith', 'endswith'):
            pre = cargs[0] if not isinstance(cargs[0], (tuple, list)) else None
            if pre is None:
                return Unknown(name)
            k = len(pre)
            edge = s[:k] if name == 'startswith' else s[len(s) - k:] if k else ''
            if has_holes(edge) or has_holes(pre):
                if edge == pre:
                    return Const(True)
                return Unknown('%s against a number token' % name)
            return Const(getattr(s, name)(pre))
        if name in ('isdigit', 'isnumeric', 'isalpha', 'isspace', 'isupper', 'islower', 'isalnum', 'isdecimal'):
            if has_holes(s):
                if name in ('isspace', 'isalpha'):
                    return Const(False)
                return Unknown(name)
            return Const(getattr(s, name)())
        if name == 'decode':
            return v
        return Unknown('text method %s' % name)

    def str_format(self, fmt, args, kwargs, node):
        import string
        out = []
        auto = 0
        try:
            parsed = list(string.Formatter().parse(fmt))
        except ValueError:
            return Unknown('format string')
        for lit, field, spec, conv in parsed:
            out.append(lit)
            if field is None:
                continue
            if field == '':
                field = str(auto)
                auto += 1
            if field.isdigit():
                if int(field) >= len(args):
                    raise AbsRaise('IndexError', node)
                v = args[int(field)]
            elif field in kwargs:
                v = kwargs[field]
            else:
                return Unknown('format field %s' % field)
            if spec and '{' in spec:
                return Unknown('nested format spec')
            s = self.format_value(v, conv, spec or '')
            if s is None:
                return Unknown('format of a value that is not followed')
            out.append(s)
        return self.mk_text(''.join(out))

    # ------------------------------------------------------------------ bytes
    def bytes_items(self, v):
        if isinstance(v, BytesV):
            return list(v.items)
        if isinstance(v, Const) and isinstance(v.v, (bytes, bytearray)):
            return list(v.v)
        return None

    def bytes_method(self, v, name, args, kwargs, node):
        items = self.bytes_items(v)
        if name == 'decode':
            if all(isinstance(x, int) for x in items):
                try:
                    return Const(bytes(items).decode(args[0].v if args and isinstance(args[0], Const) else 'utf-8'))
                except Exception:
                    raise AbsRaise('UnicodeDecodeError', node)
            return Unknown('decode of packed values')
        if name in ('rstrip', 'strip', 'lstrip', 'split', 'startswith', 'endswith', 'find', 'hex', 'upper', 'lower', 'replace', 'count', 'index'):
            if all(isinstance(x, int) for x in items) and all(isinstance(a, Const) for a in args):
                r = getattr(bytes(items), name)(*[a.v for a in args])
                return Const(r) if not isinstance(r, list) else Tup([Const(x) for x in r], 'list')
            return Unknown('bytes method %s on packed values' % name)
        if isinstance(v, BytesV) and v.mutable:
            if name == 'extend' and args:
                new = self.bytes_items(args[0])
                if new is None and isinstance(args[0], FArr):
                    new = self.arr_bytes(args[0]).items
                if new is None:
                    return Unknown('extend with a value that is not followed')
                v.items.extend(new)
                return Const(None)
            if name == 'append' and args and self._int(args[0]) is not None:
                v.items.append(self._int(args[0]) & 255)
                return Const(None)
        if name == 'raw':
            return BytesV(items)
        if name == 'tobytes':
            return BytesV(items)
        return Unknown('bytes method %s' % name)

    def field_bytes(self, code, value):
        """n items for one packed value"""
        n = _CODE_SIZE[code[1]]
        if isinstance(value, Const) and isinstance(value.v, (int, float, bool)) and not (isinstance(value.v, float) and value.v != value.v and code[1] not in 'efd'):
            try:
                x = value.v
                if code[1] in 'efd':
                    x = float(x)
                elif isinstance(x, float):
                    raise AbsRaise('error')
                return list(struct.pack(code, x))
            except (struct.error, OverflowError):
                raise AbsRaise('error')
        fid = self.fresh('f')
        self.fields[fid] = (code, value)
        return [(fid, k, n) for k in range(n)]

    def arr_bytes(self, a):
        dt = a.dtype or DType('f', 8)
        code = dt.code()
        if code is None:
            return Unknown('bytes of an array whose item type is not followed')
        if a.swapped:
            code = ('>' if code[0] == '<' else '<') + code[1]
        out = []
        for x in a.values():
            if dt.kind in 'iu' and isinstance(x, Const) and isinstance(x.v, int):
                lo, hi = (-(1 << (8 * dt.size - 1)), (1 << (8 * dt.size - 1)) - 1) if dt.kind == 'i' else (0, (1 << (8 * dt.size)) - 1)
                if not lo <= x.v <= hi:
                    x = Const(((x.v - lo) % (1 << (8 * dt.size))) + lo)         # numpy casts wrap
            out.extend(self.field_bytes(code, x))
        return BytesV(out)

    def decode_items(self, items, code, node, what):
        """one value from n items read with struct code `code`"""
        n = _CODE_SIZE[code[1]]
        assert len(items) == n
        if all(isinstance(x, int) for x in items):
            return Const(struct.unpack(code, bytes(items))[0])
        fids = {x[0] for x in items if not isinstance(x, int)}
        if len(fids) == 1 and all(not isinstance(x, int) for x in items):
            fid = list(fids)[0]
            if fid == '?':
                return Unknown('bytes that are not followed')
            wcode, val = self.fields[fid]
            if [x[1] for x in items] == list(range(n)) and items[0][2] == n:
                if wcode == code or (n == 1 and wcode[1] == code[1]):
                    return self.decoded_value(val, code)
                if wcode[1].lower() == code[1].lower() and wcode[0] == code[0] and code[1] not in 'efd':
                    return self.decoded_value(val, code)       # signed / unsigned reading of the same integer (valid range assumed)
                self.interp.emit('layout-mismatch', node=node, wrote=wcode, reads=code, what=what)
                return Junk('written as %s, read as %s' % (wcode, code))
        if any(x[0] == '?' for x in items if not isinstance(x, int)):
            return Unknown('bytes that are not followed')
        self.interp.emit('layout-mismatch', node=node, wrote='parts of %d values' % (len(fids) + (1 if any(isinstance(x, int) for x in items) else 0)), reads=code, what=what)
        j = Junk('a number assembled from parts of different stored values or padding')
        lead = [x for x in items if not isinstance(x, int)]
        if len(fids) == 1 and code[0] == '>' and code[1] in 'bhilq' and [x[1] for x in lead] == list(range(len(lead))) and lead[0][2] == n \
                and items[:len(lead)] == lead and all(x == 0 for x in items[len(lead):]) and self.fields[list(fids)[0]][0] == code:
            j = Junk('the leading %d of the %d bytes of a stored sample, padded with zeros' % (len(lead), n))
            j.in_range = True
        return j

    def decoded_value(self, val, code):
        if isinstance(val, Sym) and self.count_range is not None and code[1] not in 'efd':
            name = self.fresh('cnt')
            self.count_src[name] = val
            return self.sym(name)
        return val

    def struct_fn(self, f, args, kwargs, node):
        if not args or not (isinstance(args[0], Const) and isinstance(args[0].v, (str, bytes))):
            return Unknown('struct call with a format that is not a constant')
        fmt = args[0].v if isinstance(args[0].v, str) else args[0].v.decode()
        try:
            order, codes = parse_struct(fmt)
        except ValueError:
            raise AbsRaise('error', node)
        size = sum(c * _CODE_SIZE[k] for c, k in codes)
        if f == 'calcsize':
            return Const(size)
        if f in ('pack', 'pack_into'):
            vals = list(args[1:]) if f == 'pack' else list(args[3:])
            out = []
            for c, k in codes:
                if k == 'x':
                    out.extend([0] * c)
                    continue
                if k in 'sp':
                    if not vals:
                        raise AbsRaise('error', node)
                    b = self.bytes_items(vals.pop(0))
                    if b is None:
                        raise AbsRaise('error', node)       # str where bytes are required, or a value that is not bytes
                    b = b[:c] + [0] * max(0, c - len(b))
                    out.extend(b)
                    continue
                for _ in range(c):
                    if not vals:
                        raise AbsRaise('error', node)
                    x = vals.pop(0)
                    if k == 'c':
                        b = self.bytes_items(x)
                        if b is None or len(b) != 1:
                            raise AbsRaise('error', node)
                        out.extend(b)
                        continue
                    if isinstance(x, (Text,)) or (isinstance(x, Const) and isinstance(x.v, (str, bytes))) or isinstance(x, (BytesV, FArr, Tup)):
                        raise AbsRaise('error', node)
                    out.extend(self.field_bytes(order + k, x))
            if vals:
                import os
                if os.environ.get('SA_DEBUG_UNKNOWN'): print('STRUCT leftover', fmt, vals, args)
                raise AbsRaise('error', node)
            if f == 'pack':
                return BytesV(out)
            buf, off = args[1], self._int(args[2])
            if not (isinstance(buf, BytesV) and buf.mutable) or off is None:
                return Unknown('pack_into a buffer that is not followed')
            if off < 0:
                off += len(buf.items)
            if off < 0 or off + len(out) > len(buf.items):
                raise AbsRaise('error', node)
            buf.items[off:off + len(out)] = out
            return Const(None)
        if f in ('unpack', 'unpack_from', 'iter_unpack'):
            data = self.bytes_items(args[1]) if len(args) > 1 else None
            if data is None:
                return Unknown('unpack of a buffer that is not followed')
            if f == 'unpack_from':
                off = self._int(kwargs.get('offset', args[2] if len(args) > 2 else Const(0)))
                if off is None:
                    return Unknown('unpack_from offset')
                if off < 0:
                    off += len(data)
                if off < 0 or off + size > len(data):
                    raise AbsRaise('error', node)
                data = data[off:off + size]
            elif len(data) != size:
                raise AbsRaise('error', node)
            out = []
            p = 0
            for c, k in codes:
                if k == 'x':
                    p += c
                    continue
                if k in 'sp':
                    out.append(BytesV(data[p:p + c]) if not all(isinstance(x, int) for x in data[p:p + c]) else Const(bytes(data[p:p + c])))
                    p += c
                    continue
                for _ in range(c):
                    n = _CODE_SIZE[k]
                    if k == 'c':
                        out.append(Const(bytes(data[p:p + 1])) if isinstance(data[p], int) else Unknown('one byte of a packed value'))
                    else:
                        out.append(self.decode_items(data[p:p + n], order + k, node, 'struct field at byte %d' % p))
                    p += n
            return Tup(out)
        return Unknown('struct.%s' % f)

    # ------------------------------------------------------------------ files
    def open_file(self, target, mode, node):
        if isinstance(target, FileH):
            key = target.key
        elif isinstance(target, Const) and isinstance(target.v, str):
            key = target.v
        else:
            return Unknown('open of a name that is not followed')
        h = FileH(key, mode)
        if 'w' in mode:
            self.files[key] = BytesV([]) if 'b' in mode else ''
        elif 'a' not in mode and key not in self.files:
            raise AbsRaise('FileNotFoundError', node)
        if 'a' in mode:
            self.files.setdefault(key, BytesV([]) if 'b' in mode else '')
            c = self.files[key]
            h.pos = len(c.items) if isinstance(c, BytesV) else len(c)
        return h

    def file_text(self, h):
        c = self.files.get(h.key)
        if isinstance(c, str):
            return self.mk_text(c)
        return None

    def file_write(self, h, data, node, binary=None):
        if not isinstance(h, FileH):
            raise AnalysisError('a write to something that is not a followed file')
        c = self.files.get(h.key)
        if isinstance(c, BytesV):
            if isinstance(data, FArr):
                data = self.arr_bytes(data)
            if isinstance(data, Text) and getattr(data, 'encoded', False):
                raise AnalysisError('text with number tokens written to a binary file is not followed')
            items = self.bytes_items(data)
            if items is None:
                if isinstance(data, (Text,)) or (isinstance(data, Const) and isinstance(data.v, str)):
                    raise AbsRaise('TypeError', node)
                raise AnalysisError('the bytes written to %s are not followed: %r' % (h.key, data))
            c.items[h.pos:h.pos + len(items)] = items
            h.pos += len(items)
            self.interp.emit('file', key=h.key, content=BytesV(c.items), node=node)
            return Const(len(items))
        s = self.text_of(data)
        if s is None or getattr(data, 'upto', False):
            if isinstance(data, (BytesV,)) or (isinstance(data, Const) and isinstance(data.v, bytes)):
                raise AbsRaise('TypeError', node)
            raise AnalysisError('the text written to %s is not followed: %r' % (h.key, data))
        self.files[h.key] = c[:h.pos] + s + c[h.pos + len(s):]
        h.pos += len(s)
        self.interp.emit('file', key=h.key, content=self.files[h.key], node=node)
        return Const(len(s))

    def file_method(self, h, name, args, kwargs, node):
        c = self.files.get(h.key)
        if name in ('expanduser', 'resolve', 'absolute', 'with_suffix', '__fspath__', '__enter__'):
            return h
        if name == 'exists':
            return Const(h.key in self.files)
        if name == 'open':
            mode = kwargs.get('mode', args[0] if args else Const('r'))
            return self.open_file(h, mode.v if isinstance(mode, Const) else 'r', node)
        if name in ('close', 'flush', '__exit__'):
            if name != 'flush':
                h.closed = True
            return Const(None)
        if name == 'read_text':
            if not isinstance(c, str):
                raise AbsRaise('FileNotFoundError' if c is None else 'UnicodeDecodeError', node)
            return self.mk_text(c)
        if name == 'read_bytes':
            if c is None:
                raise AbsRaise('FileNotFoundError', node)
            return BytesV(c.items) if isinstance(c, BytesV) else Unknown('bytes of a text file')
        if name == 'write_text' and args:
            self.files[h.key] = ''
            h2 = FileH(h.key, 'w')
            return self.file_write(h2, args[0], node)
        if name == 'write_bytes' and args:
            self.files[h.key] = BytesV([])
            h2 = FileH(h.key, 'wb')
            return self.file_write(h2, args[0], node)
        if name == 'write' and args:
            return self.file_write(h, args[0], node)
        if name == 'writelines' and args:
            its = self.interp.iterate(args[0], node)
            if its is None:
                raise AnalysisError('the lines written to %s are not followed' % h.key)
            for x in its:
                self.file_write(h, x, node)
            return Const(None)
        if name == 'tell':
            return Const(h.pos) if isinstance(c, BytesV) else self._pos_in(c, h.pos)
        if name == 'seek' and args:
            off = self._int(args[0])
            wh = self._int(args[1]) if len(args) > 1 else 0
            if isinstance(args[0], Pos) and wh == 0:
                h.pos = args[0].n
                return args[0]
            if off is None or wh is None or (isinstance(c, str) and has_holes(c) and (wh != 0 or off > 0)):
                raise AnalysisError('seek to a place that is not followed')
            n = len(c.items) if isinstance(c, BytesV) else len(c)
            h.pos = off if wh == 0 else (h.pos + off if wh == 1 else n + off)
            return Const(h.pos)
        if name == 'read':
            n = self._int(args[0]) if args and not (isinstance(args[0], Const) and args[0].v is None) else -1
            if n is None:
                raise AnalysisError('read of a number of bytes that is not followed')
            if isinstance(c, BytesV):
                out = c.items[h.pos:] if n < 0 else c.items[h.pos:h.pos + n]
                h.pos += len(out)
                return BytesV(out)
            if n >= 0 and has_holes(c[h.pos:h.pos + n]):
                raise AnalysisError('read of a fixed number of characters across a number token')
            out = c[h.pos:] if n < 0 else c[h.pos:h.pos + n]
            h.pos += len(out)
            return self.mk_text(out)
        if name in ('readline', 'readlines') and isinstance(c, str):
            rest = c[h.pos:]
            if name == 'readlines':
                h.pos = len(c)
                return Tup([self.mk_text(x) for x in rest.splitlines(True)], 'list')
            k = rest.find('\n')
            line = rest if k < 0 else rest[:k + 1]
            h.pos += len(line)
            return self.mk_text(line)
        if name == 'fileno':
            raise AnalysisError('file descriptors are not followed')
        return Unknown('file method %s' % name)

    def np_io(self, f, args, kwargs, node):
        a0 = args[0] if args else None
        if f == 'savetxt' and len(args) >= 2:
            def kw(name, pos, default):
                return kwargs.get(name, args[pos] if len(args) > pos else Const(default))
            X, fmt, delim, newline, header, footer, comments = args[1], kw('fmt', 2, '%.18e'), kw('delimiter', 3, ' '), kw('newline', 4, '\n'), \
                kw('header', 5, ''), kw('footer', 6, ''), kw('comments', 7, '# ')
            if not isinstance(X, FArr) or not all(isinstance(z, Const) and isinstance(z.v, str) for z in (fmt, delim, newline, comments)):
                raise AnalysisError('np.savetxt with arguments that are not followed: %r' % ([X, fmt, delim, newline, comments],))
            if X.ndim > 2:
                raise AbsRaise('ValueError', node)
            rows = X if X.ndim == 2 else (X.view((X.size, 1)) if X.ndim == 1 else X.view((1, 1)))
            out = []
            for part, is_hdr in ((header, True),):
                s = self.text_of(part)
                if s is None:
                    raise AnalysisError('np.savetxt header is not followed')
                if s:
                    out.append(comments.v + s.replace('\n', '\n' + comments.v) + newline.v)
            ncol = rows.shape[1]
            for i in range(rows.shape[0]):
                cells = []
                for j in range(ncol):
                    t = self.percent_format(fmt.v, rows.boxes[i * ncol + j].v)
                    s = self.text_of(t)
                    if s is None:
                        raise AnalysisError('np.savetxt of cells that are not followed')
                    cells.append(s)
                out.append(delim.v.join(cells) + newline.v)
            s = self.text_of(footer)
            if s:
                out.append(comments.v + s.replace('\n', '\n' + comments.v) + newline.v)
            if isinstance(a0, FileH) and a0.mode != 'path':
                self.file_write(a0, self.mk_text(''.join(out)), node)
            else:
                key = a0.key if isinstance(a0, FileH) else (a0.v if isinstance(a0, Const) and isinstance(a0.v, str) else None)
                if key is None:
                    raise AnalysisError('np.savetxt to a name that is not followed')
                self.files[key] = ''.join(out)
            self.interp.emit('file', key=(a0.key if isinstance(a0, FileH) else a0.v), content=self.files[(a0.key if isinstance(a0, FileH) else a0.v)], node=node)
            return Const(None)
        if f in ('fromstring', 'loadtxt', 'genfromtxt') and args:
            if f == 'fromstring':
                txt = a0
                sep = kwargs.get('sep', args[3] if len(args) > 3 else Const(''))
                if not (isinstance(sep, Const) and isinstance(sep.v, str) and sep.v.strip() == '' and sep.v != ''):
                    return Unknown('fromstring with a separator other than white space')
                if kwargs.get('skip_header') or kwargs.get('skiprows'):
                    return Unknown('skipped rows')
            else:
                skip = self._int(kwargs.get('skiprows', kwargs.get('skip_header', Const(0))))
                if isinstance(a0, FileH):
                    c = self.files.get(a0.key)
                    if not isinstance(c, str):
                        raise AbsRaise('FileNotFoundError', node)
                    txt = self.mk_text(c[a0.pos:] if a0.mode != 'path' else c)
                elif isinstance(a0, Const) and a0.v in self.files and isinstance(self.files[a0.v], str):
                    txt = self.mk_text(self.files[a0.v])
                elif isinstance(a0, Tup):
                    parts = [self.text_of(x) for x in a0.items]
                    if any(p is None for p in parts):
                        return Unknown('loadtxt of lines that are not followed')
                    txt = self.mk_text('\n'.join(p.rstrip('\n') for p in parts))
                else:
                    return Unknown('loadtxt source')
                if skip is None or set(kwargs) - {'skiprows', 'skip_header', 'dtype', 'ndmin'}:
                    return Unknown('loadtxt options that are not followed')
                if skip:
                    lines = self.text_of(txt).split('\n')
                    txt = self.mk_text('\n'.join(lines[skip:]))
            s = self.text_of(txt)
            if s is None or getattr(txt, 'upto', False):
                return Unknown('numbers from a text that is not followed')
            dt = as_dtype(kwargs.get('dtype', args[1] if len(args) > 1 else None)) or DType('f', 8)
            lines = [ln.split() for ln in s.split('\n')] if f != 'fromstring' else [s.split()]
            lines = [ln for ln in lines if ln]
            cells = []
            for ln in lines:
                for tok in ln:
                    v = self.parse_number(self.mk_text(tok), 'float', node)
                    if dt.kind in 'iu' and not self._whole(v) and not isinstance(v, Unknown):
                        raise AbsRaise('ValueError', node)
                    if isinstance(v, Sym) and self.count_range is not None:
                        v = self.decoded_value(v, '<q')
                    cells.append(v)
            if f == 'fromstring' or len(lines) <= 1:
                return FArr.of((len(cells),), cells, dt)
            if len({len(ln) for ln in lines}) != 1:
                raise AbsRaise('ValueError', node)
            shape = (len(lines), len(lines[0])) if len(lines[0]) > 1 else (len(lines),)
            return FArr.of(shape, cells, dt)
        if f in ('frombuffer', 'fromfile') and args:
            dt = as_dtype(kwargs.get('dtype', args[1] if len(args) > 1 else None)) or DType('f', 8)
            count = self._int(kwargs.get('count', args[2] if len(args) > 2 else Const(-1)))
            off = self._int(kwargs.get('offset', args[3] if len(args) > 3 else Const(0)))
            code = dt.code()
            if count is None or off is None or code is None:
                return Unknown('%s with a count / offset / item type that is not followed' % f)
            h = None
            if f == 'fromfile':
                if isinstance(a0, FileH):
                    h = a0
                elif isinstance(a0, Const) and a0.v in self.files:
                    h = FileH(a0.v, 'rb')
                else:
                    return Unknown('fromfile source')
                c = self.files.get(h.key)
                if not isinstance(c, BytesV):
                    raise AbsRaise('FileNotFoundError', node)
                start = (h.pos if h.mode != 'path' else 0) + off
                data = c.items[start:]
            else:
                data = self.bytes_items(a0)
                if data is None:
                    if isinstance(a0, FArr):
                        data = self.arr_bytes(a0).items
                    else:
                        return Unknown('frombuffer of a buffer that is not followed')
                if off < 0 or off > len(data):
                    raise AbsRaise('ValueError', node)
                data = data[off:]
            n = dt.size
            if count < 0:
                if len(data) % n and f == 'frombuffer':
                    raise AbsRaise('ValueError', node)
                count = len(data) // n
            elif len(data) < count * n:
                if f == 'frombuffer':
                    raise AbsRaise('ValueError', node)
                count = len(data) // n          # fromfile returns what is there
            cells = [self.decode_items(data[k * n:(k + 1) * n], code, node, 'sample %d' % k) for k in range(count)]
            if h is not None and h.mode != 'path':
                h.pos += off + count * n
            return FArr.of((count,), cells, dt)
        return Unknown('numpy.%s' % f)

    def on_branch(self, test, truth, frame):
        if isinstance(test, ast.Compare) and len(test.ops) == 1:
            try:
                lhs, rhs = self.interp.ev(test.left, frame), self.interp.ev(test.comparators[0], frame)
            except Exception:
                return
            self.interp.emit('test', left=lhs, op=type(test.ops[0]).__name__, right=rhs, truth=truth, text=ast.unparse(test))

    # ------------------------------------------------------------------ loops: run them (everything they test is concrete here)
    LOOP_FUEL = 20000

    def loop(self, node, frame):
        if not isinstance(node, ast.While):
            return False
        it = self.interp
        for _ in range(self.LOOP_FUEL):
            if not it.branch(node.test, frame):
                it.exec_block(node.orelse, frame)
                return True
            try:
                it.exec_block(node.body, frame)
            except _Break:
                return True
            except _Continue:
                continue
        raise AnalysisError('a while loop did not end within %d passes' % self.LOOP_FUEL)

    def strip_quant(self, r):
        """the value with every quantisation (round / int / floor) replaced by what it was applied to, and stored counts by what the
        writer stored"""
        for _ in range(50):
            sub = {}
            for a in r.atoms():
                info = self.R.info.get(a)
                if info and info[0] == 'quant':
                    sub[a] = info[1][0]
                elif a in self.count_src and isinstance(self.count_src[a], Sym):
                    sub[a] = self.count_src[a].r
            if not sub:
                return r
            r = r.subs(sub)
        raise AnalysisError('quantisation chain too deep')


def file_interp(db, **kw):
    """an interpreter over FILE in which f-strings are evaluated"""
    from ..core.interp import Interp
    from .normdom import install_pi

    class FileInterp(Interp):
        def _concrete_ext(self, dotted, args, kwargs):
            if dotted in ('numpy.arange', 'numpy.linspace', 'numpy.ndindex'):
                return None         # arrays are FILE's business
            return Interp._concrete_ext(self, dotted, args, kwargs)

        def ev_JoinedStr(self, node, frame):
            parts = []
            for v in node.values:
                if isinstance(v, ast.Constant):
                    parts.append(str(v.value))
                    continue
                val = self.ev(v.value, frame)
                spec = ''
                if v.format_spec is not None:
                    sp = self.ev(v.format_spec, frame)
                    if not (isinstance(sp, Const) and isinstance(sp.v, str)):
                        return Unknown('format spec that is not a constant')
                    spec = sp.v
                conv = {-1: None, 115: 's', 114: 'r', 97: 'a'}.get(v.conversion)
                s = self.dom.format_value(val, conv, spec)
                if s is None:
                    return Unknown('formatted value that is not followed: %r' % (val,))
                parts.append(s)
            return self.dom.mk_text(''.join(parts))
    dom = FileDomain(**kw)
    it = install_pi(FileInterp(db, dom))
    orig = it.getattr

    def getattr_(o, name, node, frame):
        if isinstance(o, ExtRef) and o.dotted in ('numpy', 'math') and name in ('nan', 'NaN', 'NAN'):
            return NAN
        if isinstance(o, ExtRef) and o.dotted in ('numpy', 'math') and name in ('inf', 'Inf', 'infty'):
            return Const(float('inf'))
        return orig(o, name, node, frame)
    it.getattr = getattr_
    return it, dom
