"""NORM as an interpreter domain: scalar/elementwise values are rational functions over atoms."""
import ast
from fractions import Fraction

from ..core.interp import Domain, Value, Const, Tup, Unknown, Slice, Obj, ExtRef
from ..core.norm import Ring, Poly, Rat, NormError, _rat


class Sym(Value):
    """A symbolic scalar (or elementwise array expression)."""
    __slots__ = ('r',)

    def __init__(self, r):
        self.r = r if isinstance(r, Rat) else Rat(r)

    def __repr__(self):
        return 'Sym(%s)' % self.r.key()

    def __eq__(self, o):
        return isinstance(o, Sym) and self.r == o.r

    def __hash__(self):
        return hash(self.r.key())


class ArrSym(Sym):
    """an elementwise symbol known to stand for an ndarray (not a Python number): in-place operations on it are seen through every alias
    (the caller's variable when a helper scales its argument in place)"""
    is_array = True


def num_to_fraction(v):
    if isinstance(v, bool):
        return Fraction(int(v))
    if isinstance(v, int):
        return Fraction(v)
    if isinstance(v, float):
        return Fraction(repr(v))
    raise NormError('not a real literal: %r' % (v,))


ELEMENTWISE_ID = {'numpy.asarray', 'numpy.array', 'numpy.ascontiguousarray', 'numpy.float64', 'numpy.float32',
                  'numpy.squeeze', 'numpy.atleast_1d', 'numpy.atleast_2d', 'numpy.copy', 'numpy.asanyarray'}
TRIG = {'numpy.sin': 'sin', 'numpy.cos': 'cos', 'math.sin': 'sin', 'math.cos': 'cos'}


class NormDomain(Domain):
    name = 'NORM'

    def __init__(self, ring=None, float_consts=True):
        self.R = ring or Ring()
        self.notes = []

    # -- coercion ----------------------------------------------------------
    def rat(self, v):
        """Value -> Rat or None."""
        if isinstance(v, Sym):
            return v.r
        if isinstance(v, Const):
            if isinstance(v.v, complex):
                re, im = v.v.real, v.v.imag
                return Rat(self.R.const(num_to_fraction(re)) + self.R.I * num_to_fraction(im))
            if isinstance(v.v, (int, float)) and not isinstance(v.v, bool):
                return Rat(self.R.const(num_to_fraction(v.v)))
            if isinstance(v.v, bool):
                return Rat(self.R.const(int(v.v)))
        return None

    def sym(self, name, real=True):
        return Sym(self.R.atom(name, real=real))

    def lift(self, r):
        """Rat -> Value; integer constants become Const so they can index/loop."""
        if isinstance(r, Poly):
            r = Rat(r)
        if r.num.is_const() and r.den.is_const():
            c = r.num.const_value() / r.den.const_value()
            if c.denominator == 1:
                return Const(int(c))
        return Sym(r)

    def key(self, v):
        if isinstance(v, Sym):
            return v.r.key()
        if isinstance(v, Const):
            return repr(v.v)
        if isinstance(v, Tup):
            ks = [self.key(x) for x in v.items]
            return None if any(k is None for k in ks) else '(%s)' % ','.join(ks)
        if isinstance(v, Slice):
            ks = [self.key(v.lo), self.key(v.hi), self.key(v.step)]
            return None if any(k is None for k in ks) else '%s:%s:%s' % tuple(ks)
        return None

    def func_atom(self, fname, args, real=True):
        rs = []
        for a in args:
            r = self.rat(a)
            if r is None:
                k = self.key(a)
                if k is None:
                    return None
                r = Rat(self.R.atom(k))
            rs.append(r)
        return Sym(self.R.func(fname, rs, real=real))

    # -- hooks -------------------------------------------------------------
    def param(self, fi, name, default):
        return self.sym(name)

    def mark_array(self, v):
        return ArrSym(v.r) if isinstance(v, Sym) and not isinstance(v, ArrSym) else v

    def binop(self, op, a, b, node):
        if not (isinstance(a, Sym) or isinstance(b, Sym)):
            if isinstance(a, Const) and isinstance(b, Const) and isinstance(op, ast.Div):
                ra, rb = self.rat(a), self.rat(b)
                if ra is not None and rb is not None and not rb.is_zero():
                    return self.lift(ra / rb)
            if isinstance(a, Const) and isinstance(b, Const) and isinstance(op, ast.Pow) \
                    and isinstance(a.v, (int, float)) and isinstance(b.v, (int, float)) and not isinstance(b.v, bool):
                if isinstance(b.v, float) or (isinstance(b.v, int) and b.v < 0) or isinstance(a.v, float):
                    ra = self.rat(a)
                    return self._pow(ra, b)
            if isinstance(a, Const) and isinstance(b, Const) and (isinstance(a.v, float) or isinstance(b.v, float)) \
                    and type(op) in (ast.Add, ast.Sub, ast.Mult):
                ra, rb = self.rat(a), self.rat(b)
                if ra is not None and rb is not None:
                    return self.lift({ast.Add: ra + rb, ast.Sub: ra - rb, ast.Mult: ra * rb}[type(op)])
            return None
        ra, rb = self.rat(a), self.rat(b)
        if ra is None or rb is None:
            return Unknown('arith with non-scalar')
        try:
            if isinstance(op, ast.Add):
                return self.lift(ra + rb)
            if isinstance(op, ast.Sub):
                return self.lift(ra - rb)
            if isinstance(op, ast.Mult):
                return self.lift(ra * rb)
            if isinstance(op, ast.MatMult):
                return self.lift(ra * rb)
            if isinstance(op, ast.Div):
                if rb.is_zero():
                    return Unknown('division by zero')
                return self.lift(ra / rb)
            if isinstance(op, ast.Pow):
                return self._pow(ra, b)
            if isinstance(op, ast.FloorDiv):
                return self.floordiv(ra, rb, node)
            if isinstance(op, ast.Mod):
                return self.func_atom('mod', [Sym(ra), Sym(rb)])
        except NormError as e:
            return Unknown('norm: %s' % e)
        return Unknown('binop %s' % type(op).__name__)

    def floordiv(self, ra, rb, node):
        return self.func_atom('floordiv', [Sym(ra), Sym(rb)])

    def _pow(self, ra, b):
        if isinstance(b, Const) and isinstance(b.v, int) and not isinstance(b.v, bool):
            return self.lift(ra ** b.v)
        rb = self.rat(b)
        if rb is not None and rb.num.is_const() and rb.den.is_const():
            c = rb.num.const_value() / rb.den.const_value()
            if c.denominator == 1:
                return self.lift(ra ** int(c))
            if c.denominator == 2:
                s = _rat(self.R.sqrt(ra))
                return self.lift(s ** int(c.numerator))
        if rb is None:
            return Unknown('pow')
        # x**(symbolic): atom with the law x**a * x**b left unexpanded
        return Sym(self.R.func('pow', [ra, rb]))

    def unary(self, op, a, node):
        if isinstance(a, Sym):
            if isinstance(op, ast.USub):
                return Sym(-a.r)
            if isinstance(op, ast.UAdd):
                return a
        return None

    def compare(self, op, a, b, node):
        if isinstance(a, Sym) or isinstance(b, Sym):
            ra, rb = self.rat(a), self.rat(b)
            if ra is None or rb is None:
                return None
            if isinstance(op, ast.Eq) and ra == rb:
                return True
            if isinstance(op, ast.NotEq) and ra == rb:
                return False
            d = ra - rb
            if isinstance(op, (ast.Eq, ast.NotEq)) and d.num.is_const() and not d.num.is_zero() and not d.den.is_const():
                return isinstance(op, ast.NotEq)          # c / (anything) with c a non-zero number is not zero
            nz = getattr(self, 'nonzero', None)
            if nz and len(d.num.t) == 1:
                (m, c), = d.num.t.items()
                if m and all(a in nz for a, _ in m) and isinstance(op, (ast.Eq, ast.NotEq)):
                    return isinstance(op, ast.NotEq)
            if d.num.is_const() and d.den.is_const():
                c = d.num.const_value() / d.den.const_value()
                import operator
                return {ast.Eq: operator.eq, ast.NotEq: operator.ne, ast.Lt: operator.lt, ast.LtE: operator.le,
                        ast.Gt: operator.gt, ast.GtE: operator.ge}[type(op)](c, 0)
        return None

    def isinstance(self, v, names):
        if isinstance(v, Sym):
            strs = [n for n in names if isinstance(n, str)]
            if any(n in ('float', 'int', 'Number', 'Real', 'complex') for n in strs):
                return True
            if strs and all(n in ('Iterable', 'tuple', 'list', 'Sequence', 'str', 'dict') for n in strs) and getattr(self, 'scalar_mode', True):
                return False
            return None
        return None

    def call_ext(self, dotted, args, kwargs, node):
        R = self.R
        short = dotted
        if dotted.startswith('scipy.fft.') or dotted.startswith('numpy.fft.'):
            return None
        if dotted in ('numpy.pi', 'math.pi'):
            return None
        if dotted.startswith('numpy.') and not kwargs and getattr(self, 'interp', None) is not None:
            r_ = self.interp._generic_ext(dotted, args, kwargs, node) if dotted[6:] in self.interp._UFUNC_BINOP or dotted[6:] in ('square', 'negative', 'reciprocal') else None
            if r_ is not None:
                return r_           # np.multiply(a, b), np.square(a) ...: the operator they spell
        a0 = self.rat(args[0]) if args else None
        if dotted in ('numpy.sqrt', 'math.sqrt', 'numpy.emath.sqrt', 'numpy.lib.scimath.sqrt') and a0 is not None:
            return self.lift(_rat(R.sqrt(a0)))
        if dotted in TRIG and a0 is not None:
            return self.lift(_rat(R.trig(TRIG[dotted], a0)))
        if dotted in ('numpy.tan', 'math.tan') and a0 is not None:
            return self.lift(_rat(R.trig('sin', a0)) / _rat(R.trig('cos', a0)))
        if dotted in ('numpy.exp', 'math.exp', 'cmath.exp') and a0 is not None:
            return self.lift(_rat(R.exp(a0)))
        if dotted in ('numpy.conj', 'numpy.conjugate') and a0 is not None:
            try:
                return self.lift(a0.conj())
            except NormError:
                return Unknown('conj')
        if dotted in ELEMENTWISE_ID and args:
            return args[0]
        if dotted == 'numpy.where' and len(args) == 3:
            if isinstance(args[0], Const) and isinstance(args[0].v, bool):
                return args[1] if args[0].v else args[2]
            return Unknown('where with undecided condition')
        if dotted == 'builtins.len' and args and isinstance(args[0], Sym):
            return self.func_atom('len', [args[0]])
        if dotted in ('numpy.zeros_like',) and args and isinstance(args[0], Sym):
            return Const(0)
        if dotted in ('numpy.ones_like',) and args and isinstance(args[0], Sym):
            return Const(1)
        if dotted == 'builtins.hasattr' and len(args) == 2 and isinstance(args[0], Sym) and isinstance(args[1], Const) \
                and getattr(self, 'scalar_mode', True) and args[1].v in ('__len__', 'ndim', 'shape', '__iter__'):
            # the analysed context is the scalar (elementwise) one; batch plumbing is declined
            return Const(False)
        if dotted in ('builtins.float', 'builtins.int') and args and isinstance(args[0], Sym):
            if dotted == 'builtins.int':
                return self.to_int(args[0], node)
            return args[0]
        if dotted == 'builtins.abs' or dotted in ('numpy.abs', 'numpy.absolute'):
            if a0 is not None and isinstance(args[0], Sym):
                # |c * a| with a an atom known to be >= 0 (a declared lower bound / a positive atom) is |c| * a
                known = set(getattr(self, 'positive', ()) or ()) | {k_ for k_, lo_ in (getattr(self, 'lower', None) or {}).items() if lo_ >= 0}
                if known and a0.den.is_const() and len(a0.num.t) == 1:
                    (mono, coef), = a0.num.t.items()
                    if mono and all(at_ in known for at_, _ in mono):
                        sign_ = coef / a0.den.const_value()
                        return self.lift(a0 if sign_ > 0 else -a0)
                return self.func_atom('abs', [args[0]])
        if dotted in ('builtins.max', 'builtins.min'):
            vals = args
            if len(args) == 1 and isinstance(args[0], Tup):
                vals = args[0].items
            if len(vals) >= 2 and any(isinstance(v, Sym) for v in vals) and all(self.rat(v) is not None for v in vals):
                if all(v == vals[0] for v in vals[1:]):
                    return vals[0]
                return self.func_atom(dotted.split('.')[1], sorted(vals, key=lambda v: self.rat(v).key()))
        if dotted == 'numpy.outer' and len(args) == 2:
            ra, rb = self.rat(args[0]), self.rat(args[1])
            if ra is not None and rb is not None:
                return self.lift(ra * rb)
        if dotted in ('numpy.deg2rad', 'numpy.radians') and a0 is not None:
            return self.lift(a0 * Rat(R.atom('pi')) / 180)
        if dotted in ('numpy.square',) and a0 is not None:
            return self.lift(a0 * a0)
        if dotted in ('numpy.real',) and a0 is not None:
            return self._real(args[0])
        if dotted.startswith('numpy.') or dotted.startswith('math.') or dotted.startswith('scipy.'):
            if args and all(self.rat(a) is not None or self.key(a) is not None for a in args) and not kwargs:
                fa = self.func_atom(dotted.split('.', 1)[1] if dotted.startswith('numpy.') else dotted, args)
                if fa is not None:
                    return fa
        return None

    def to_int(self, v, node):
        return self.func_atom('int', [v])

    def _real(self, v):
        r = self.rat(v)
        atoms = r.atoms()
        if 'I' not in atoms and all(self.R.real.get(a, True) for a in atoms):
            return v
        return self.func_atom('real', [v])

    def getattr(self, v, name, node):
        if isinstance(v, ExtRef):
            return None
        if isinstance(v, Sym):
            if name == 'T':
                return v
            if name == 'real':
                return self._real(v)
            if name == 'imag':
                r = v.r
                atoms = r.atoms()
                if 'I' not in atoms and all(self.R.real.get(a, True) for a in atoms):
                    return Const(0)
                return self.func_atom('imag', [v])
            if name == 'shape':
                return Unknown('shape of symbolic')
            if name in ('dtype', 'ndim', 'size'):
                return self.func_atom(name, [v])
        return None

    def method(self, v, name, args, kwargs, node):
        if isinstance(v, Sym):
            if name in ('conj', 'conjugate'):
                try:
                    return self.lift(v.r.conj())
                except NormError:
                    return Unknown('conj')
            if name in ('astype', 'copy', 'squeeze', 'view', 'ravel', 'flatten', 'item', 'reshape'):
                return v
        return None

    def subscript(self, v, idx, node):
        if isinstance(v, Sym):
            items = idx.items if isinstance(idx, Tup) else [idx]
            if items and all((isinstance(x, Const) and (x.v is None or x.v is Ellipsis)) for x in items):
                return v            # x[..., None, None]: new axes only -- elementwise the same values
            k = self.key(idx)
            if k is not None:
                ri = self.rat(idx)
                if ri is not None:
                    return Sym(self.R.func('idx', [v.r, ri]))
                return Sym(self.R.func('idx', [v.r, Rat(self.R.atom('<%s>' % k))]))
        return None

    def ev_pi(self):
        return self.sym('pi')


class NormInterpMixin:
    """Mixin for Interp: numpy.pi / math.pi attribute reads become the atom 'pi'."""
    pass


def install_pi(interp):
    """numpy.pi is an attribute read (ExtRef), not a call: map it to the atom pi."""
    orig = interp.getattr
    dom = interp.dom

    def getattr_(o, name, node, frame):
        if isinstance(o, ExtRef) and name == 'pi' and o.dotted in ('numpy', 'math'):
            return dom.sym('pi')
        if isinstance(o, ExtRef) and name == 'newaxis' and o.dotted == 'numpy':
            return Const(None)
        return orig(o, name, node, frame)
    interp.getattr = getattr_
    return interp


# ---------------------------------------------------------------------------
# small dense arrays of symbolic scalars (2x2 Jones / characteristic matrices,
# 4x4 Mueller, 3-vectors): shapes are concrete, entries are Sym/Const
# ---------------------------------------------------------------------------
class Arr(Value):
    def __init__(self, shape, data):
        self.shape = tuple(shape)
        self.data = list(data)

    def __repr__(self):
        return 'Arr%s%r' % (self.shape, self.data)

    def __eq__(self, o):
        return isinstance(o, Arr) and self.shape == o.shape and self.data == o.data

    def __hash__(self):
        return hash((self.shape, tuple(self.data)))

    @property
    def ndim(self):
        return len(self.shape)

    def strides(self):
        s = []
        acc = 1
        for d in reversed(self.shape):
            s.append(acc)
            acc *= d
        return list(reversed(s))

    def offset(self, idx):
        return sum(i * s for i, s in zip(idx, self.strides()))

    def get(self, *idx):
        return self.data[self.offset(idx)]

    def indices(self):
        import itertools
        return itertools.product(*[range(d) for d in self.shape])


def _size(shape):
    n = 1
    for d in shape:
        n *= d
    return n


class ArrNormDomain(NormDomain):
    """NormDomain + small concrete-shaped arrays."""
    name = 'NORM+ARR'

    def _scalar(self, v):
        return isinstance(v, Sym) or (isinstance(v, Const) and isinstance(v.v, (int, float, complex)) and not isinstance(v.v, bool))

    def isinstance(self, v, names):
        if isinstance(v, Arr):
            strs = [n for n in names if isinstance(n, str)]
            if strs and all(n in ('float', 'int', 'Number', 'Real', 'complex', 'Complex', 'Integral', 'str', 'dict', 'bool') for n in strs):
                return False          # an array is not a number
            if any(n in ('ndarray', 'Iterable') for n in strs):
                return True
            return None
        return NormDomain.isinstance(self, v, names)

    def _shape_from(self, v):
        """Concrete trailing shape from a shape value (leading unknown batch dims dropped)."""
        if isinstance(v, Const) and isinstance(v.v, int):
            return (v.v,)
        if isinstance(v, Tup):
            dims = []
            for x in reversed(v.items):
                if isinstance(x, Const) and isinstance(x.v, int) and not isinstance(x.v, bool) and x.v <= 6:
                    dims.append(x.v)
                else:
                    break
            if dims:
                return tuple(reversed(dims))
        return None

    def _from_nested(self, v):
        if isinstance(v, Arr):
            return v
        if isinstance(v, Tup) and v.items:
            subs = [self._from_nested(x) if isinstance(x, (Tup, Arr)) else x for x in v.items]
            if all(isinstance(s, Arr) for s in subs) and all(s.shape == subs[0].shape for s in subs):
                data = []
                for s in subs:
                    data.extend(s.data)
                return Arr((len(subs),) + subs[0].shape, data)
            if all(self._scalar(s) for s in subs):
                return Arr((len(subs),), subs)
        return None

    def _emap(self, f, *arrs):
        shape = None
        for a in arrs:
            if isinstance(a, Arr):
                if shape is None or len(a.shape) > len(shape):
                    shape = a.shape
        out = []
        import itertools
        for idx in itertools.product(*[range(d) for d in shape]):
            vals = []
            for a in arrs:
                if isinstance(a, Arr):
                    # right-aligned broadcasting
                    k = len(shape) - len(a.shape)
                    sub = tuple(i if d != 1 else 0 for i, d in zip(idx[k:], a.shape))
                    if any(d not in (1, s) for d, s in zip(a.shape, shape[k:])):
                        return Unknown('shape mismatch')
                    vals.append(a.get(*sub))
                else:
                    vals.append(a)
            out.append(f(*vals))
        return Arr(shape, out)

    def matmul(self, a, b, node):
        if a.ndim == 2 and b.ndim == 2 and a.shape[1] == b.shape[0]:
            out = []
            for i in range(a.shape[0]):
                for j in range(b.shape[1]):
                    acc = Const(0)
                    for k in range(a.shape[1]):
                        acc = self.interp.binop(ast.Add(), acc, self.interp.binop(ast.Mult(), a.get(i, k), b.get(k, j), node), node)
                    out.append(acc)
            return Arr((a.shape[0], b.shape[1]), out)
        if a.ndim == 2 and b.ndim == 1 and a.shape[1] == b.shape[0]:
            r = self.matmul(a, Arr((b.shape[0], 1), b.data), node)
            return Arr((a.shape[0],), r.data)
        if a.ndim == 1 and b.ndim == 2 and a.shape[0] == b.shape[0]:
            r = self.matmul(Arr((1, a.shape[0]), a.data), b, node)
            return Arr((b.shape[1],), r.data)
        if a.ndim == 1 and b.ndim == 1 and a.shape == b.shape:
            acc = Const(0)
            for x, y in zip(a.data, b.data):
                acc = self.interp.binop(ast.Add(), acc, self.interp.binop(ast.Mult(), x, y, node), node)
            return acc
        if a.ndim >= 2 and b.ndim >= 2 and (a.ndim > 2 or b.ndim > 2) and a.shape[-1] == b.shape[-2]:
            # stacks of matrices: the product of the matrices in the last two axes, the leading axes broadcast (equal, or absent on one side)
            import itertools
            ba, bb = a.shape[:-2], b.shape[:-2]
            if ba and bb and ba != bb:
                return Unknown('matmul of stacks with different leading shapes %s %s' % (a.shape, b.shape))
            batch = ba or bb
            out = []
            for pre in itertools.product(*[range(d) for d in batch]):
                pa = pre if ba else ()
                pb = pre if bb else ()
                for i in range(a.shape[-2]):
                    for j in range(b.shape[-1]):
                        acc = Const(0)
                        for k in range(a.shape[-1]):
                            acc = self.interp.binop(ast.Add(), acc, self.interp.binop(ast.Mult(), a.get(*pa, i, k), b.get(*pb, k, j), node), node)
                        out.append(acc)
            return Arr(tuple(batch) + (a.shape[-2], b.shape[-1]), out)
        return Unknown('matmul shapes %s %s' % (a.shape, b.shape))

    def binop(self, op, a, b, node):
        if isinstance(a, Arr) or isinstance(b, Arr):
            if isinstance(op, ast.MatMult):
                if isinstance(a, Arr) and isinstance(b, Arr):
                    return self.matmul(a, b, node)
                return Unknown('matmul with non-array')
            if not all(isinstance(x, Arr) or self._scalar(x) for x in (a, b)):
                return Unknown('array arith with %r' % (b if isinstance(a, Arr) else a,))
            return self._emap(lambda x, y: self.interp.binop(op, x, y, node), a, b)
        return NormDomain.binop(self, op, a, b, node)

    def unary(self, op, a, node):
        if isinstance(a, Arr):
            return self._emap(lambda x: self.interp.ev_unary_value(op, x, node), a)
        return NormDomain.unary(self, op, a, node)

    def inv(self, a, node):
        n = a.shape[0]
        if a.ndim != 2 or a.shape[1] != n:
            return Unknown('inv of non-square')
        rows = [[self.rat(a.get(i, j)) for j in range(n)] + [Rat(self.R.const(1 if i == j else 0)) for j in range(n)] for i in range(n)]
        for c in range(n):
            p = None
            for r in range(c, n):
                if not rows[r][c].is_zero():
                    p = r
                    break
            if p is None:
                return Unknown('singular')
            rows[c], rows[p] = rows[p], rows[c]
            piv = rows[c][c]
            rows[c] = [x / piv for x in rows[c]]
            for r in range(n):
                if r != c and not rows[r][c].is_zero():
                    f = rows[r][c]
                    rows[r] = [x - f * y for x, y in zip(rows[r], rows[c])]
        return Arr((n, n), [self.lift(rows[i][n + j]) for i in range(n) for j in range(n)])

    def call_ext(self, dotted, args, kwargs, node):
        it = self.interp
        if dotted in ('numpy.zeros', 'numpy.ones', 'numpy.empty', 'numpy.full') and args:
            shp = self._shape_from(args[0])
            if shp is not None:
                fill = {'numpy.zeros': Const(0), 'numpy.ones': Const(1), 'numpy.empty': Unknown('uninitialised')}.get(dotted)
                if dotted == 'numpy.full':
                    fill = args[1]
                return Arr(shp, [fill] * _size(shp))
            return None
        if dotted == 'numpy.broadcast_arrays' and args and all(self.rat(a) is not None for a in args):
            return Tup(list(args), 'list')          # scalars broadcast against each other are themselves
        if dotted in ('numpy.asarray', 'numpy.array') and args:
            a = self._from_nested(args[0])
            if a is not None:
                return a
            return args[0]
        if dotted in ('numpy.eye', 'numpy.identity') and args and isinstance(args[0], Const):
            n = args[0].v
            return Arr((n, n), [Const(1 if i == j else 0) for i in range(n) for j in range(n)])
        if dotted == 'numpy.broadcast_to' and args:
            return args[0]
        if dotted in ('numpy.matmul', 'numpy.dot') and len(args) == 2:
            a, b = args
            if isinstance(a, Arr) and isinstance(b, Arr):
                return self.matmul(a, b, node)
            if isinstance(a, Arr) or isinstance(b, Arr):
                if dotted == 'numpy.dot':
                    return self.binop(ast.Mult(), a, b, node)
                return Unknown('matmul scalar')
            return it.binop(ast.Mult(), a, b, node)
        if dotted.startswith('operator.') and len(args) == 2 and dotted.split('.')[1] in ('mul', 'add', 'sub', 'truediv', 'floordiv', 'pow', 'matmul'):
            op = {'mul': ast.Mult, 'add': ast.Add, 'sub': ast.Sub, 'truediv': ast.Div, 'floordiv': ast.FloorDiv, 'pow': ast.Pow, 'matmul': ast.MatMult}[dotted.split('.')[1]]()
            return it.binop(op, args[0], args[1], node)
        if dotted == 'functools.reduce' and len(args) >= 2:
            items = it.iterate(args[1], node)
            if items is None:
                return Unknown('reduce over unknown')
            items = list(items)
            acc = args[2] if len(args) > 2 else items.pop(0)
            for x in items:
                acc = it.call_value(args[0], [acc, x], {}, node, None)
            return acc
        if dotted in ('numpy.conj', 'numpy.conjugate') and args and isinstance(args[0], Arr):
            return self._emap(lambda x: self.method(x, 'conj', [], {}, node) if isinstance(x, Sym) else (Const(x.v.conjugate()) if isinstance(x.v, complex) else x), args[0])
        if dotted == 'numpy.real' and args and isinstance(args[0], Arr):
            return self._emap(lambda x: self.real_part(x, node), args[0])
        if dotted == 'numpy.real' and args and self._scalar(args[0]):
            return self.real_part(args[0], node)
        if dotted == 'numpy.linalg.inv' and args and isinstance(args[0], Arr):
            return self.inv(args[0], node)
        if dotted == 'numpy.kron' and len(args) == 2 and all(isinstance(a, Arr) and a.ndim == 2 for a in args):
            a, b = args
            m, n = a.shape
            p, q = b.shape
            out = [None] * (m * p * n * q)
            res = Arr((m * p, n * q), out)
            for i in range(m):
                for j in range(n):
                    for k in range(p):
                        for l in range(q):
                            res.data[res.offset((i * p + k, j * q + l))] = it.binop(ast.Mult(), a.get(i, j), b.get(k, l), node)
            return res
        if dotted == 'numpy.einsum' and len(args) >= 2 and isinstance(args[0], Const) and all(isinstance(a, Arr) for a in args[1:]):
            return self.einsum(args[0].v, args[1:], node)
        if dotted in ('numpy.moveaxis', 'numpy.swapaxes', 'numpy.transpose') and args and isinstance(args[0], Arr):
            r_ = self._permuted(args[0], dotted.rsplit('.', 1)[-1], list(args[1:]), kwargs)
            return r_ if r_ is not None else Unknown('%s on concrete array with axes that are not followed' % dotted)
        if dotted == 'numpy.stack' and args and isinstance(args[0], Tup) and args[0].items and set(kwargs) <= {'axis'} and len(args) <= 2:
            zs = [z if isinstance(z, Arr) else (Arr((), [z]) if self.rat(z) is not None else None) for z in args[0].items]
            ax = kwargs.get('axis', args[1] if len(args) > 1 else Const(0))
            if all(z is not None for z in zs) and all(z.shape == zs[0].shape for z in zs) and isinstance(ax, Const) and isinstance(ax.v, int) \
                    and -(zs[0].ndim + 1) <= ax.v <= zs[0].ndim:
                first = Arr((len(zs),) + zs[0].shape, [d for z in zs for d in z.data])           # stacked along a new leading axis ...
                k = ax.v % (zs[0].ndim + 1)
                return first if k == 0 else self._permuted(first, 'moveaxis', [Const(0), Const(k)], {})     # ... moved where it was asked for
        if dotted == 'numpy.trace' and args and isinstance(args[0], Arr) and args[0].ndim >= 2 and set(kwargs) <= {'axis1', 'axis2', 'offset'} and len(args) == 1:
            a = args[0]
            a1, a2, off = kwargs.get('axis1', Const(0)), kwargs.get('axis2', Const(1)), kwargs.get('offset', Const(0))
            if all(isinstance(x, Const) and isinstance(x.v, int) for x in (a1, a2, off)) and off.v == 0 and a1.v % a.ndim != a2.v % a.ndim:
                import itertools
                i1, i2 = a1.v % a.ndim, a2.v % a.ndim
                rest = [k for k in range(a.ndim) if k not in (i1, i2)]
                out = []
                for pre in itertools.product(*[range(a.shape[k]) for k in rest]):
                    acc = Const(0)
                    for d_ in range(min(a.shape[i1], a.shape[i2])):
                        idx = [0] * a.ndim
                        for k, v_ in zip(rest, pre):
                            idx[k] = v_
                        idx[i1] = idx[i2] = d_
                        acc = it.binop(ast.Add(), acc, a.get(*idx), node)
                    out.append(acc)
                return out[0] if not rest else Arr(tuple(a.shape[k] for k in rest), out)
        if dotted in ('numpy.shape', 'numpy.ndim', 'numpy.size') and len(args) == 1 and not kwargs:
            if isinstance(args[0], Arr):
                return self.getattr(args[0], dotted.rsplit('.', 1)[-1], node)
            if self.rat(args[0]) is not None and isinstance(args[0], Const):
                return {'shape': Tup([]), 'ndim': Const(0), 'size': Const(1)}[dotted.rsplit('.', 1)[-1]]
        if dotted == 'numpy.outer' and len(args) == 2 and not kwargs and all(isinstance(a, Arr) for a in args):
            a, b = args          # numpy flattens both operands
            return Arr((len(a.data), len(b.data)), [it.binop(ast.Mult(), x, y, node) for x in a.data for y in b.data])
        if dotted == 'numpy.reshape' and len(args) == 2 and isinstance(args[0], Arr):
            return self.method(args[0], 'reshape', [args[1]], {}, node)
        if dotted in ('numpy.cross',) and len(args) == 2 and all(isinstance(a, Arr) and a.shape == (3,) for a in args):
            a, b = args
            def m(x, y):
                return it.binop(ast.Mult(), x, y, node)
            def s(x, y):
                return it.binop(ast.Sub(), x, y, node)
            return Arr((3,), [s(m(a.data[1], b.data[2]), m(a.data[2], b.data[1])),
                              s(m(a.data[2], b.data[0]), m(a.data[0], b.data[2])),
                              s(m(a.data[0], b.data[1]), m(a.data[1], b.data[0]))])
        if dotted in ('numpy.sum', 'builtins.sum') and args and isinstance(args[0], Arr) and not kwargs and len(args) == 1:
            acc = Const(0)
            for x in args[0].data:
                acc = it.binop(ast.Add(), acc, x, node)
            return acc
        if args and isinstance(args[0], Arr) and dotted == 'numpy.square' and len(args) == 1:
            return self._emap(lambda x: it.binop(ast.Mult(), x, x, node), args[0])
        if dotted == 'numpy.square' and len(args) == 1 and self.rat(args[0]) is not None:
            return it.binop(ast.Mult(), args[0], args[0], node)
        if args and isinstance(args[0], Arr) and dotted in ('numpy.sqrt', 'numpy.cos', 'numpy.sin', 'numpy.exp', 'numpy.abs'):
            return self._emap(lambda x: it.call_value(ExtRef(dotted), [x], {}, node, None), args[0])
        return NormDomain.call_ext(self, dotted, args, kwargs, node)

    def real_part(self, x, node):
        r = self.rat(x)
        if r is None:
            return Unknown('real of non-scalar')
        try:
            return self.lift((r + r.conj()) / 2)
        except NormError:
            return Unknown('real')

    def einsum(self, spec, ops, node):
        it = self.interp
        spec = spec.replace(' ', '').replace('...', '')
        if '->' in spec:
            ins, out = spec.split('->')
        else:
            ins = spec
            letters = sorted(set(c for c in ins if c.isalpha()))
            out = ''.join(c for c in letters if ins.count(c) == 1)
        ins = ins.split(',')
        if len(ins) != len(ops) or any(len(s) != o.ndim for s, o in zip(ins, ops)):
            return Unknown('einsum spec')
        dims = {}
        for s, o in zip(ins, ops):
            for c, d in zip(s, o.shape):
                dims[c] = d
        summed = [c for c in dims if c not in out]
        import itertools
        oshape = tuple(dims[c] for c in out)
        data = []
        for oidx in itertools.product(*[range(d) for d in oshape]):
            env = dict(zip(out, oidx))
            acc = Const(0)
            for sidx in itertools.product(*[range(dims[c]) for c in summed]):
                env.update(zip(summed, sidx))
                term = Const(1)
                for s, o in zip(ins, ops):
                    term = it.binop(ast.Mult(), term, o.get(*[env[c] for c in s]), node)
                acc = it.binop(ast.Add(), acc, term, node)
            data.append(acc)
        return Arr(oshape, data)

    def _permuted(self, v, how, args, kwargs):
        """moveaxis / swapaxes / transpose of a concrete array: the array with its axes in the new order (None: axes not constants)"""
        import itertools

        def ints(x):
            if isinstance(x, Const) and isinstance(x.v, int) and not isinstance(x.v, bool):
                return [x.v]
            if isinstance(x, Const) and isinstance(x.v, (tuple, list)) and all(isinstance(k, int) for k in x.v):
                return list(x.v)
            if isinstance(x, Tup) and all(isinstance(k, Const) and isinstance(k.v, int) for k in x.items):
                return [k.v for k in x.items]
            return None
        n = v.ndim
        if how == 'transpose':
            ax = kwargs.get('axes', args[0] if args else None)
            if len(args) > 1:
                ax = Tup(list(args))
            order = list(reversed(range(n))) if ax is None or (isinstance(ax, Const) and ax.v is None) else ints(ax)
        elif how == 'swapaxes':
            a, b = (ints(x) for x in (list(args) + [None, None])[:2]) if len(args) == 2 else (None, None)
            if not a or not b:
                return None
            order = list(range(n))
            order[a[0] % n], order[b[0] % n] = order[b[0] % n], order[a[0] % n]
        else:
            src = ints(kwargs.get('source', args[0] if args else None)) if (args or 'source' in kwargs) else None
            dst = ints(kwargs.get('destination', args[1] if len(args) > 1 else None)) if (len(args) > 1 or 'destination' in kwargs) else None
            if src is None or dst is None or len(src) != len(dst) or any(not -n <= k < n for k in src + dst):
                return None
            src, dst = [k % n for k in src], [k % n for k in dst]
            if len(set(src)) != len(src) or len(set(dst)) != len(dst):
                return None
            order = [k for k in range(n) if k not in src]
            for d_, s_ in sorted(zip(dst, src)):
                order.insert(d_, s_)
        if order is None or sorted(k % n for k in order) != list(range(n)):
            return None
        order = [k % n for k in order]
        shape = tuple(v.shape[k] for k in order)
        data = []
        for idx in itertools.product(*[range(d) for d in shape]):
            src_idx = [0] * n
            for pos, k in enumerate(order):
                src_idx[k] = idx[pos]
            data.append(v.get(*src_idx))
        return Arr(shape, data)

    def getattr(self, v, name, node):
        if isinstance(v, Arr):
            if name == 'T' and v.ndim > 2:
                return self._permuted(v, 'transpose', [], {})
            if name == 'shape':
                return Tup([Const(d) for d in v.shape])
            if name == 'ndim':
                return Const(v.ndim)
            if name == 'size':
                return Const(_size(v.shape))
            if name == 'T' and v.ndim == 2:
                return Arr((v.shape[1], v.shape[0]), [v.get(i, j) for j in range(v.shape[1]) for i in range(v.shape[0])])
            if name == 'T' and v.ndim == 1:
                return v
            if name == 'real':
                return self._emap(lambda x: self.real_part(x, node), v)
            if name == 'dtype':
                return Unknown('dtype')
            return None
        return NormDomain.getattr(self, v, name, node)

    def method(self, v, name, args, kwargs, node):
        if isinstance(v, Arr):
            if name in ('conj', 'conjugate'):
                return self.call_ext('numpy.conj', [v], {}, node)
            if name in ('astype', 'copy'):
                return Arr(v.shape, v.data)
            if name in ('ravel', 'flatten') and not kwargs and len(args) == 0:
                return Arr((_size(v.shape),), v.data)
            if name == 'reshape':
                shp = args[0] if len(args) == 1 else Tup(args)
                s = self._shape_from(shp)
                if s is not None and _size(s) == _size(v.shape):
                    return Arr(s, v.data)
                return Unknown('reshape')
            if name in ('transpose', 'swapaxes'):
                r_ = self._permuted(v, name, list(args), kwargs)
                return r_ if r_ is not None else Unknown('%s with axes that are not followed' % name)
            if name == 'dot' and args and isinstance(args[0], Arr):
                return self.matmul(v, args[0], node)
            if name in ('sum',) and not args and not kwargs:
                return self.call_ext('numpy.sum', [v], {}, node)
            if name == 'sum' and set(kwargs) <= {'axis'} and len(args) <= 1:
                ax = kwargs.get('axis', args[0] if args else None)
                axes = [a.v for a in ax.items] if isinstance(ax, Tup) and all(isinstance(a, Const) and isinstance(a.v, int) for a in ax.items) else \
                    ([ax.v] if isinstance(ax, Const) and isinstance(ax.v, int) and not isinstance(ax.v, bool) else None)
                if axes is not None and all(-v.ndim <= a < v.ndim for a in axes):
                    axes = sorted({a % v.ndim for a in axes})
                    keep = [k for k in range(v.ndim) if k not in axes]
                    import itertools
                    out_shape = tuple(v.shape[k] for k in keep)
                    out = []
                    for pre in itertools.product(*[range(v.shape[k]) for k in keep]):
                        acc = Const(0)
                        for red in itertools.product(*[range(v.shape[k]) for k in axes]):
                            idx = [0] * v.ndim
                            for k, i_ in zip(keep, pre):
                                idx[k] = i_
                            for k, i_ in zip(axes, red):
                                idx[k] = i_
                            acc = self.interp.binop(ast.Add(), acc, v.get(*idx), node)
                        out.append(acc)
                    return out[0] if not out_shape else Arr(out_shape, out)
            return Unknown('array method %s' % name)
        return NormDomain.method(self, v, name, args, kwargs, node)

    def _int_index(self, v, idx):
        items = idx.items if isinstance(idx, Tup) else [idx]
        items = [x for x in items if not (isinstance(x, Const) and x.v is Ellipsis)]
        out = []
        for x in items:
            if isinstance(x, Const) and isinstance(x.v, int) and not isinstance(x.v, bool):
                out.append(x.v)
            else:
                return None
        if len(out) > v.ndim:
            return None
        # with a leading Ellipsis the indices are right-aligned
        has_ell = isinstance(idx, Tup) and any(isinstance(x, Const) and x.v is Ellipsis for x in idx.items[:1])
        for i, o in enumerate(out):
            d = v.shape[v.ndim - len(out) + i] if has_ell else v.shape[i]
            if not -d <= o < d:
                return None
        out = [o % (v.shape[v.ndim - len(out) + i] if has_ell else v.shape[i]) for i, o in enumerate(out)]
        return out, has_ell

    def subscript(self, v, idx, node):
        if isinstance(v, Arr):
            r = self._int_index(v, idx)
            if r is None:
                return Unknown('array index')
            ii, right = r
            if len(ii) == v.ndim:
                return v.get(*ii)
            if right:
                lead = v.shape[:v.ndim - len(ii)]
                import itertools
                return Arr(lead, [v.get(*(tuple(pre) + tuple(ii))) for pre in itertools.product(*[range(d) for d in lead])])
            sub_shape = v.shape[len(ii):]
            off = v.offset(tuple(ii) + (0,) * len(sub_shape))
            return Arr(sub_shape, v.data[off:off + _size(sub_shape)])
        return NormDomain.subscript(self, v, idx, node)

    def store_subscript(self, target, idx, val, node):
        if isinstance(target, Arr):
            r = self._int_index(target, idx)
            if r is None:
                self.interp.emit('lost-store', node=node)
                for i in range(len(target.data)):
                    target.data[i] = Unknown('store with unknown index')
                return True
            ii, right = r
            if len(ii) == target.ndim:
                target.data[target.offset(ii)] = val
                self.interp.emit('store', arr=target, index=tuple(ii), node=node)
                return True
            if right:
                # e.g. v[..., 0] = x on a (2,) or (2,1) array: right aligned partial
                lead = target.shape[:target.ndim - len(ii)]
                import itertools
                for k, pre in enumerate(itertools.product(*[range(d) for d in lead])):
                    target.data[target.offset(tuple(pre) + tuple(ii))] = val.data[k] if (isinstance(val, Arr) and val.shape == lead) else val
                return True
            sub_shape = target.shape[len(ii):]
            off = target.offset(tuple(ii) + (0,) * len(sub_shape))
            if isinstance(val, Arr) and val.shape == sub_shape:
                target.data[off:off + _size(sub_shape)] = val.data
            else:
                for k in range(_size(sub_shape)):
                    target.data[off + k] = val
            return True
        return None

    def iterate(self, v, node):
        if isinstance(v, Arr) and v.ndim >= 1:
            return [self.subscript(v, Const(i), node) for i in range(v.shape[0])]
        return None

    def truth(self, v):
        if isinstance(v, Arr):
            return None
        return NormDomain.truth(self, v)
