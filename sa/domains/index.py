"""INDEX -- affine x parity domain for centre/offset expressions.

Lengths are n_k = 2*a_k + p_k with p_k in {0,1} fixed per run (the rule enumerates the 2^k parity
classes).  Within one class `//2`, ceil(./2), floor(./2) of integer-affine forms are exact affine
forms, so equality with the specification is decided for all n, not sampled.
"""
import ast
import itertools
from fractions import Fraction
import math

from ..core.interp import Value, Const, Tup, Unknown, Slice, ExtRef
from ..core.norm import Rat, Poly, NormError, _rat
from .normdom import ArrNormDomain, NormDomain, Sym, Arr


class Shaped(Value):
    """An ndarray known only by its symbolic shape (and a provenance label)."""

    def __init__(self, shape, label='', origin=None):
        self.shape = shape          # Tup of Sym/Const
        self.label = label
        self.origin = origin        # free-form (used by rules)

    def __repr__(self):
        return 'Shaped(%s,%r)' % (self.label, self.shape)


class DTypeOf(Value):
    """the element type of an array known only by its shape: whatever the caller passed"""
    def __init__(self, arr):
        self.arr = arr

    def __repr__(self):
        return 'dtype of %s' % (self.arr.label or 'an array')


class IndexDomain(ArrNormDomain):
    name = 'INDEX'

    def __init__(self, parities=None, **kw):
        ArrNormDomain.__init__(self, **kw)
        self.parities = dict(parities or {})      # length name -> 0/1
        self.int_atoms = set()
        self.fresh_lengths = None
        self._fresh = {}

    # -- lengths -----------------------------------------------------------
    def length(self, name):
        """Symbolic length `name` = 2*a_name + parity."""
        p = self.parities.get(name)
        a = 'a_' + name
        self.int_atoms.add(a)
        if p is None:
            self.int_atoms.add(name)
            return Sym(self.R.atom(name))
        return Sym(self.R.atom(a) * 2 + p)

    def integer(self, name):
        self.int_atoms.add(name)
        return Sym(self.R.atom(name))

    def array(self, label, *lens):
        a = Shaped(Tup([self.length(n) if isinstance(n, str) else n for n in lens]), label)
        a.is_input = True          # made by a rule as an argument of the routine under analysis (not the residue of some arithmetic)
        return a

    # -- integer-affine forms ---------------------------------------------
    def affine(self, r):
        """Rat -> (coeffs {atom: Fraction}, const Fraction) if integer-affine over int_atoms else None."""
        if not r.den.is_const():
            return None
        p = r.num * (Fraction(1) / r.den.const_value())
        coeffs = {}
        c0 = Fraction(0)
        for m, c in p.t.items():
            if m == ():
                c0 = c
            elif len(m) == 1 and m[0][1] == 1 and m[0][0] in self.int_atoms:
                coeffs[m[0][0]] = c
            else:
                return None
        return coeffs, c0

    def _round(self, r, fn):
        af = self.affine(r)
        if af is None:
            return None
        coeffs, c0 = af
        if any(c.denominator != 1 for c in coeffs.values()):
            return None
        out = self.R.const(fn(c0))
        for a, c in coeffs.items():
            out = out + self.R.atom(a) * c
        return self.lift(Rat(out))

    def floordiv(self, ra, rb, node):
        if rb.num.is_const() and rb.den.is_const() and not rb.is_zero():
            r = self._round(ra / rb, lambda c: Fraction(math.floor(c)))
            if r is not None:
                return r
        return NormDomain.floordiv(self, ra, rb, node)

    def to_int(self, v, node):
        r = self.rat(v)
        af = self.affine(r) if r is not None else None
        if af is not None and all(c.denominator == 1 for c in af[0].values()) and af[1].denominator == 1:
            return v
        return NormDomain.to_int(self, v, node)

    def call_ext(self, dotted, args, kwargs, node):
        if dotted == 'numpy.einsum' and len(args) in (2, 3) and not (set(kwargs) - {'dtype', 'optimize'}):
            # one operand contracted over some of its axes: einsum('abcd->ac', v) or einsum(v, [0, 1, 2, 3], [0, 2]).  Unlike ndarray.sum,
            # einsum accumulates in the operand's own element type unless dtype= says otherwise (no widening of narrow integers).
            v = ins = out = None
            if isinstance(args[0], Const) and isinstance(args[0].v, str) and len(args) == 2 and isinstance(args[1], Shaped) and '->' in args[0].v and ',' not in args[0].v and '.' not in args[0].v:
                v = args[1]
                ins, out = [list(s_) for s_ in args[0].v.replace(' ', '').split('->')]
            elif isinstance(args[0], Shaped) and len(args) == 3 and all(isinstance(a, Tup) and all(isinstance(c, Const) and isinstance(c.v, int) for c in a.items) for a in args[1:]):
                v = args[0]
                ins, out = [c.v for c in args[1].items], [c.v for c in args[2].items]
            if v is not None and len(ins) == len(v.shape.items) and len(set(ins)) == len(ins) and set(out) <= set(ins) and len(set(out)) == len(out):
                axes = [i for i, c in enumerate(ins) if c not in out]
                dt = kwargs.get('dtype')
                self.interp.emit('reduce', which='einsum', target=v, axes=axes, lengths=[v.shape.items[a] for a in axes], node=node, dtype=dt if dt is not None else DTypeOf(v))
                return Shaped(Tup([v.shape.items[ins.index(c)] for c in out]), v.label, origin=('reduce', 'einsum', v, axes))
        if dotted in ('numpy.moveaxis', 'numpy.swapaxes') and len(args) == 3 and isinstance(args[0], Shaped) and len(args[0].shape.items) == 2 \
                and all(isinstance(a, Const) and isinstance(a.v, int) for a in args[1:]):
            v = args[0]
            if args[1].v % 2 == args[2].v % 2:
                return v
            return Shaped(Tup(list(reversed(v.shape.items))), v.label, origin=('T', v))       # a transposed view of the same memory
        if dotted == 'numpy.transpose' and len(args) == 1 and isinstance(args[0], Shaped) and len(args[0].shape.items) == 2:
            v = args[0]
            return Shaped(Tup(list(reversed(v.shape.items))), v.label, origin=('T', v))
        if dotted in ('math.ceil', 'numpy.ceil', 'math.floor', 'numpy.floor') and args:
            r = self.rat(args[0])
            if r is not None:
                fn = (lambda c: Fraction(math.ceil(c))) if dotted.endswith('ceil') else (lambda c: Fraction(math.floor(c)))
                out = self._round(r, fn)
                if out is not None:
                    return out
                if getattr(self, 'fresh_lengths', None):
                    # an integer of unknown parity: a fresh length symbol whose parity the rule enumerates
                    k = self.func_atom(dotted.split('.')[1], [args[0]]).r.key()
                    if k not in self._fresh:
                        if not self.fresh_lengths:
                            return self.func_atom(dotted.split('.')[1], [args[0]])
                        self._fresh[k] = self.length(self.fresh_lengths.pop(0))
                    return self._fresh[k]
                return self.func_atom(dotted.split('.')[1], [args[0]])
        if dotted in ('builtins.round', 'numpy.round', 'numpy.around', 'numpy.rint') and len(args) == 1:
            # round-half-to-even: the identity on integers; on a half-integer it is neither floor nor ceil for every length,
            # so it stays an opaque integer atom (equal to nothing but itself)
            r = self.rat(args[0])
            if r is not None:
                af = self.affine(r)
                if af is not None and all(c.denominator == 1 for c in af[0].values()) and af[1].denominator == 1:
                    return args[0]
                return self.func_atom('round_half_even', [args[0]])
        if dotted in ('numpy.zeros', 'numpy.ones', 'numpy.empty', 'numpy.zeros_like', 'numpy.empty_like') and args:
            if isinstance(args[0], Shaped):
                return Shaped(args[0].shape, dotted)
            if isinstance(args[0], Tup) and all(self.rat(x) is not None for x in args[0].items) \
                    and not all(isinstance(x, Const) for x in args[0].items):
                return Shaped(Tup(list(args[0].items)), dotted)
        if dotted == 'numpy.arange' and args:
            self.interp.emit('arange', args=list(args), node=node)
            lo = args[0] if len(args) > 1 else Const(0)
            hi = args[1] if len(args) > 1 else args[0]
            n = self.interp.binop(ast.Sub(), hi, lo, node)
            return Ranged(lo, n)
        if dotted == 'numpy.linspace' and len(args) >= 2 and set(kwargs) <= {'num', 'endpoint', 'dtype'}:
            # first element, number of samples and step: stop - start over num - 1 intervals (num when the end point is left out)
            num = kwargs.get('num', args[2] if len(args) > 2 else Const(50))
            ep = kwargs.get('endpoint', args[3] if len(args) > 3 else Const(True))
            if isinstance(ep, Const) and isinstance(ep.v, bool) and self.rat(num) is not None and self.rat(args[0]) is not None and self.rat(args[1]) is not None:
                it = self.interp
                span = it.binop(ast.Sub(), args[1], args[0], node)
                den = num if not ep.v else it.binop(ast.Sub(), num, Const(1), node)
                return Ranged(args[0], num, it.binop(ast.Div(), span, den, node))
        if dotted.rsplit('.', 1)[-1] in ('fftshift', 'ifftshift', 'fft2', 'ifft2', 'fft', 'ifft', 'abs', 'absolute', 'real', 'angle', 'copy') \
                and args and isinstance(args[0], Shaped) and 's' not in kwargs and len(args) == 1:
            return Shaped(args[0].shape, args[0].label)
        if dotted == 'numpy.broadcast_to' and len(args) == 2 and isinstance(args[0], Shaped) and isinstance(args[1], Tup):
            self.interp.emit('broadcast', target=args[0], shape=args[1], node=node)
            return Shaped(Tup(list(args[1].items)), args[0].label, origin=('broadcast', args[0]))
        if dotted == 'builtins.hasattr' and len(args) == 2 and isinstance(args[0], (Shaped, Ranged)) and isinstance(args[1], Const):
            return Const(args[1].v in ('ndim', 'shape', 'dtype', 'size', '__len__', 'T', 'real', 'imag', 'astype', 'conj', '__iter__', 'copy'))
        if dotted == 'builtins.len' and args and isinstance(args[0], Shaped) and args[0].shape.items:
            return args[0].shape.items[0]
        if dotted == 'builtins.isinstance' and args and isinstance(args[0], Shaped):
            return None
        return ArrNormDomain.call_ext(self, dotted, args, kwargs, node)

    def isinstance(self, v, names):
        if isinstance(v, (Shaped, Ranged)):
            return any(n in ('ndarray', 'Iterable') for n in names if isinstance(n, str))
        return ArrNormDomain.isinstance(self, v, names)

    def getattr(self, v, name, node):
        if isinstance(v, Shaped):
            if name == 'shape':
                return v.shape
            if name == 'ndim':
                return Const(len(v.shape.items))
            if name == 'dtype':
                return DTypeOf(v)
            if name == 'size':
                acc = Const(1)
                for d in v.shape.items:
                    acc = self.interp.binop(ast.Mult(), acc, d, node)
                return acc
            if name in ('real', 'imag', 'T'):
                if name == 'T':
                    return Shaped(Tup(list(reversed(v.shape.items))), v.label + '.T', origin=('T', v) if len(v.shape.items) == 2 else None)
                return Shaped(v.shape, v.label)
            return None
        return ArrNormDomain.getattr(self, v, name, node)

    def method(self, v, name, args, kwargs, node):
        if isinstance(v, Shaped):
            if name in ('astype', 'copy', 'conj'):
                return Shaped(v.shape, v.label)
            if name == 'reshape':
                shp = args[0] if len(args) == 1 else Tup(args)
                if isinstance(shp, Tup):
                    self.interp.emit('reshape', target=v, shape=shp, node=node)
                    return Shaped(Tup(list(shp.items)), v.label, origin=('reshape', v))
                return Unknown('reshape')
            if name in ('mean', 'sum', 'max', 'min', 'std', 'median'):
                ax = kwargs.get('axis', args[0] if args else None)
                if ax is None:
                    return Unknown('scalar reduction')
                axes = [a.v for a in ax.items] if isinstance(ax, Tup) and all(isinstance(a, Const) for a in ax.items) else ([ax.v] if isinstance(ax, Const) else None)
                if axes is None:
                    return Unknown('reduction over unknown axes')
                nd = len(v.shape.items)
                axes = [a % nd for a in axes]
                self.interp.emit('reduce', which=name, target=v, axes=axes, lengths=[v.shape.items[a] for a in axes], node=node, dtype=kwargs.get('dtype'))
                return Shaped(Tup([d for i, d in enumerate(v.shape.items) if i not in axes]), v.label, origin=('reduce', name, v, axes))
            return Unknown('method %s on array' % name)
        return ArrNormDomain.method(self, v, name, args, kwargs, node)

    def subscript(self, v, idx, node):
        if isinstance(v, Shaped):
            self.interp.emit('subscript', target=v, index=idx, node=node)
            items = idx.items if isinstance(idx, Tup) else [idx]
            shape = []
            dims = list(v.shape.items)
            k = 0
            for s in items:
                if isinstance(s, Const) and s.v is None:
                    shape.append(Const(1))          # np.newaxis
                    continue
                if k >= len(dims):
                    break
                d = dims[k]
                k += 1
                if isinstance(s, Slice):
                    lo = s.lo if not (isinstance(s.lo, Const) and s.lo.v is None) else Const(0)
                    hi = s.hi if not (isinstance(s.hi, Const) and s.hi.v is None) else d
                    shape.append(self.interp.binop(ast.Sub(), hi, lo, node))
            shape.extend(dims[k:])
            return Shaped(Tup(shape), v.label + '[..]', origin=('slice', v, idx))
        return ArrNormDomain.subscript(self, v, idx, node)

    def store_subscript(self, target, idx, val, node):
        if isinstance(target, Shaped):
            self.interp.emit('store', target=target, index=idx, value=val, node=node)
            return True
        return ArrNormDomain.store_subscript(self, target, idx, val, node)

    def binop(self, op, a, b, node):
        if isinstance(a, (Shaped, Ranged)) or isinstance(b, (Shaped, Ranged)):
            if isinstance(a, Ranged) and self.rat(b) is not None and isinstance(op, (ast.Add, ast.Sub)):
                return Ranged(self.interp.binop(op, a.start, b, node), a.n, a.step)
            if isinstance(a, Ranged) and self.rat(b) is not None and isinstance(op, (ast.Mult, ast.Div)):
                return Ranged(self.interp.binop(op, a.start, b, node), a.n, self.interp.binop(op, a.step, b, node))
            if isinstance(b, Ranged) and self.rat(a) is not None and isinstance(op, ast.Mult):
                return Ranged(self.interp.binop(op, a, b.start, node), b.n, self.interp.binop(op, a, b.step, node))
            x = a if isinstance(a, Shaped) else (b if isinstance(b, Shaped) else None)
            if x is not None:
                return Shaped(x.shape, x.label)
            return Unknown('range arith')
        return ArrNormDomain.binop(self, op, a, b, node)

    def unary(self, op, a, node):
        if isinstance(a, Ranged) and isinstance(op, ast.USub):
            return Ranged(self.interp.ev_unary_value(op, a.start, node), a.n, self.interp.ev_unary_value(op, a.step, node))
        return ArrNormDomain.unary(self, op, a, node)

    def augassign(self, op, target, val, node):
        if isinstance(target, Shaped):
            self.interp.emit('inplace', target=target, value=val, node=node)
            return target
        return None

    def truth(self, v):
        return None


class Ranged(Value):
    """np.arange(start, start+n) (* step): a coordinate vector known by first element, length, step."""

    def __init__(self, start, n, step=None):
        self.start = start
        self.n = n
        self.step = step if step is not None else Const(1)

    def __repr__(self):
        return 'Ranged(%r,%r,%r)' % (self.start, self.n, self.step)

    def __eq__(self, o):
        return isinstance(o, Ranged) and (self.start, self.n, self.step) == (o.start, o.n, o.step)

    def __hash__(self):
        return hash(('Ranged', self.start, self.n, self.step))


def parity_classes(names):
    for bits in itertools.product((0, 1), repeat=len(names)):
        yield dict(zip(names, bits))


def ptxt(par):
    return ','.join('%s:%s' % (k, 'odd' if v else 'even') for k, v in sorted(par.items()))
