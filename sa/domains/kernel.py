"""KERNEL -- symbolic vectors / separable matrices for DFT and chirp-Z kernels.

A coordinate vector is an elementwise expression in an *index atom* (running 0..n-1), so
`np.exp(-2j*pi/N * Q * np.outer(Y, V))` becomes one canonical rational function whose mixed
coefficient, linear coefficients and remainder are compared with the textbook kernel per axis.
Piecewise stores into a zero vector (the chirp filter h) are kept as segments.
"""
import ast

from ..core.interp import Value, Const, Tup, Unknown, Slice, ExtRef
from ..core.norm import Rat, Poly, _rat
from .normdom import Sym, Arr, NormDomain, ArrNormDomain
from .index import IndexDomain, Shaped, Ranged


class Vec(Value):
    """1-D vector: element expression in index atom `idx` (0..n-1); `axis` = how it broadcasts
    against a rank-2 array (None: bare 1-D -> last axis; 0: column vector [:, newaxis])."""

    def __init__(self, elem, n, idx, axis=None):
        self.elem, self.n, self.idx, self.axis = elem, n, idx, axis

    def __repr__(self):
        return 'Vec(%r, n=%r, idx=%s, axis=%s)' % (self.elem, self.n, self.idx, self.axis)

    def __eq__(self, o):
        return isinstance(o, Vec) and (self.elem, self.n, self.idx, self.axis) == (o.elem, o.n, o.idx, o.axis)

    def __hash__(self):
        return hash(('Vec', self.elem, self.idx, self.axis))


class Mat(Value):
    """Rank-2 separable/outer matrix: elem in index atoms idx0 (rows) and idx1 (cols)."""

    def __init__(self, elem, idx0, idx1, n0, n1):
        self.elem, self.idx0, self.idx1, self.n0, self.n1 = elem, idx0, idx1, n0, n1

    def __repr__(self):
        return 'Mat(%r, rows=%s, cols=%s)' % (self.elem, self.idx0, self.idx1)

    def __eq__(self, o):
        return isinstance(o, Mat) and (self.elem, self.idx0, self.idx1) == (o.elem, o.idx0, o.idx1)

    def __hash__(self):
        return hash(('Mat', self.elem, self.idx0, self.idx1))


class PieceVec(Value):
    """Vector of length n built by stores into slices: segs = [(lo, hi, Vec|scalar)] in program order."""

    def __init__(self, n, segs=None, axis=None, fft=False):
        self.n = n
        self.segs = list(segs or [])
        self.axis = axis
        self.fft = fft          # True once passed through fft.fft (spectrum of the filter)

    def __repr__(self):
        return 'PieceVec(n=%r, %d segs, fft=%s, axis=%s)' % (self.n, len(self.segs), self.fft, self.axis)


class Prod2(Shaped):
    """The result of matrix products L @ A @ R: an array (so elementwise arithmetic applies) that
    remembers its factors."""

    def __init__(self, left, arr, right):
        self.left, self.arr, self.right = left, arr, right
        rows = left.n0 if left is not None else (arr.shape.items[0] if isinstance(arr, Shaped) and arr.shape.items else Unknown('rows'))
        cols = right.n1 if right is not None else (arr.shape.items[1] if isinstance(arr, Shaped) and len(arr.shape.items) > 1 else Unknown('cols'))
        Shaped.__init__(self, Tup([rows, cols]), 'matmul', origin=('matmul', left, arr, right))

    def __repr__(self):
        return 'Prod2(%r @ %r @ %r)' % (self.left, self.arr, self.right)


class KernelDomain(IndexDomain):
    name = 'KERNEL'

    def idx_atom(self, n):
        k = self.key(n)
        name = 'i[%s]' % k
        self.int_atoms.add(name)
        self.R.real[name] = True
        return name

    def mkvec(self, start, n, step=None):
        idx = self.idx_atom(n)
        e = Sym(self.R.atom(idx))
        if step is not None:
            e = self.interp.binop(ast.Mult(), e, step, None)
        e = self.interp.binop(ast.Add(), e, start, None)
        return Vec(e, n, idx)

    def call_ext(self, dotted, args, kwargs, node):
        it = self.interp
        last = dotted.rsplit('.', 1)[-1]
        if dotted == 'numpy.arange' and args:
            lo = args[0] if len(args) > 1 else Const(0)
            hi = args[1] if len(args) > 1 else args[0]
            n = it.binop(ast.Sub(), hi, lo, node)
            if self.rat(n) is None or self.rat(lo) is None:
                return Unknown('arange of non-scalars')
            return self.mkvec(lo, n)
        if dotted == 'numpy.matmul' and len(args) == 2 and not kwargs:
            return self._matmul(args[0], args[1], node)
        if dotted in ('numpy.multiply', 'numpy.add', 'numpy.subtract', 'numpy.divide', 'numpy.true_divide') and len(args) == 2 and set(kwargs) == {'out'} \
                and isinstance(kwargs['out'], (Vec, Mat)) and any(kwargs['out'] is a for a in args):
            # ufunc(x, v, out=x) is `x op= v`: the object bound to x takes the new elements (value semantics otherwise, as for augassign)
            op = {'multiply': ast.Mult, 'add': ast.Add, 'subtract': ast.Sub, 'divide': ast.Div, 'true_divide': ast.Div}[last]()
            res = it.binop(op, args[0], args[1], node)
            out = kwargs['out']
            if type(res) is not type(out):
                return Unknown('ufunc with out= changes the kind of value')
            out.__dict__.update(res.__dict__)
            return out
        if dotted in ('numpy.outer', 'numpy.multiply.outer') and len(args) == 2 and all(isinstance(a, Vec) for a in args):
            a, b = args
            return Mat(it.binop(ast.Mult(), a.elem, b.elem, node), a.idx, b.idx, a.n, b.n)
        if dotted == 'numpy.square' and len(args) == 1 and isinstance(args[0], (Vec, Mat, PieceVec)):
            return self._map(args[0], lambda e: it.binop(ast.Mult(), e, e, node))
        if dotted in ('numpy.multiply', 'numpy.add', 'numpy.subtract', 'numpy.divide', 'numpy.true_divide') and len(args) == 2 and not kwargs \
                and any(isinstance(a, (Vec, Mat, PieceVec)) for a in args):
            op = {'multiply': ast.Mult, 'add': ast.Add, 'subtract': ast.Sub, 'divide': ast.Div, 'true_divide': ast.Div}[last]()
            return it.binop(op, args[0], args[1], node)
        if dotted == 'numpy.exp' and args and isinstance(args[0], (Vec, Mat, PieceVec)):
            v = args[0]
            it.emit('exp', arg=v, node=node)
            return self._map(v, lambda e: it.call_value(ExtRef('numpy.exp'), [e], {}, node, None))
        if dotted in ('numpy.conj', 'numpy.conjugate') and args and isinstance(args[0], (Vec, Mat, PieceVec)):
            return self._map(args[0], lambda e: it.call_value(ExtRef('numpy.conj'), [e], {}, node, None))
        if dotted in ('numpy.conj', 'numpy.conjugate') and args and isinstance(args[0], Shaped):
            it.emit('conj', target=args[0], node=node)
            return Shaped(args[0].shape, args[0].label, origin=('conj', args[0]))
        if dotted == 'numpy.zeros' and args and self.rat(args[0]) is not None and not isinstance(args[0], Tup):
            return PieceVec(args[0])
        if last == 'next_fast_len' and args and self.rat(args[0]) is not None:
            v = self.func_atom('next_fast_len', [args[0]])
            for a in v.r.atoms():
                self.int_atoms.add(a)
            return v
        if last == 'fft' and dotted.startswith(('scipy.fft', 'numpy.fft')) and args and isinstance(args[0], PieceVec):
            p = args[0]
            return PieceVec(p.n, p.segs, p.axis, fft=True)
        if last in ('fft2', 'ifft2') and args and isinstance(args[0], Shaped):
            s = args[1] if len(args) > 1 else kwargs.get('s')
            it.emit('fft2', which=last, target=args[0], s=s, node=node, norm=kwargs.get('norm'))
            if s is not None and isinstance(s, Tup):
                return Shaped(Tup(list(s.items)), last, origin=(last, args[0]))
            return Shaped(args[0].shape, last, origin=(last, args[0]))
        if last in ('fftshift', 'ifftshift') and args and isinstance(args[0], Shaped):
            it.emit('shift', which=last, target=args[0], node=node)
            return Shaped(args[0].shape, last, origin=(last, args[0]))
        if dotted == 'numpy.iscomplexobj' and args:
            it.emit('iscomplexobj', arg=args[0], node=node)
            return Unknown('iscomplexobj')
        if dotted == 'numpy.sqrt' and args and isinstance(args[0], (Vec, Mat)):
            return self._map(args[0], lambda e: it.call_value(ExtRef('numpy.sqrt'), [e], {}, node, None))
        return IndexDomain.call_ext(self, dotted, args, kwargs, node)

    def _map(self, v, f):
        if isinstance(v, Vec):
            return Vec(f(v.elem), v.n, v.idx, v.axis)
        if isinstance(v, Mat):
            return Mat(f(v.elem), v.idx0, v.idx1, v.n0, v.n1)
        if isinstance(v, PieceVec):
            segs = []
            for lo, hi, x in v.segs:
                segs.append((lo, hi, self._map(x, f) if isinstance(x, Vec) else f(x)))
            p = PieceVec(v.n, segs, v.axis, v.fft)
            p.untouched = f(Const(0))
            return p
        return f(v)

    def _scalar_like(self, v):
        return self.rat(v) is not None

    def binop(self, op, a, b, node):
        it = self.interp
        vecs = (Vec, Mat, PieceVec)
        if isinstance(a, vecs) or isinstance(b, vecs):
            if isinstance(op, ast.MatMult):
                return self._matmul(a, b, node)
            if isinstance(a, vecs) and self._scalar_like(b):
                return self._map(a, lambda e: it.binop(op, e, b, node))
            if isinstance(b, vecs) and self._scalar_like(a):
                return self._map(b, lambda e: it.binop(op, a, e, node))
            if isinstance(a, Vec) and isinstance(b, Vec) and a.idx == b.idx and a.axis == b.axis:
                return Vec(it.binop(op, a.elem, b.elem, node), a.n, a.idx, a.axis)
            if isinstance(a, Vec) and isinstance(b, Vec) and {a.axis, b.axis} == {0, 1} and a.idx != b.idx:
                # column[:, newaxis] (op) row[newaxis, :]: broadcasting spells the outer combination np.outer spells for a product
                col, row = (a, b) if a.axis == 0 else (b, a)
                return Mat(it.binop(op, a.elem, b.elem, node), col.idx, row.idx, col.n, row.n)
            if isinstance(a, Mat) and isinstance(b, Mat) and (a.idx0, a.idx1) == (b.idx0, b.idx1):
                return Mat(it.binop(op, a.elem, b.elem, node), a.idx0, a.idx1, a.n0, a.n1)
            if isinstance(a, Shaped) and isinstance(b, Mat) and isinstance(op, ast.Mult) or isinstance(b, Shaped) and isinstance(a, Mat) and isinstance(op, ast.Mult):
                sarr = a if isinstance(a, Shaped) else b
                it.emit('ewise', op='Mult', a=a, b=b, node=node)
                return Shaped(sarr.shape, sarr.label, origin=('Mult', a, b))
            if isinstance(a, (Shaped,)) and isinstance(b, (Vec, PieceVec)) and isinstance(op, ast.Mult):
                it.emit('bmul', target=a, vec=b, node=node)
                return Shaped(a.shape, a.label, origin=('bmul', a, b))
            if isinstance(b, (Shaped,)) and isinstance(a, (Vec, PieceVec)) and isinstance(op, ast.Mult):
                it.emit('bmul', target=b, vec=a, node=node)
                return Shaped(b.shape, b.label, origin=('bmul', b, a))
            return Unknown('vector arith %s' % type(op).__name__)
        if isinstance(op, ast.MatMult):
            return self._matmul(a, b, node)
        if isinstance(a, Shaped) and isinstance(b, Shaped) and isinstance(op, (ast.Mult, ast.Add, ast.Sub)):
            self.interp.emit('ewise', op=type(op).__name__, a=a, b=b, node=node)
            return Shaped(a.shape, a.label, origin=(type(op).__name__, a, b))
        if isinstance(a, Shaped) and self._scalar_like(b) or isinstance(b, Shaped) and self._scalar_like(a):
            s, x = (a, b) if isinstance(a, Shaped) else (b, a)
            self.interp.emit('scale', op=type(op).__name__, target=s, scalar=x, left=isinstance(b, Shaped), node=node)
            return Shaped(s.shape, s.label, origin=('scale', type(op).__name__, s, x, isinstance(b, Shaped)))
        return IndexDomain.binop(self, op, a, b, node)

    def unary(self, op, a, node):
        if isinstance(a, (Vec, Mat, PieceVec)):
            return self._map(a, lambda e: self.interp.ev_unary_value(op, e, node))
        if isinstance(a, Shaped) and isinstance(op, ast.USub):
            self.interp.emit('scale', op='Mult', target=a, scalar=Const(-1), left=True, node=node)
            return Shaped(a.shape, a.label, origin=('scale', 'Mult', a, Const(-1), True))
        return IndexDomain.unary(self, op, a, node)

    def _matmul(self, a, b, node):
        self.interp.emit('matmul', left=a, right=b, node=node)
        # L @ A  or  A @ R  or (L @ A) @ R
        if isinstance(a, Prod2) and a.right is None and isinstance(b, Mat):
            return Prod2(a.left, a.arr, b)
        if isinstance(a, Mat) and isinstance(b, Prod2) and b.left is None:
            return Prod2(a, b.arr, b.right)
        if isinstance(a, Mat) and isinstance(b, Shaped):
            return Prod2(a, b, None)
        if isinstance(a, Shaped) and isinstance(b, Mat):
            return Prod2(None, a, b)
        return Unknown('matmul')

    def augassign(self, op, target, val, node):
        if isinstance(target, (Vec, Mat, PieceVec)):
            return None     # fall through to binop (value semantics; aliasing of caches is a CACHE rule)
        if isinstance(target, Shaped) and isinstance(val, (Vec, PieceVec)) and isinstance(op, ast.Mult):
            self.interp.emit('bmul', target=target, vec=val, node=node)
            return Shaped(target.shape, target.label, origin=('bmul', target, val))
        if isinstance(target, Shaped) and self._scalar_like(val):
            return None
        if isinstance(target, Shaped) and isinstance(val, Shaped):
            self.interp.emit('ewise', op=type(op).__name__, a=target, b=val, node=node)
            return Shaped(target.shape, target.label, origin=(type(op).__name__, target, val))
        return IndexDomain.augassign(self, op, target, val, node)

    def getattr(self, v, name, node):
        if isinstance(v, Mat):
            if name == 'T':
                return Mat(v.elem, v.idx1, v.idx0, v.n1, v.n0)
            if name == 'shape':
                return Tup([v.n0, v.n1])
            return None
        if isinstance(v, Vec):
            if name == 'shape':
                return Tup([v.n])
            if name == 'T':
                return v
            return None
        return IndexDomain.getattr(self, v, name, node)

    def method(self, v, name, args, kwargs, node):
        if isinstance(v, (Vec, Mat, PieceVec)):
            if name in ('conj', 'conjugate'):
                return self.call_ext('numpy.conj', [v], {}, node)
            if name in ('astype', 'copy'):
                return v
            return Unknown('method %s on vector' % name)
        if isinstance(v, Shaped) and name in ('conj', 'conjugate'):
            return self.call_ext('numpy.conj', [v], {}, node)
        return IndexDomain.method(self, v, name, args, kwargs, node)

    def subscript(self, v, idx, node):
        if isinstance(v, (Vec, PieceVec)):
            items = idx.items if isinstance(idx, Tup) else [idx]
            if len(items) == 2 and isinstance(items[0], Slice) and isinstance(items[1], Const) and items[1].v is None \
                    and all(isinstance(x, Const) and x.v is None for x in (items[0].lo, items[0].hi, items[0].step)):
                if isinstance(v, Vec):
                    return Vec(v.elem, v.n, v.idx, axis=0)
                return PieceVec(v.n, v.segs, axis=0, fft=v.fft)
            if len(items) == 2 and isinstance(items[1], Slice) and isinstance(items[0], Const) and items[0].v is None:
                if isinstance(v, Vec):
                    return Vec(v.elem, v.n, v.idx, axis=1)
                return PieceVec(v.n, v.segs, axis=1, fft=v.fft)
            return Unknown('vector subscript')
        return IndexDomain.subscript(self, v, idx, node)

    def store_subscript(self, target, idx, val, node):
        if isinstance(target, (Vec, Mat)):
            self.interp.emit('vecstore', target=target, index=idx, value=val, node=node, before=target.elem)
            target.overwritten = getattr(target, 'overwritten', []) + [(idx, val, node)]
            return True
        if isinstance(target, PieceVec):
            if isinstance(idx, Slice):
                lo = idx.lo if not (isinstance(idx.lo, Const) and idx.lo.v is None) else Const(0)
                hi = idx.hi if not (isinstance(idx.hi, Const) and idx.hi.v is None) else target.n
                target.segs.append((lo, hi, val))
                self.interp.emit('segstore', target=target, lo=lo, hi=hi, value=val, node=node)
                return True
            target.segs.append((Unknown('index'), Unknown('index'), val))
            return True
        return IndexDomain.store_subscript(self, target, idx, val, node)

    def isinstance(self, v, names):
        if isinstance(v, (Vec, Mat, PieceVec)):
            return any(n in ('ndarray', 'Iterable') for n in names if isinstance(n, str))
        return IndexDomain.isinstance(self, v, names)


def coeffs2(dom, elem, ia, ib):
    """Decompose elem (Poly in index atoms ia, ib) -> dict {(da, db): Rat}.  Requires a polynomial
    numerator and an index-free denominator."""
    r = dom.rat(elem)
    if r is None:
        return None
    if ia in r.den.atoms() or ib in r.den.atoms():
        return None
    out = {}
    for m, c in r.num.t.items():
        d = dict(m)
        key = (d.pop(ia, 0), d.pop(ib, 0) if ib != ia else 0)
        mono = Poly({tuple(sorted(d.items())): c}, dom.R)
        out[key] = out.get(key, Rat(dom.R.const(0))) + Rat(mono, r.den)
    return out


def exp_arg(dom, v):
    """The exponent of a value that is exactly one exp atom times an index-free factor.
    Returns (arg Rat, factor Rat) or None."""
    r = dom.rat(v)
    if r is None:
        return None
    R = dom.R
    exps = [a for a in r.num.atoms() if a in R.exparg]
    if len(exps) != 1 or any(a in R.exparg for a in r.den.atoms()):
        return None
    e = exps[0]
    if r.num.degree_in(e) != 1 or not r.num.coeff_of(e, 0).is_zero():
        return None
    fac = Rat(r.num.coeff_of(e, 1), r.den)
    return R.exparg[e], fac
