"""ORDER -- denotation of three-term-recurrence loops (inside NORM).

Outside loops every local is an explicit rational function of (x, parameters).  At a loop
`for i in range(lo, hi)` the names assigned in the body (the carried set) whose entry value equals the
reference closed form of order k are replaced by the opaque atom P[i + (k - lo)]; the body is
normalised once with the symbolic counter; a value that equals the reference recurrence instantiated
at its highest atom becomes the next atom.  The invariant is checked by comparing the post-state with
the head state at i+1; the exit state is the head state at i = hi.
"""
import ast
from fractions import Fraction

from ..core.db import walk_no_nested
from ..core.interp import Value, Const, Tup, Unknown, Slice, _Break, _Continue
from ..core.norm import Rat, Poly, _rat
from .normdom import NormDomain, Sym, Arr


class SeqV(Value):
    """The requested list of orders: unknown length, strictly ascending; element j is ns[first + j] + shift."""

    def __init__(self, name='ns', shift=0, first=0):
        self.name, self.shift, self.first = name, shift, first

    def __repr__(self):
        return 'SeqV(%s%+d)' % (self.name, self.shift)


class OutV(Value):
    """Output stack allocated as empty((len(ns), *x.shape))."""

    def __init__(self, label='out'):
        self.label = label
        self.stores = []

    def __repr__(self):
        return 'OutV(%d stores)' % len(self.stores)


class Family:
    """Reference definition of a polynomial family: base cases and three-term recurrence
    P[m+1] = c1(m) * P[m] - c2(m) * P[m-1]  (c1 may contain x)."""

    def __init__(self, name, params, p0, p1, c1, c2):
        self.name, self.params, self.p0, self.p1, self.c1, self.c2 = name, params, p0, p1, c1, c2


def _loads(node):
    return {n.id for n in ast.walk(node) if isinstance(n, ast.Name) and isinstance(n.ctx, ast.Load)}


def _stores(node):
    return {n.id for n in ast.walk(node) if isinstance(n, ast.Name) and isinstance(n.ctx, ast.Store)}


def live_in(stmts):
    """Names read in the loop body before they are definitely written (conservative for branches)."""
    written, live = set(), set()
    for st in stmts:
        if isinstance(st, ast.Assign):
            live |= _loads(st.value) - written
            for t in st.targets:
                if not isinstance(t, (ast.Name, ast.Tuple, ast.List)):
                    live |= _loads(t) - written
            written |= {n for t in st.targets if isinstance(t, (ast.Name, ast.Tuple, ast.List)) for n in _stores(t)}
        elif isinstance(st, ast.AugAssign):
            live |= (_loads(st.value) | _loads(st.target) | _stores(st.target)) - written
        else:
            live |= _loads(st) - written
            # AugAssign inside branches read their target
            for n in ast.walk(st):
                if isinstance(n, ast.AugAssign):
                    live |= _stores(n.target) - written
    return live


def _is_counter(body, nm):
    """Is `nm` only ever advanced by one in this loop body (`nm += 1` / `nm = nm + 1`)?  Such a name is a running output
    index, whatever it is called; its integer entry value is not a polynomial."""
    stores = []
    for st in body:
        for n in walk_no_nested(st):
            if isinstance(n, ast.AugAssign) and isinstance(n.target, ast.Name) and n.target.id == nm:
                stores.append(isinstance(n.op, ast.Add) and isinstance(n.value, ast.Constant) and n.value.value == 1)
            elif isinstance(n, ast.Assign):
                for t in n.targets:
                    for x in ast.walk(t):
                        if isinstance(x, ast.Name) and x.id == nm and isinstance(x.ctx, ast.Store):
                            v = n.value
                            stores.append(isinstance(t, ast.Name) and isinstance(v, ast.BinOp) and isinstance(v.op, ast.Add) and
                                          ((isinstance(v.left, ast.Name) and v.left.id == nm and isinstance(v.right, ast.Constant) and v.right.value == 1) or
                                           (isinstance(v.right, ast.Name) and v.right.id == nm and isinstance(v.left, ast.Constant) and v.left.value == 1)))
    return bool(stores) and all(stores)


def _is_slot_index(body, nm, resolve=None, depth=0):
    """Is `nm` used as a store/lookup subscript in this loop body, directly or inside a helper it is handed to (and whose result is
    bound back to it: `cursor = _store_if_next(out, orders, cursor, order, value)`)?  Then it is a running output index."""
    for st in body:
        for n in walk_no_nested(st):
            if isinstance(n, ast.Subscript) and isinstance(n.slice, ast.Name) and n.slice.id == nm:
                return True
            if isinstance(n, ast.Call) and resolve is not None and depth < 2:
                g = resolve(n)
                if g is None:
                    continue
                params = [a.arg for a in g.node.args.posonlyargs + g.node.args.args]
                for k, a in enumerate(n.args):
                    if isinstance(a, ast.Name) and a.id == nm and k < len(params) and _is_slot_index(g.node.body, params[k], resolve, depth + 1):
                        return True
                for kw in n.keywords:
                    if isinstance(kw.value, ast.Name) and kw.value.id == nm and kw.arg in params and _is_slot_index(g.node.body, kw.arg, resolve, depth + 1):
                        return True
    return False


class OrderDomain(NormDomain):
    name = 'ORDER'

    def __init__(self, families, fun_table):
        NormDomain.__init__(self)
        self.families = families          # name -> Family builder  f(dom, params dict) -> Family with Rat-valued callables
        self.fun_table = fun_table        # function qualname -> (family name, {param: env name})
        self.lower = {}                   # atom -> integer lower bound
        self.patoms = {}                  # atom name -> (family key, index Rat)
        self.log = []                     # obligations: dict(kind=..., ok=..., text=..., node=...)
        self.guards = {}                  # cond text -> (lhs value, rhs value)
        self.explicit_cache = {}
        self._canon_cache = {}
        self._match_cache = {}

    # -- atoms -------------------------------------------------------------
    def fkey(self, fam, pv):
        return '%s(%s)' % (fam, ','.join('%s=%s' % (k, pv[k].key()) for k in sorted(pv)))

    def P(self, fkey, idx):
        idx = _rat(idx)
        name = 'P<%s>[%s]' % (fkey, idx.key())
        self.patoms[name] = (fkey, idx)
        return Rat(self.R.atom(name))

    def family(self, fam, pv):
        return self.families[fam](self, pv)

    def explicit(self, fam, pv, k):
        """Reference closed form of order k (small non-negative int) as an explicit Rat."""
        key = (self.fkey(fam, pv), k)
        if key in self.explicit_cache:
            return self.explicit_cache[key]
        F = self.family(fam, pv)
        vals = [F.p0, F.p1]
        for m in range(1, k):
            vals.append(F.c1(Rat(self.R.const(m))) * vals[m] - F.c2(Rat(self.R.const(m))) * vals[m - 1])
        for i, v in enumerate(vals):
            self.explicit_cache[(self.fkey(fam, pv), i)] = v
        return vals[k]

    def canon(self, r, fam, pv):
        """If r equals the reference recurrence at its highest P-atom, return the next atom (memoised)."""
        ck = (self.fkey(fam, pv), r.key())
        if ck in self._canon_cache:
            return self._canon_cache[ck]
        out = self._canon(r, fam, pv)
        self._canon_cache[ck] = out
        return out

    def match_explicit(self, r, fam, pv):
        ck = (self.fkey(fam, pv), r.key())
        if ck not in self._match_cache:
            hit = None
            for k in range(0, 5):
                if r == self.explicit(fam, pv, k):
                    hit = k
                    break
            self._match_cache[ck] = hit
        return self._match_cache[ck]

    def _canon(self, r, fam, pv):
        fk = self.fkey(fam, pv)
        ats = [a for a in r.atoms() if a in self.patoms and self.patoms[a][0] == fk]
        if len(ats) == 1 and r == Rat(self.R.atom(ats[0])):
            return r
        F = self.family(fam, pv)
        for a in ats:
            idx = self.patoms[a][1]
            m = idx + 1
            prev2 = self.P(fk, idx - 1)
            ref = F.c1(idx) * self.P(fk, idx) - F.c2(idx) * prev2
            if r == ref:
                return self.P(fk, m)
            # m - 2 == 0: P[0] may appear explicitly
            if (idx - 1).is_zero():
                ref0 = F.c1(idx) * self.P(fk, idx) - F.c2(idx) * F.p0
                if r == ref0:
                    return self.P(fk, m)
        return None

    # -- per-path state ----------------------------------------------------
    def snapshot_state(self):
        return dict(self.lower)

    def restore_state(self, snap):
        self.lower = dict(snap)

    # -- comparisons with lower bounds -------------------------------------
    def compare(self, op, a, b, node):
        ra, rb = self.rat(a), self.rat(b)
        if ra is not None and rb is not None and (isinstance(a, Sym) or isinstance(b, Sym)):
            d = ra - rb
            if d.den.is_const() and d.den.const_value() > 0:
                pnum = d.num * (Fraction(1) / d.den.const_value())
                lo = self._min(pnum)
                if lo is not None and lo > 0:
                    return {ast.Eq: False, ast.NotEq: True, ast.Lt: False, ast.LtE: False, ast.Gt: True, ast.GtE: True}.get(type(op))
                if lo is not None and lo == 0 and isinstance(op, (ast.GtE, ast.Lt)):
                    return isinstance(op, ast.GtE)
                hi = self._min(-pnum)
                if hi is not None and hi > 0:        # d <= -hi < 0
                    return {ast.Eq: False, ast.NotEq: True, ast.Lt: True, ast.LtE: True, ast.Gt: False, ast.GtE: False}.get(type(op))
                if hi is not None and hi == 0 and isinstance(op, (ast.LtE, ast.Gt)):
                    return isinstance(op, ast.LtE)
        r = NormDomain.compare(self, op, a, b, node)
        if r is None and node is not None and isinstance(op, (ast.Eq, ast.NotEq)):
            try:
                self.guards[ast.unparse(node)] = (a, b)
            except Exception:
                pass
        return r

    def _min(self, p):
        """Lower bound of an affine poly over atoms with known lower bounds (positive coefficients)."""
        total = Fraction(0)
        for m, c in p.t.items():
            if m == ():
                total += c
            elif len(m) == 1 and m[0][1] == 1 and m[0][0] in self.lower and c > 0:
                total += c * self.lower[m[0][0]]
            else:
                return None
        return total

    def on_branch(self, test, truth, frame):
        """Refine integer lower bounds from failed equality tests: n >= k and n != k  =>  n >= k+1."""
        if isinstance(test, ast.Compare) and len(test.ops) == 1 and isinstance(test.ops[0], (ast.Eq, ast.NotEq)):
            is_eq = isinstance(test.ops[0], ast.Eq)
            if (is_eq and not truth) or (not is_eq and truth):
                try:
                    a = self.interp.ev(test.left, frame)
                    b = self.interp.ev(test.comparators[0], frame)
                except Exception:
                    return
                ra, rb = self.rat(a), self.rat(b)
                if ra is None or rb is None or not (rb.num.is_const() and rb.den.is_const()) or not ra.den.is_const():
                    return
                c = rb.num.const_value() / rb.den.const_value()
                p = ra.num * (Fraction(1) / ra.den.const_value())
                c0 = p.t.get((), Fraction(0))
                rest = {m: k for m, k in p.t.items() if m != ()}
                if len(rest) == 1:
                    (m, k), = rest.items()
                    if len(m) == 1 and m[0][1] == 1 and k == 1 and m[0][0] in self.lower and self.lower[m[0][0]] + c0 == c:
                        self.lower[m[0][0]] = self.lower[m[0][0]] + 1
        # and from order tests taken on an integer atom: (n + c0 > c) true => n >= floor(c - c0) + 1, etc.
        if isinstance(test, ast.Compare) and len(test.ops) == 1 and isinstance(test.ops[0], (ast.Gt, ast.GtE, ast.Lt, ast.LtE)):
            import math
            try:
                a = self.interp.ev(test.left, frame)
                b = self.interp.ev(test.comparators[0], frame)
            except Exception:
                return
            ra, rb = self.rat(a), self.rat(b)
            if ra is None or rb is None:
                return
            d = ra - rb                      # the test is  d OP 0
            if not d.den.is_const():
                return
            p = d.num * (Fraction(1) / d.den.const_value())
            c0 = p.t.get((), Fraction(0))
            rest = {m: k for m, k in p.t.items() if m != ()}
            if len(rest) != 1:
                return
            (m, k), = rest.items()
            if not (len(m) == 1 and m[0][1] == 1 and k in (1, -1) and m[0][0] in self.lower):
                return
            op = type(test.ops[0])
            if k == -1:                      # -n + c0 OP 0  <=>  n - c0 OP' 0 with the comparison mirrored
                op = {ast.Gt: ast.Lt, ast.GtE: ast.LtE, ast.Lt: ast.Gt, ast.LtE: ast.GtE}[op]
                c0 = -c0
            # now: n + c0 OP 0, i.e. n OP -c0
            bound = None
            if op is ast.Gt and truth:
                bound = math.floor(-c0) + 1
            elif op is ast.GtE and truth:
                bound = math.ceil(-c0)
            elif op is ast.Lt and not truth:
                bound = math.ceil(-c0)
            elif op is ast.LtE and not truth:
                bound = math.floor(-c0) + 1
            if bound is not None and bound > self.lower[m[0][0]]:
                self.lower[m[0][0]] = bound

    def seq_min(self, sv):
        """Lower bound of the elements of a (sliced, shifted) strictly ascending order list."""
        base = self.lower.get('%s[0]' % sv.name, 0)
        own = self.lower.get('%s[%d]' % (sv.name, sv.first), 0)
        return max(own, base + sv.first) + sv.shift

    # -- values ------------------------------------------------------------
    def isinstance(self, v, names):
        if isinstance(v, (SeqV, OutV)):
            return any(n in ('Iterable', 'list', 'ndarray') for n in names if isinstance(n, str))
        return NormDomain.isinstance(self, v, names)

    def call_ext(self, dotted, args, kwargs, node):
        last = dotted.rsplit('.', 1)[-1]
        a0 = args[0] if args else None
        if dotted in ('builtins.list', 'builtins.tuple', 'numpy.asarray', 'numpy.array') and isinstance(a0, SeqV):
            return a0
        if dotted == 'builtins.len' and isinstance(a0, SeqV):
            v = self.sym('len(%s)' % a0.name)
            self.lower.setdefault('len(%s)' % a0.name, 1)
            return v
        if last in ('ones_like', 'ones') and (isinstance(a0, (Sym, Const, Tup)) or a0 is None):
            return Const(1)
        if last in ('zeros_like', 'zeros') and isinstance(a0, (Sym, Const)):
            return Const(0)
        if last in ('empty', 'empty_like') and args:
            return OutV()
        if last == 'squeeze' and args:
            return a0
        return NormDomain.call_ext(self, dotted, args, kwargs, node)

    def getattr(self, v, name, node):
        if isinstance(v, Sym) and name in ('shape', 'dtype'):
            return Unknown(name)
        return NormDomain.getattr(self, v, name, node)

    def subscript(self, v, idx, node):
        if isinstance(v, SeqV) and isinstance(idx, Slice):
            if isinstance(idx.lo, Const) and isinstance(idx.lo.v, int) and idx.lo.v >= 0 and isinstance(idx.hi, Const) and idx.hi.v is None:
                return SeqV(v.name, v.shift, v.first + idx.lo.v)
            return Unknown('seq slice')
        if isinstance(v, SeqV):
            ri = self.rat(idx)
            if ri is not None and v.first:
                ri = ri + v.first
            if ri is None:
                return Unknown('seq index')
            nm = '%s[%s]' % (v.name, ri.key())
            at = self.sym(nm)
            self.lower.setdefault(nm, 0)
            if v.shift:
                return self.lift(at.r + v.shift)
            return at
        if isinstance(v, OutV):
            return Unknown('read of output')
        return NormDomain.subscript(self, v, idx, node)

    def store_subscript(self, target, idx, val, node):
        if isinstance(target, OutV):
            conds = list(self.interp.conds)
            target.stores.append({'idx': idx, 'value': val, 'node': node, 'conds': conds, 'guard': self._guard(conds), 'fn': self.interp.callstack[-1] if self.interp.callstack else None,
                                  'loop': getattr(self, '_in_loop', None)})
            self.interp.emit('emit', out=target, store=target.stores[-1])
            return True
        return NormDomain.store_subscript(self, target, idx, val, node)

    def _guard(self, conds):
        for text, truth in reversed(conds):
            if ('==' in text or '!=' in text) and 'len(' not in text and '[' in text:
                holds = truth if '==' in text else (not truth)          # `a != b` not taken is the guard a == b
                if holds and text in self.guards:
                    return (text,) + self.guards[text]
                return None
        return None

    def iterate(self, v, node):
        return NormDomain.iterate(self, v, node)

    def comprehension(self, node, frame):
        # [n - k for n in ns]  ->  shifted sequence
        if len(node.generators) == 1 and not node.generators[0].ifs:
            g = node.generators[0]
            src = self.interp.ev(g.iter, frame)
            if isinstance(src, SeqV) and isinstance(g.target, ast.Name):
                from ..core.interp import Frame
                fr = Frame(frame.fi, frame.module, {g.target.id: self.sym('__elem__')}, parent=frame)
                e = self.rat(self.interp.ev(node.elt, fr))
                if e is not None:
                    d = e - Rat(self.R.atom('__elem__'))
                    if d.num.is_const() and d.den.is_const():
                        c = d.num.const_value() / d.den.const_value()
                        if c.denominator == 1:
                            return SeqV(src.name, src.shift + int(c), src.first)
        return None

    # -- the loop hook -----------------------------------------------------
    def loop(self, node, frame):
        if not isinstance(node, ast.For) or not (isinstance(node.iter, ast.Call) and ast.unparse(node.iter.func) == 'range'):
            return False
        fi = frame.fi
        qual = fi.qual if fi is not None else None
        if qual not in self.fun_table:
            # the sweep may live in a private helper of the public routine (a shared `_xxx_seq` body): the family is that of
            # the nearest caller that has one
            qual = next((f_.qual for f_ in reversed(self.interp.callstack) if getattr(f_, 'qual', None) in self.fun_table), None)
            if qual is None:
                return False
        fam, parmap = self.fun_table[qual]
        it = self.interp
        rargs = [it.ev(a, frame) for a in node.iter.args]
        if len(rargs) != 2:
            return False
        lo, hi = rargs
        rlo, rhi = self.rat(lo), self.rat(hi)
        if rlo is None or rhi is None or not (rlo.num.is_const() and rlo.den.is_const()):
            return False
        lo_i = int(rlo.num.const_value() / rlo.den.const_value())
        pv = {}
        for p, envname in parmap.items():
            # a family parameter is a function parameter, possibly shifted ((name, +1) for the derivative sequences)
            off_ = 0
            if isinstance(envname, tuple):
                envname, off_ = envname
            v = self.rat(it.lookup(envname, frame, node))
            if v is None:
                return False
            pv[p] = v + off_
        fk = self.fkey(fam, pv)
        carried = set()
        for st in node.body:
            for n in walk_no_nested(st):
                if isinstance(n, ast.Name) and isinstance(n.ctx, ast.Store):
                    carried.add(n.id)
        lv = node.target.id if isinstance(node.target, ast.Name) else None
        if lv is None:
            return False
        live = live_in(node.body)
        iatom = 'i@%s:%d' % (qual.split('.')[-1], node.lineno)
        self.lower[iatom] = lo_i
        self.R.real[iatom] = True
        ivar = Rat(self.R.atom(iatom))
        head = {}
        entry_vals = {}
        int_heads = {}
        followed, lost = [], []
        for nm in sorted(carried):
            if nm == lv or nm not in frame.env:
                continue
            v = frame.env[nm]
            r = self.rat(v)
            mapped = False
            if nm not in live:
                # assigned before it is read in the body: its entry value is dead
                frame.env[nm] = Unknown('dead at loop head: %s' % nm)
                continue
            def _resolve(call, fi=fi):
                if isinstance(call.func, ast.Name):
                    g = self.interp.db.resolve_name(fi.module, call.func.id)
                    return g if hasattr(g, 'node') and isinstance(getattr(g, 'node', None), ast.FunctionDef) else None
                return None
            if r is not None and not (isinstance(v, Const) and isinstance(v.v, int) and (_is_counter(node.body, nm) or _is_slot_index(node.body, nm, _resolve))):
                followed.append(nm)
                k = self.match_explicit(r, fam, pv)
                if k is not None:
                    head[nm] = k - lo_i
                    entry_vals[nm] = k
                    mapped = True
            if mapped:
                continue
            if isinstance(v, Const) and isinstance(v.v, int):
                an = 'idx%d@head' % v.v          # running indices that enter with the same value stay aliased
                self.lower[an] = 0
                frame.env[nm] = self.sym(an)
                int_heads[nm] = an
            else:
                if r is None:
                    lost.append(nm)
                frame.env[nm] = Unknown('loop-carried %s' % nm)
        if not head and (lost or not followed):
            # nothing to judge: the sweep keeps its polynomials somewhere this rule does not read (attributes of an object, a helper's
            # state), or the values that enter the loop were not followed.  That is a refusal, not a report about the base cases.
            self.log.append({'kind': 'refuse', 'ok': None, 'fn': qual, 'node': node,
                             'text': '%s: the recurrence loop at line %d carries no followed polynomial in its local names (%s): the sweep is not in the form the ORDER rule reads'
                                     % (qual, getattr(node, 'lineno', 0), ('not followed: %s' % ', '.join(sorted(lost))) if lost else 'no local is carried')})
            return False
        if not head:
            self.log.append({'kind': 'loop', 'ok': False, 'fn': qual, 'node': node,
                             'text': 'no loop-carried name holds a reference polynomial of order 0..4 at loop entry (entry values do not match the %s base cases)' % fam})
            return False
        for nm, off in head.items():
            frame.env[nm] = Sym(self.P(fk, ivar + off))
        frame.env[lv] = Sym(ivar)
        self.log.append({'kind': 'entry', 'ok': True, 'fn': qual, 'node': node,
                         'text': 'loop entry (i=%d): %s' % (lo_i, ', '.join('%s = %s[%d]' % (nm, fam, entry_vals[nm]) for nm in sorted(head)))})
        prev_loop = getattr(self, '_in_loop', None)
        self._in_loop = (qual, fam, pv, iatom)
        nstores0 = len([e for e in it.events if e['kind'] == 'emit'])
        broke = False
        try:
            it.exec_block(node.body, frame)
        except _Continue:
            pass            # the rest of the body is skipped: the state at the `continue` is the state at the end of the pass
        except _Break:
            broke = True    # this pass leaves the loop: nothing is owed to a next pass
        finally:
            self._in_loop = prev_loop
        if broke:
            self.log.append({'kind': 'loop', 'ok': True, 'fn': qual, 'node': node, 'text': 'a pass that leaves the loop by break (state as at the break)'})
            return True
        nst = len([e for e in it.events if e['kind'] == 'emit']) - nstores0
        for nm, an in sorted(int_heads.items()):
            v = frame.env.get(nm)
            r = self.rat(v) if v is not None else None
            ok = r is not None and r == Rat(self.R.atom(an)) + nst
            self.log.append({'kind': 'advance', 'ok': ok, 'fn': qual, 'node': node, 'name': nm,
                             'text': ('running index %s advances by the number of stores (%d) in one iteration' % (nm, nst)) if ok else
                             ('running index %s goes from %s to %s in an iteration that stores %d mode(s): stores and index are out of step' % (nm, an, r.key() if r is not None else repr(v), nst))})
        self.log.append({'kind': 'bound', 'ok': True, 'fn': qual, 'node': node, 'text': 'loop range(%d, %s)' % (lo_i, rhi.key()), 'hi': rhi, 'lo': lo_i})
        # invariant: post-state == head state at i+1
        for nm, off in sorted(head.items()):
            v = frame.env.get(nm)
            r = self.rat(v) if v is not None else None
            want = self.P(fk, ivar + off + 1)
            got = self.canon(r, fam, pv) if r is not None else None
            ok = got is not None and got == want
            self.log.append({'kind': 'invariant', 'ok': ok, 'fn': qual, 'node': node, 'name': nm,
                             'text': ('after one iteration %s = %s[i%+d]' % (nm, fam, off + 1)) if ok else
                             ('loop invariant broken for %s: after the iteration with counter i it holds %s, which is not %s[i%+d] = c1(i%+d) %s[i%+d] - c2(i%+d) %s[i%+d] by the reference recurrence'
                              % (nm, r.key() if r is not None else repr(v), fam, off + 1, off, fam, off, off, fam, off - 1))})
        # exit state = state after the last iteration (counter = hi - 1); for head names this is the head state at i = hi
        for nm, off in head.items():
            frame.env[nm] = Sym(self.P(fk, rhi + off))
        for nm in carried:
            if nm not in head and nm != lv:
                v = frame.env.get(nm)
                r = self.rat(v) if v is not None else None
                if isinstance(v, Sym) and any(a.endswith('@head') for a in v.r.atoms()):
                    frame.env[nm] = self.sym('idx@exit')
                elif r is not None and iatom in self._index_atoms(r):
                    got = self.canon(r, fam, pv)
                    if got is not None:
                        frame.env[nm] = Sym(self.subst_index(got, iatom, rhi - 1))
                    else:
                        frame.env[nm] = Sym(self.subst_index(r, iatom, rhi - 1))
        frame.env[lv] = self.lift(rhi - 1)
        return True

    def _index_atoms(self, r):
        out = set(r.atoms())
        for a in list(out):
            if a in self.patoms:
                out |= self.patoms[a][1].atoms()
        return out

    def subst_index(self, r, atom, value):
        """Substitute the loop counter in a value, including inside the indices of P-atoms."""
        mapping = {atom: value}
        for a in r.atoms():
            if a in self.patoms:
                fk, idx = self.patoms[a]
                mapping[a] = self.P(fk, idx.subs({atom: value}))
        return r.subs(mapping)
