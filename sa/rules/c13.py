"""C13 -- PSD is power-normalised and band-limited RMS adds up."""
import ast
import importlib

from ..core.db import AnalysisError, norm_stmt, walk_no_nested
from ..core.interp import Interp, Const, Tup, Unknown, Obj, ExtRef
from ..core.norm import Rat
from ..domains.origin import OriginDomain, Og, Real, half as ohalf
from ..domains.normdom import NormDomain, Sym, install_pi
from .common import norm_interp, returns, as_rat

M = 'prysm.interferogram.'
NEW_IN_NUMPY2 = {'trapezoid', 'concat', 'permute_dims', 'matrix_transpose', 'vecdot', 'isdtype', 'unique_all', 'unique_counts', 'unique_inverse',
                 'unique_values', 'cumulative_sum', 'cumulative_prod', 'bitwise_count', 'acos', 'acosh', 'asin', 'asinh', 'atan', 'atan2', 'atanh',
                 'bitwise_invert', 'bitwise_left_shift', 'bitwise_right_shift', 'pow', 'long', 'ulong', 'unstack', 'matvec', 'vecmat'}


def _guarded(parents, node):
    """Is this attribute access under try/except AttributeError (or inside a hasattr/getattr test)?"""
    p = parents.get(node)
    while p is not None:
        if isinstance(p, ast.Try):
            for h in p.handlers:
                names = []
                if h.type is None:
                    return True
                for x in (h.type.elts if isinstance(h.type, ast.Tuple) else [h.type]):
                    names.append(ast.unparse(x))
                if any(n in ('AttributeError', 'Exception', 'BaseException') for n in names):
                    return True
        if isinstance(p, ast.ExceptHandler):
            nm = ast.unparse(p.type) if p.type is not None else ''
            if p.type is None or 'AttributeError' in nm or 'Exception' in nm:
                return True
        if isinstance(p, (ast.If, ast.IfExp)):
            t = ast.unparse(p.test)
            if 'hasattr(' in t or 'getattr(' in t:
                return True
            # a test on a local that holds the outcome of a probe: `f = getattr(np, 'trapezoid', None)` ... `if f is None: f = np.trapz`
            tested = {x.id for x in ast.walk(p.test) if isinstance(x, ast.Name)}
            q = parents.get(p)
            while q is not None and not isinstance(q, (ast.FunctionDef, ast.Module)):
                q = parents.get(q)
            if q is not None and tested:
                for n in ast.walk(q):
                    if isinstance(n, ast.Assign) and any(isinstance(t_, ast.Name) and t_.id in tested for t_ in n.targets) \
                            and any(isinstance(c, ast.Call) and ast.unparse(c.func) in ('getattr', 'hasattr') for c in ast.walk(n.value)):
                        return True
        p = parents.get(p)
    return False


def api_rules(run, db):
    mods = ['prysm.interferogram', 'prysm.fttools', 'prysm.coordinates', 'prysm.util']
    libs = {}
    n = 0
    for mn in mods:
        mod = db.module(mn)
        parents = {}
        for p in ast.walk(mod.tree):
            for c in ast.iter_child_nodes(p):
                parents[c] = p
        for node in ast.walk(mod.tree):
            if not isinstance(node, ast.Attribute) or isinstance(parents.get(node), ast.Attribute) and parents[node].value is node:
                continue
            # full dotted chain rooted at a Name
            chain = []
            x = node
            while isinstance(x, ast.Attribute):
                chain.append(x.attr)
                x = x.value
            if not isinstance(x, ast.Name):
                continue
            r = db.resolve_name(mod, x.id)
            if not (isinstance(r, tuple) and r[0] == 'ext' and r[1].split('.')[0] in ('numpy', 'scipy')):
                continue
            # local shadowing (a parameter or local named like the alias) cannot be decided here: skip names bound locally
            lib = r[1]
            chain = list(reversed(chain))
            try:
                obj = libs.get(lib) or importlib.import_module(lib)
            except ImportError as e:
                raise AnalysisError('cannot import %s to read its API: %s' % (lib, e))
            libs[lib] = obj
            okchain = True
            cur = obj
            used = []
            for a in chain:
                used.append(a)
                if not hasattr(cur, a):
                    okchain = False
                    break
                cur = getattr(cur, a)
                if not (isinstance(cur, type(importlib)) or hasattr(cur, '__dict__') and isinstance(cur, type(importlib))):
                    # stop at the first non-module attribute (methods of arrays etc. are not API names of the library)
                    break
            n += 1
            fnq = mn
            where = '%s:%d' % (mod.relpath, node.lineno)
            name = '%s.%s' % (lib, '.'.join(used))
            if _guarded(parents, node):
                run.ok('C13.api', mn, '%s (guarded access)' % name)
                continue
            if not okchain:
                run.finding('C13.api', mn, name, '%s does not exist in the installed %s %s: the call raises AttributeError' % (name, lib.split('.')[0], getattr(libs[lib], '__version__', getattr(importlib.import_module(lib.split('.')[0]), '__version__', ''))), where)
            elif lib == 'numpy' and len(used) == 1 and used[0] in NEW_IN_NUMPY2:
                run.finding('C13.api', mn, name, '%s only exists in NumPy >= 2.0 and is used without a fallback: fails on NumPy 1.x' % name, where)
            else:
                run.ok('C13.api', mn, '%s exists' % name)
    if n < 50:
        raise AnalysisError('API rule found only %d library attribute uses' % n)


def origin_rules(run, db):
    f = db.func(M + 'psd')
    for parity in (0, 1):
        dom = OriginDomain(parity)

        def call_prysm(fi, args, kwargs, node, dom=dom):
            if fi.qual == M + 'make_window':
                return dom.centred()            # windows are built on the centred grid (make_xy_grid / hanning)
            if fi.qual == 'prysm.coordinates.broadcast_1d_to_2d':
                return Tup([args[0], args[1]])
            return None
        dom.call_prysm = call_prysm
        it = Interp(db, dom)
        res = [p for p in it.run(f, kwargs=lambda: {'height': dom.centred(), 'dx': Real(), 'window': Real()}) if p.outcome == 'return']
        if not res:
            raise AnalysisError('psd: no returning path')
        for p in res:
            v = p.value
            if not (isinstance(v, Tup) and len(v.items) == 3 and all(isinstance(x, Og) for x in v.items)):
                raise AnalysisError('psd: return value is not (ux, uy, psd) with origin typestates: %r' % (v,))
            ux, uy, ps = v.items
            par = 'odd' if parity else 'even'
            run.check(ux.o == ohalf(parity) and uy.o == ohalf(parity), 'C13.origin', f.qual, 'frequency axes', 'frequency axes have zero at n//2 [%s]' % par,
                      'frequency axes have their zero at %r / %r for %s lengths' % (ux.o, uy.o, par), f.loc())
            run.check(ps.o == ux.o and ps.r.is_zero(), 'C13.origin', f.qual, 'spectrum vs axes', 'DC bin of the PSD coincides with the zero of the frequency axes [%s]' % par,
                      'for %s lengths the DC bin of the PSD is at index %r but the frequency axes are zero at %r: the spectrum is shifted against its axes' % (par, ps.o, ux.o), f.loc())


class FNorm(NormDomain):
    def call_ext(self, dotted, args, kwargs, node):
        last = dotted.rsplit('.', 1)[-1]
        if dotted.startswith(('scipy.fft', 'numpy.fft')) and last in ('fftshift', 'ifftshift') and args and self.rat(args[0]) is not None:
            # a shift permutes samples: elementwise algebra (and the sum the normalisation is about) does not see it; where the shifts
            # sit relative to the transform is C13.origin's business (ORIGIN typestate)
            return args[0]
        if dotted.startswith(('scipy.fft', 'numpy.fft')) and args and self.rat(args[0]) is not None:
            return self.func_atom(last, [args[0]], real=False)
        if dotted in ('builtins.abs', 'numpy.abs') and args and self.rat(args[0]) is not None:
            return self.func_atom('abs', [args[0]])
        return NormDomain.call_ext(self, dotted, args, kwargs, node)

    def method(self, v, name, args, kwargs, node):
        if isinstance(v, Sym) and name in ('sum', 'mean') and not args and not kwargs:
            return self.func_atom(name, [v])
        return NormDomain.method(self, v, name, args, kwargs, node)

    def getattr(self, v, name, node):
        if isinstance(v, Sym) and name == 'shape':
            # elementwise expressions over the height map h and its window w (same shape by construction) have the shape of h
            import re
            k = v.r.key()
            if re.search(r'(?<![A-Za-z0-9_])[hw](?![A-Za-z0-9_])', k):
                k = 'h'
            return Tup([self.sym('rows(%s)' % k), self.sym('cols(%s)' % k)])
        return NormDomain.getattr(self, v, name, node)


def norm_rules(run, db):
    f = db.func(M + 'psd')
    dom = FNorm()
    it = install_pi(Interp(db, dom))
    R = dom.R
    w = R.atom('w')
    calls = []

    def call_prysm(fi, args, kwargs, node):
        if fi.qual == M + 'make_window':
            return Sym(w)
        if fi.qual == 'prysm.fttools.forward_ft_unit':
            calls.append((args, kwargs, node))
            return dom.func_atom('freq', [a for a in args])
        if fi.qual == 'prysm.coordinates.broadcast_1d_to_2d':
            return Tup(list(args))
        return None
    dom.call_prysm = call_prysm
    res = returns(it.run(f, kwargs=lambda: {'height': dom.sym('h'), 'dx': dom.sym('dx'), 'window': Const(None)}), f)
    v = res[0].value
    if not (isinstance(v, Tup) and len(v.items) == 3):
        raise AnalysisError('psd does not return three values')
    ps = dom.rat(v.items[2])
    if ps is None:
        raise AnalysisError('psd value outside NORM: %r' % (v.items[2],))
    # psd * sum(w^2) / dx^2 must be |FT(h w)|^2 for some arrangement of shifts around fft2
    S2 = Rat(R.func('sum', [Rat(w * w)]))
    dx = Rat(R.atom('dx'))
    val = ps * S2 / (dx * dx)
    atoms = [a for a in val.atoms() if a.startswith('abs(')]
    ok = len(atoms) == 1 and val == Rat(R.atom(atoms[0])) * Rat(R.atom(atoms[0])) and 'fft2(' in atoms[0] and 'h*w' in atoms[0].replace(' ', '')
    run.check(ok, 'C13.norm', f.qual, 'power normalisation', 'psd == |fft2(h w)|^2 dx^2 / sum(w^2) (so sum psd df_x df_y == sum|h w|^2/sum w^2 by Parseval)',
              'psd * sum(w^2)/dx^2 = %s, expected |fft2(h*w)|^2 exactly' % val.key(), f.loc())
    # frequency axes from the right array axis
    ux, uy = v.items[0], v.items[1]
    kx, ky = (dom.rat(ux).key() if dom.rat(ux) is not None else ''), (dom.rat(uy).key() if dom.rat(uy) is not None else '')
    run.check('cols(h)' in kx and 'rows' not in kx and 'dx' in kx, 'C13.axis', f.qual, 'ux', 'ux = forward_ft_unit(dx, columns)', 'ux is built as %s (expected from dx and the number of columns)' % kx, f.loc())
    run.check('rows(h)' in ky and 'cols' not in ky and 'dx' in ky, 'C13.axis', f.qual, 'uy', 'uy = forward_ft_unit(dx, rows)', 'uy is built as %s (expected from dx and the number of rows)' % ky, f.loc())
    # Interferogram.psd wiring
    fi = db.func('prysm.interferogram.Interferogram.psd')
    # decided by interpreting the method with psd() summarised: what it is given, and which of its results end up as x, y, data
    from .common import capture_calls, norm_interp as _ni
    from ..core.interp import Obj
    it2, dom2 = _ni(db)
    ci2 = db.cls('prysm.interferogram.Interferogram')

    def mkself():
        o = Obj(ci2)
        o.attrs.update({'data': dom2.sym('DATA'), 'dx': dom2.sym('DX'), 'wavelength': dom2.sym('WL'), '_x': Const(None), '_y': Const(None), '_r': Const(None), '_t': Const(None)})
        return o
    paths, calls2 = capture_calls(it2, dom2, fi, lambda: {}, {M + 'psd'}, lambda f_, b_: Tup([dom2.sym('UX'), dom2.sym('UY'), dom2.sym('PSD')]), self_obj=mkself)
    rets = [p_ for p_ in paths if p_.outcome == 'return']
    key = lambda v_: dom2.rat(v_).key() if v_ is not None and dom2.rat(v_) is not None else repr(v_)
    okc = len(calls2) == 1 and key(calls2[0][1].get('height')) == 'DATA' and key(calls2[0][1].get('dx')) == 'DX'
    okr = len(rets) == 1 and isinstance(rets[0].value, Obj)
    detail = ''
    if okr:
        o = rets[0].value
        got = {a: key(o.attrs.get('_' + a, o.attrs.get(a))) for a in ('x', 'y')}
        got['data'] = key(o.attrs.get('data'))
        okr = got == {'x': 'UX', 'y': 'UY', 'data': 'PSD'}
        detail = str(got)
        if not okr:
            # coordinates that are descriptors built by a factory (x = _lazy(...)) are assigned through code the interpreter does not
            # follow: then "not stored" cannot be told from "stored where we do not look"
            rich = db.cls('prysm._richdata.RichData')
            if any(db.method(rich, a_) is None or 'property' not in db.method(rich, a_).decorators for a_ in ('x', 'y')):
                raise AnalysisError('Interferogram.psd: the x / y attributes of the returned object are not plain properties; where the frequency axes are stored is not followed')
    run.check(okc and okr, 'C13.axis', fi.qual, 'wiring', 'Interferogram.psd passes (data, dx) and stores (ux, uy) as (x, y) of the returned spectrum',
              'Interferogram.psd wiring changed: psd() receives %s; the returned object holds %s' % ([{k: key(v) for k, v in c[1].items()} for c in calls2], detail), fi.loc())
    from ..core.pattern import match_all
    # broadcast helper: x along columns, y along rows
    fb = db.func('prysm.coordinates.broadcast_1d_to_2d')
    s = {ast.unparse(n.targets[0]): ast.unparse(n.value) for n in walk_no_nested(fb.node) if isinstance(n, ast.Assign)}
    ok = match_all(fb.node, ['V_sx = (y.size, x.size)', 'V_sy = (x.size, y.size)', 'V_xx = np.broadcast_to(x, V_sx)', 'V_yy = np.broadcast_to(y, V_sy).T', 'return V_xx, V_yy']) is not None \
        or match_all(fb.node, ['V_xx = np.broadcast_to(x, (y.size, x.size))', 'V_yy = np.broadcast_to(y, (x.size, y.size)).T', 'return V_xx, V_yy']) is not None
    run.check(ok, 'C13.axis', fb.qual, 'broadcast', 'x varies along columns, y along rows, shape (len y, len x)', 'broadcast_1d_to_2d no longer builds (rows=y, cols=x): %s' % s, fb.loc())


def band_rules(run, db):
    f = db.func(M + 'bandlimited_rms')
    # masks
    from ..core.pattern import find, match_all
    # the working array is the copy of the PSD that the first integration consumes, whatever it is called; what is zeroed in it
    # is decided as a predicate over r (PRED): the union of the zeroed regions must be exactly r < flow or r > fhigh
    copies = {b_['V_w'] for pat in ('V_w = psd.copy()', 'V_w = np.array(psd)', 'V_w = np.copy(psd)') for b_, _ in find(f.node, pat)}
    stores = [n for n in walk_no_nested(f.node) if isinstance(n, ast.Assign) and isinstance(n.targets[0], ast.Subscript) and isinstance(n.targets[0].value, ast.Name)
              and n.targets[0].value.id in copies and isinstance(n.value, ast.Constant) and n.value.value == 0]
    if not stores:
        # the band is imposed some other way (a boolean mask multiplied in, np.where, a bounding box ...): not followed here
        raise AnalysisError('bandlimited_rms: no masked store zeroing a copy of the PSD was found; how the band is imposed is not followed')
    from ..domains.pred import PredDomain, Pred, eval_pred, p_or
    from ..domains.normdom import install_pi
    from ..core.interp import Frame
    from ..core.norm import Rat
    pdom = PredDomain(coords=('r',))
    pit = install_pi(Interp(db, pdom))
    pit._reset_run([])
    fr = Frame(f, f.module, {'r': pdom.sym('r'), 'flow': pdom.sym('flow'), 'fhigh': pdom.sym('fhigh')})
    # masks held in locals (`outside = (r < flow) | (r > fhigh)`) are followed: plain assignments ahead of the stores are evaluated in
    # PRED when they can be
    first_store = min(n.lineno for n in stores)
    for st_ in sorted([n for n in walk_no_nested(f.node) if isinstance(n, ast.Assign) and len(n.targets) == 1 and isinstance(n.targets[0], ast.Name) and n.lineno < first_store],
                      key=lambda n: n.lineno):
        if st_.targets[0].id in ('r', 'flow', 'fhigh'):
            continue
        try:
            v_ = pit.ev(st_.value, fr)
        except Exception:
            continue
        if isinstance(v_, Pred) or pdom.rat(v_) is not None:
            fr.env[st_.targets[0].id] = v_
    zeroed = None
    okp = bool(stores) and len({n.targets[0].value.id for n in stores}) == 1
    for n in stores:
        v = pit.ev(n.targets[0].slice, fr)
        if not isinstance(v, Pred):
            raise AnalysisError('bandlimited_rms: the mask `%s` under which the PSD copy is zeroed is not followed as a predicate over r, flow, fhigh (%r)' % (ast.unparse(n.targets[0].slice), v))
        zeroed = v if zeroed is None else p_or(zeroed, v)
    verdict = {}
    if okp and zeroed is not None:
        PR = pdom.R
        lo, g = Rat(PR.atom('flow')), Rat(PR.atom('gap'))
        for label, rv, want in (('below the band', lo - g, True), ('lower edge', lo, False), ('inside', lo + g, False), ('upper edge', lo + 2 * g, False), ('above the band', lo + 3 * g, True)):
            verdict[label] = (eval_pred(zeroed, {'r': rv, 'fhigh': lo + 2 * g}, {'gap', 'flow'}), want)
        okp = all(got is want for got, want in verdict.values())
    txt = sorted(ast.unparse(n.targets[0].slice).replace(' ', '') for n in stores)
    run.check(okp, 'C13.band', f.qual, 'band mask',
              'samples strictly outside [flow, fhigh] are zeroed (band edges included)',
              'the samples zeroed in the copy of the PSD are %s: %s -- expected exactly r < flow or r > fhigh'
              % (txt, ', '.join('%s %s' % (k, 'zeroed' if v[0] else ('kept' if v[0] is False else 'undecided')) for k, v in verdict.items())), f.loc())
    # integration: one integration per axis, each with the frequency step of its own axis, then sqrt
    ints = [n for n in walk_no_nested(f.node) if isinstance(n, ast.Call) and ast.unparse(n.func).split('.')[-1] in ('trapz', 'trapezoid', '_trapezoid', '_trapz')]
    ints.sort(key=lambda n: (n.lineno, n.col_offset))
    if len(ints) < 2:
        raise AnalysisError('bandlimited_rms: trapezoid integrations not found')
    # def-use: which index offsets define each dx
    assigns = {}
    for n in walk_no_nested(f.node):
        if isinstance(n, ast.Assign) and isinstance(n.targets[0], ast.Name):
            assigns.setdefault(n.targets[0].id, []).append(n)

    def offsets_of(name, seen=()):
        """axes along which the two points defining spacing `name` differ (from c2[k] = c2[k] - 1 style stores)."""
        axes = set()
        for n in walk_no_nested(f.node):
            if isinstance(n, ast.Assign) and isinstance(n.targets[0], ast.Subscript) and isinstance(n.targets[0].value, ast.Name):
                base = n.targets[0].value.id
                if base in name_deps(name) and isinstance(n.targets[0].slice, ast.Constant):
                    axes.add(n.targets[0].slice.value)
        return axes

    def name_deps(name, depth=0):
        out = {name}
        if depth > 6:
            return out
        for a in assigns.get(name, []):
            for x in ast.walk(a.value):
                if isinstance(x, ast.Name) and x.id not in out:
                    out |= name_deps(x.id, depth + 1)
        return out
    dxs = []
    for c in ints:
        kw = {k.arg: k.value for k in c.keywords}
        if 'dx' not in kw or 'axis' not in kw:
            raise AnalysisError('bandlimited_rms: integration call without dx/axis keywords')
        dxs.append((c, ast.unparse(kw['dx']), ast.unparse(kw['axis'])))
    # first call integrates axis 0 (rows / y), second integrates what was axis 1 (columns / x)
    first, second = dxs[0], dxs[1]
    a_first = offsets_of(first[1]) if isinstance(ast.parse(first[1], mode='eval').body, ast.Name) else set()
    a_second = offsets_of(second[1]) if isinstance(ast.parse(second[1], mode='eval').body, ast.Name) else set()
    run.check(a_first == {0}, 'C13.band', f.qual, 'spacing of the first integration', 'rows are integrated with the frequency step measured along axis 0',
              'the first integration (axis 0) uses a spacing measured along axes %s' % sorted(a_first), f.loc(first[0]))
    run.check(a_second == {1}, 'C13.band', f.qual, 'spacing of the second integration', 'columns are integrated with the frequency step measured along axis 1',
              'the second integration runs over the column axis but uses the spacing `%s` measured along axes %s: for non-square data df_x != df_y = 1/(N dx)'
              % (second[1], sorted(a_second)), f.loc(second[0]))
    rets = [n for n in walk_no_nested(f.node) if isinstance(n, ast.Return)]
    # what is returned is the square root of the result of the last integration
    par_ = {}
    for p_ in ast.walk(f.node):
        for c_ in ast.iter_child_nodes(p_):
            par_[c_] = p_
    last_t = [ast.unparse(par_[c].targets[0]) for c in ints if isinstance(par_.get(c), ast.Assign) and isinstance(par_[c].targets[0], ast.Name)]
    first_arg_ok = bool(stores) and ints[0].args and ast.unparse(ints[0].args[0]) == stores[0].targets[0].value.id and len(ints) >= 2 and ints[1].args and last_t and ast.unparse(ints[1].args[0]) == last_t[0]
    run.check(first_arg_ok, 'C13.band', f.qual, 'integrand', 'the masked copy is integrated along one axis and the result along the other', 'the integrations do not consume the masked copy / the first integral', f.loc(ints[0]))
    run.check(len(rets) == 1 and bool(last_t) and ast.unparse(rets[0].value).replace(' ', '') == 'np.sqrt(%s)' % last_t[-1], 'C13.band', f.qual, 'sqrt', 'rms = sqrt(integral)', 'bandlimited_rms does not return sqrt of the integral', f.loc())
    fi = db.func('prysm.interferogram.Interferogram.bandlimited_rms')
    bw = match_all(fi.node, ['V_p = self.psd()', 'return bandlimited_rms(r=V_p.r, psd=V_p.data, wllow=wllow, wlhigh=wlhigh, flow=flow, fhigh=fhigh)'])
    run.check(bw is not None, 'C13.band', fi.qual, 'wiring', 'method integrates its own PSD over its own radial frequency grid',
              'Interferogram.bandlimited_rms wiring changed', fi.loc())


def rms_rules(run, db):
    """render_synthetic_surface: the surface is masked first, its NaN-aware RMS measured then, and multiplied by requested/measured --
    decided by interpreting the routine in NORM with the synthesis and the RMS routine summarised (events in the order they happen)."""
    from .common import capture_calls
    from ..core.interp import Value
    f = db.func(M + 'render_synthetic_surface')
    itn, domn = norm_interp(db)
    events = []
    oe, osub, ost, oga, ocmp = domn.call_ext, domn.subscript, domn.store_subscript, domn.getattr, domn.compare

    class MaskSel(Value):
        pass

    def call_ext(dotted, args, kwargs, node):
        last = dotted.rsplit('.', 1)[-1]
        if dotted == 'builtins.globals':
            return Unknown('globals()')
        if last in ('meshgrid',):
            return Tup([domn.sym('GX'), domn.sym('GY')])
        return oe(dotted, args, kwargs, node)

    def subscript(v, idx, node):
        # globals()['rms'] is the module-level rms
        if isinstance(v, Unknown) and 'globals' in str(v.why) and isinstance(idx, Const) and isinstance(idx.v, str):
            return itn.lookup_global(idx.v, f.module)
        if domn.rat(v) is not None:
            return domn.func_atom('elem', [v])
        return osub(v, idx, node)

    def compare(op, a, b, node):
        if not isinstance(op, (ast.Is, ast.IsNot)) and domn.rat(a) is not None and domn.rat(a).key() == 'MASK':
            return MaskSel()          # mask == 0, mask < 0.5 ...: a selection of samples (`mask is None` is a plain test: the mask is given)
        return ocmp(op, a, b, node)

    def store_subscript(target, idx, val, node):
        if domn.rat(target) is not None:
            itn.emit('c13ev', data=('store', domn.rat(target).key(), isinstance(idx, MaskSel), repr(val)))
            return True
        return ost(target, idx, val, node)
    domn.call_ext, domn.subscript, domn.compare, domn.store_subscript = call_ext, subscript, compare, store_subscript

    def summarise(fi_, b_):
        if fi_.name == 'rms':
            arg = b_.get(fi_.params[0])
            itn.emit('c13ev', data=('rms', domn.rat(arg).key() if domn.rat(arg) is not None else repr(arg)))
            return domn.func_atom('RMS', [arg]) if domn.rat(arg) is not None else Unknown('rms of a non-array')
        if fi_.name == 'synthesize_surface_from_psd':
            return Tup([domn.sym('X'), domn.sym('Y'), domn.mark_array(domn.sym('Z'))])          # Z: the synthesised height map, an ndarray
        if fi_.name == 'forward_ft_unit':
            return domn.sym('NU')
        return domn.sym('PSD_' + fi_.name)
    callees = {'prysm.util.rms', M + 'synthesize_surface_from_psd', 'prysm.fttools.forward_ft_unit', 'prysm.coordinates.cart_to_polar'}
    callees |= {g.qual for g in f.module.functions.values() if g.name.endswith('_psd') and g.qual != f.qual}

    def psd_fcn(fobj, args, kwargs, node):
        if isinstance(fobj, Unknown) and 'globals' in str(fobj.why):
            return Unknown('globals()')
        if domn.rat(fobj) is not None and domn.rat(fobj).key() == 'PSDFCN':
            return domn.sym('PSDVAL')
        return None
    domn.call_object = psd_fcn
    paths, calls = capture_calls(itn, domn, f, lambda: {'size': domn.sym('size'), 'samples': domn.sym('samples'), 'rms': domn.sym('TARGET'), 'mask': domn.sym('MASK'),
                                                        'psd_fcn': domn.sym('PSDFCN')}, callees, summarise)
    rets = [p_ for p_ in paths if p_.outcome == 'return' and isinstance(p_.value, Tup) and len(p_.value.items) == 3]
    if not rets:
        raise AnalysisError('render_synthetic_surface: no path returns (x, y, z) under interpretation')
    R_ = domn.R
    want = Rat(R_.atom('Z')) * Rat(R_.atom('TARGET')) / Rat(R_.func('RMS', [Rat(R_.atom('Z'))]))
    for p_ in rets:
        z = domn.rat(p_.value.items[2])
        events = [e['data'] for e in p_.events if e['kind'] == 'c13ev']          # what happened on this path, in order
        order = [e[0] for e in events if e[0] == 'rms' or (e[0] == 'store' and e[1] == 'Z' and e[2])]
        okorder = 'store' in order and 'rms' in order and order.index('store') < order.index('rms')
        run.check(okorder, 'C13.rms', f.qual, 'order', 'mask -> measure rms -> scale -> apply', 'the RMS is not measured after masking and before scaling (events: %s)' % order, f.loc())
        run.check(z is not None and z == want and any(e == ('rms', 'Z') for e in events), 'C13.rms', f.qual, 'measure / scale / apply',
                  'the masked surface is measured by the NaN-aware rms, scale == requested / measured, the surface is multiplied by the scale',
                  'the RMS scaling is no longer z * rms / rms(z) on the masked surface: the returned surface is %s' % (z.key() if z is not None else repr(p_.value.items[2])), f.loc())
        break
    # the module-level rms really is the NaN-aware one
    mod = db.module('prysm.interferogram')
    r = db.resolve_name(mod, 'rms')
    run.check(getattr(r, 'qual', None) == 'prysm.util.rms', 'C13.rms', f.qual, 'rms binding', "globals()['rms'] is prysm.util.rms", 'module-level rms resolves to %r' % (r,), f.loc())


def edge_rules(run, db):
    """Band edges: periods and frequencies resolve to [flow, fhigh] = [1/longest period or flow or 0, 1/shortest period or fhigh or max(r)]."""
    from .common import block_as_function, norm_interp
    from ..core.norm import Rat
    f = db.func(M + 'bandlimited_rms')
    # the edges are resolved by everything before the PSD is first touched (copied / masked)
    cut = next((i for i, st in enumerate(f.node.body) if any(isinstance(x_, ast.Name) and x_.id == 'psd' for x_ in ast.walk(st))), None)
    if cut is None:
        raise AnalysisError('bandlimited_rms: no statement uses the PSD')
    start = 1 if isinstance(f.node.body[0], ast.Expr) and isinstance(getattr(f.node.body[0], 'value', None), ast.Constant) else 0
    fn, params = block_as_function(f, f.node.body[start:cut], ['flow', 'fhigh'], 'edges')
    it, dom = norm_interp(db)
    R = dom.R
    orig_m = dom.method

    def method(v, name, args, kwargs, node):
        if name == 'max' and not args and not kwargs and dom.rat(v) is not None and dom.rat(v) == Rat(R.atom('r')):
            return dom.sym('rmax')
        return orig_m(v, name, args, kwargs, node)
    dom.method = method
    orig_e = dom.call_ext
    orig_g, orig_s = dom.getattr, dom.subscript

    def getattr_r(v, name, node):
        if name == 'ndim' and dom.rat(v) is not None and dom.rat(v) == Rat(R.atom('r')):
            return Const(2)           # the radial frequency grid of a 2-D spectrum
        return orig_g(v, name, node)

    def subscript_r(v, idx, node):
        # one sample of the grid picked by position: some value of r, not its maximum unless the rule can show it (it cannot)
        if dom.rat(v) is not None and dom.rat(v) == Rat(R.atom('r')) and isinstance(idx, Tup) and idx.items and all(isinstance(x, Const) and isinstance(x.v, int) for x in idx.items):
            return dom.func_atom('sample_of_r_at', [Const(x.v) for x in idx.items])
        return orig_s(v, idx, node)
    dom.getattr, dom.subscript = getattr_r, subscript_r

    def call_ext(dotted, args, kwargs, node):
        if dotted in ('numpy.max', 'numpy.amax', 'numpy.nanmax') and len(args) == 1 and not kwargs and dom.rat(args[0]) is not None and dom.rat(args[0]) == Rat(R.atom('r')):
            return dom.sym('rmax')
        if dotted == 'warnings.warn':
            return Const(None)
        return orig_e(dotted, args, kwargs, node)
    dom.call_ext = call_ext
    A = lambda nme: Rat(R.atom(nme))
    zero, rmax = Rat(R.const(0)), A('rmax')
    N = Const(None)
    cases = [
        ('shortest period only', {'wllow': 'a'}, (zero, 1 / A('a'))),
        ('longest period only', {'wlhigh': 'b'}, (1 / A('b'), rmax)),
        ('both periods', {'wllow': 'a', 'wlhigh': 'b'}, (1 / A('b'), 1 / A('a'))),
        ('lower frequency only', {'flow': 'p'}, (A('p'), rmax)),
        ('upper frequency only', {'fhigh': 'q'}, (zero, A('q'))),
        ('both frequencies', {'flow': 'p', 'fhigh': 'q'}, (A('p'), A('q'))),
    ]
    for label, given, (wlo, whi) in cases:
        kw = {p_: dom.sym(p_) for p_ in params}
        for nm in ('wllow', 'wlhigh', 'flow', 'fhigh'):
            kw[nm] = dom.sym(given[nm]) if nm in given else N
        res = [p for p in it.run(fn, kwargs=lambda: dict(kw)) if p.outcome == 'return']
        if not res:
            raise AnalysisError('bandlimited_rms edges (%s): no returning path' % label)
        for p in res:
            if not (isinstance(p.value, Tup) and len(p.value.items) == 2):
                raise AnalysisError('bandlimited_rms edges (%s): the (lower, upper) edge pair is not followed to the end of the edge block (%r)' % (label, p.value))
            lo, hi = [dom.rat(v) for v in p.value.items]
            if lo is None or hi is None:
                # the locals this rule reads at the end of the edge block do not hold numbers: the edges are kept somewhere else (a
                # record, a helper's result) -- not followed, nothing is judged
                raise AnalysisError('bandlimited_rms edges (%s): the resolved band edges are not held in the locals flow / fhigh when the PSD is first used (%r)' % (label, p.value))
            ok = lo is not None and hi is not None and lo == wlo and hi == whi
            run.check(ok, 'C13.band', f.qual, 'edges: ' + label, 'band given by %s resolves to [%s, %s]' % (label, wlo.key(), whi.key()),
                      'with %s the band becomes [%s, %s], expected [%s, %s] (max(r) is the largest radial frequency of the grid, 0 the smallest): bands specified this way are not the bands asked for, '
                      'so widening a band can lower the RMS and adjacent bands do not add in quadrature' % (label, lo.key() if lo is not None else '?', hi.key() if hi is not None else '?', wlo.key(), whi.key()), f.loc())
    kw = {p_: dom.sym(p_) for p_ in params}
    kw.update({nm: N for nm in ('wllow', 'wlhigh', 'flow', 'fhigh')})
    res = it.run(fn, kwargs=lambda: dict(kw))
    run.check(bool(res) and all(p.outcome == 'raise' for p in res), 'C13.band', f.qual, 'edges: none given', 'no band specification raises', 'bandlimited_rms without any band edge does not raise', f.loc())
    # the object method passes the four edges through by name; TIS asks for the band up to 1/wavelength as a FREQUENCY
    # decided on the values bound to the callee's parameters (positional, keyword or **dict alike)
    from .common import capture_calls
    from ..core.interp import Value

    class Opaque(Value):
        def __init__(self, name):
            self.name = name

        def __repr__(self):
            return 'Opaque(%s)' % self.name
    fm = db.func(M + 'Interferogram.bandlimited_rms')
    itm, domm = norm_interp(db)
    ogm, omm = domm.getattr, domm.method

    def getattr_m(v, name, node):
        if isinstance(v, Opaque):
            return domm.sym('%s.%s' % (v.name, name))
        return ogm(v, name, node)
    domm.getattr = getattr_m
    cim = db.cls(M + 'Interferogram')

    def mkself_m():
        o = Obj(cim)
        o.attrs.update({'data': domm.sym('DATA'), 'dx': domm.sym('DX'), 'wavelength': domm.sym('WL')})
        return o
    edges = ('wllow', 'wlhigh', 'flow', 'fhigh')
    paths, callsm = capture_calls(itm, domm, fm, lambda: {e_: domm.sym(e_.upper()) for e_ in edges}, {M + 'bandlimited_rms', M + 'Interferogram.psd'},
                                  lambda fi_, b_: Opaque('spectrum') if fi_.name == 'psd' else domm.sym('RMS'), self_obj=mkself_m)
    cm = [c_ for c_ in callsm if c_[0].name == 'bandlimited_rms']
    keym = lambda v_: domm.rat(v_).key() if v_ is not None and domm.rat(v_) is not None else repr(v_)
    okm = len(cm) == 1 and all(keym(cm[0][1].get(e_)) == e_.upper() for e_ in edges) and keym(cm[0][1].get('r')) == 'spectrum.r' and keym(cm[0][1].get('psd')) == 'spectrum.data'
    run.check(okm, 'C13.band', fm.qual, 'pass-through', 'the method integrates its own PSD over its own radial frequency grid and hands each band edge to the parameter of the same name',
              'Interferogram.bandlimited_rms calls bandlimited_rms with %s' % [{k: keym(v) for k, v in c_[1].items()} for c_ in cm], fm.loc())
    ft = db.func(M + 'Interferogram.total_integrated_scatter')
    itt, domt = norm_interp(db)
    paths, callst = capture_calls(itt, domt, ft, lambda: {'wavelength': domt.sym('W'), 'incident_angle': domt.sym('AOI')}, {M + 'Interferogram.bandlimited_rms'},
                                  lambda fi_, b_: domt.sym('RMS'), self_obj=lambda: Obj(cim))
    keyt = lambda v_: domt.rat(v_).key() if v_ is not None and domt.rat(v_) is not None else repr(v_)
    want_hi = (1000 / Rat(domt.R.atom('W')))
    okt = len(callst) == 1 and set(callst[0][1]) == {'fhigh'} and domt.rat(callst[0][1]['fhigh']) is not None and domt.rat(callst[0][1]['fhigh']) == want_hi
    run.check(okt, 'C13.band', ft.qual, 'TIS band', 'the scatter band [0, 1000/wavelength] is passed as an upper FREQUENCY',
              'total_integrated_scatter calls bandlimited_rms with %s: the limit 1000/wavelength must be the upper frequency (fhigh) and nothing else'
              % [{k: keyt(v) for k, v in c_[1].items()} for c_ in callst], ft.loc())


def pure_rules(run, db):
    """The PSD chain reads its inputs: no in-place write through an argument (the caller's height map / PSD survive the call)."""
    from .purity import input_mutations
    I = 'prysm.interferogram.'
    for q in ('psd', 'bandlimited_rms', 'make_window', '_trapezoid', 'synthesize_surface_from_psd', 'fit_psd', 'abc_psd', 'ab_psd', 'window_2d_welch',
              'Interferogram.psd', 'Interferogram.bandlimited_rms', 'Interferogram.total_integrated_scatter'):
        fi = db.func(I + q)
        muts = input_mutations(fi)
        for st, name in muts:
            run.finding('C13.pure', fi.qual, norm_stmt(st), 'in-place write through the argument `%s`: the caller\'s array is modified by the call (a second PSD of the same map, or any later use of it, '
                        'sees the windowed / scaled data)' % name, fi.loc(st))
        if not muts:
            run.ok('C13.pure', fi.qual, 'arguments are not written through')
    # frequency axes / grids handed out by a memo must not be edited in place by the PSD chain (history independence)
    from .purity import memo_inplace
    for fi, st, callee in memo_inplace(db, ['prysm.interferogram', 'prysm.fttools', 'prysm.util', 'prysm.coordinates']):
        run.finding('C13.pure', fi.qual, norm_stmt(st), 'in-place write into the result of the memoising function %s: every later caller that receives the same stored array (e.g. the frequency axis of the next psd '
                    'with the same dx and sample count) sees the edit -- the PSD then depends on call history' % callee.qual, fi.loc(st))
    run.ok('C13.pure', 'prysm.interferogram', 'no memoised array is edited in place (or none is memoised)')


def check(run, db, tier):
    run.trust('ORIGIN typestate; NORM with uninterpreted fft/sum atoms; the installed NumPy/SciPy API surface read by importing those libraries (not prysm); frozen list of names new in NumPy 2.x',
              'GH_FFT scaling: PSD = |FFT(h w)|^2/(sum w^2 fs^2); Parseval; df = 1/(N dx) per axis')
    run.assume('not decided: band additivity/monotonicity to round-off, trapezoid end weights (values)')
    run.rule('C13.api', 'every NumPy/SciPy name used by the PSD modules exists in the installed library and in NumPy 1.x, or is accessed under an AttributeError/hasattr guard')
    run.rule('C13.origin', 'DC bin of the PSD coincides with the zero of its frequency axes, odd and even lengths')
    run.rule('C13.norm', 'psd == |fft2(h w)|^2 dx^2 / sum(w^2)')
    run.rule('C13.axis', 'ux from the column count, uy from the row count, broadcast as (rows=y, cols=x), stored as (x, y)')
    run.rule('C13.band', 'band mask keeps [flow, fhigh]; each axis is integrated with its own frequency step; result is the square root')
    run.rule('C13.rms', 'synthetic surface: mask, then NaN-aware RMS, scale = requested/measured, applied to the surface')
    run.rule('C13.pure', 'no function of the PSD chain writes in place through one of its arguments (may-alias over views, joined over branches)')
    # bandlimited_rms twice: on values (whatever its organisation), and by the older rules that read its statements (masked stores on a
    # copy, edge locals, trapezoid calls); when those cannot read a reorganised routine the value decision stands alone
    state = {}

    def band_values(run, db):
        state['n'] = band_value_rules(run, db)

    def structural(fn):
        def rule(run, db):
            try:
                fn(run, db)
            except AnalysisError as e:
                if not state.get('n'):
                    raise
                run.info('C13.band: %s does not read this organisation of bandlimited_rms (%s); decided on values for %d ways of giving the band' % (fn.__name__, str(e)[:140], state['n']))
        rule.__name__ = fn.__name__
        return rule
    for fn in (api_rules, origin_rules, norm_rules, band_values, structural(band_rules), structural(edge_rules), rms_rules, pure_rules):
        run.group(fn, run, db)
    from . import c12
    from .c02 import Proxy
    run.group(c12.stats_rules, Proxy(run, {'C12.stats': 'C13.rms'}), db)
    run.require_instances('C13.origin', 4)
    run.require_instances('C13.pure', 10)
    run.require_instances('C13.api', 50)


def band_value_rules(run, db):
    """bandlimited_rms decided on values, for the six ways of giving a band: the routine is interpreted as it stands (helpers, records,
    np.where or masked stores) in PRED with the PSD a token array, r the radial-frequency coordinate and the integrations summarised.
    Which samples of the PSD reach the first integration is a predicate over r; it must be exactly lo <= r <= hi with (lo, hi) the
    band asked for (judged at five radii: below, on the lower edge, inside, on the upper edge, above); the two integrations must run
    over axis 0 of what they are given, the first over the banded PSD and the second over the first one's result, each with a step
    measured along its own axis of r at the centre; the result must be the square root of the second integral.
    Number of cases decided; AnalysisError when the routine is not followed."""
    from ..domains.pred import PredDomain, Pred, eval_pred, p_or, p_not, p_and
    from ..domains.normdom import install_pi
    from ..core.interp import Value
    from ..core.norm import Rat
    f = db.func(M + 'bandlimited_rms')

    class Work(Value):
        """the PSD with some samples set to zero: `zero` is the predicate of the zeroed samples (None: nothing zeroed yet)"""
        def __init__(self, zero=None, stage=0, steps=()):
            self.zero, self.stage, self.steps = zero, stage, list(steps)

        def __repr__(self):
            return 'Work(stage=%d)' % self.stage

    cases = [('shortest period only', {'wllow': 'a'}), ('longest period only', {'wlhigh': 'b'}), ('both periods', {'wllow': 'a', 'wlhigh': 'b'}),
             ('lower frequency only', {'flow': 'p'}), ('upper frequency only', {'fhigh': 'q'}), ('both frequencies', {'flow': 'p', 'fhigh': 'q'})]
    decided = 0
    for label, given in cases:
        dom = PredDomain(coords=('r',))
        it = install_pi(Interp(db, dom))
        R = dom.R
        A = lambda nme: Rat(R.atom(nme))
        oe, om, og, osub, ost, ob = dom.call_ext, dom.method, dom.getattr, dom.subscript, dom.store_subscript, dom.binop
        is_r = lambda v: not isinstance(v, (Work, Pred, Tup)) and dom.rat(v) is not None and dom.rat(v) == A('r')
        ints = []

        def call_ext(dotted, args, kwargs, node):
            last = dotted.rsplit('.', 1)[-1]
            a0 = args[0] if args else None
            if last in ('max', 'amax', 'nanmax') and len(args) == 1 and is_r(a0):
                return dom.sym('rmax')
            if dotted == 'warnings.warn':
                return Const(None)
            if last in ('array', 'copy', 'asarray', 'ascontiguousarray') and isinstance(a0, Work):
                return Work(a0.zero, a0.stage, a0.steps)
            if last == 'where' and len(args) == 3 and isinstance(args[0], Pred):
                keep, yes, no = args
                if isinstance(yes, Work) and isinstance(no, Const) and no.v == 0:
                    return Work(p_not(keep) if yes.zero is None else p_or(yes.zero, p_not(keep)), yes.stage, yes.steps)
                if isinstance(no, Work) and isinstance(yes, Const) and yes.v == 0:
                    return Work(keep if no.zero is None else p_or(no.zero, keep), no.stage, no.steps)
                return Unknown('np.where on something that is not the PSD')
            if last in ('trapz', 'trapezoid') and isinstance(a0, Work):
                return integrate(a0, kwargs, args, node)
            if last == 'sqrt' and isinstance(a0, Work):
                w = Work(a0.zero, a0.stage, a0.steps)
                w.root = True
                return w
            if last in ('abs', 'absolute') and len(args) == 1 and dom.rat(a0) is not None:
                return dom.func_atom('abs', [a0])
            return oe(dotted, args, kwargs, node)

        def integrate(w, kwargs, args, node):
            dx = kwargs.get('dx', args[2] if len(args) > 2 else None)
            ax = kwargs.get('axis', args[3] if len(args) > 3 else Const(-1))
            ints.append((w, dx, ax, node))
            return Work(w.zero, w.stage + 1, w.steps + [(dx, ax)])

        def call_prysm(fi, args, kwargs, node):
            if fi.name in ('_trapezoid', '_trapz') and args and isinstance(args[0], Work):
                from .common import bind_call
                b = bind_call(fi, args, kwargs)
                ints.append((args[0], b.get('dx'), b.get('axis', Const(-1)), node))
                return Work(args[0].zero, args[0].stage + 1, args[0].steps + [(b.get('dx'), b.get('axis'))])
            return None

        def method(v, name, args, kwargs, node):
            if is_r(v) and name == 'max' and not args and not kwargs:
                return dom.sym('rmax')
            if isinstance(v, Work) and name == 'copy':
                return Work(v.zero, v.stage, v.steps)
            if isinstance(v, Pred) and name in ('any', 'all'):
                return Unknown('whether any sample is in the band')
            return om(v, name, args, kwargs, node)

        def getattr_(v, name, node):
            if (is_r(v) or isinstance(v, Work)) and name == 'ndim':
                return Const(2)
            if (is_r(v) or isinstance(v, Work)) and name == 'shape':
                return Tup([dom.sym('ROWS'), dom.sym('COLS')])
            return og(v, name, node)

        def subscript(v, idx, node):
            if is_r(v):
                items = idx.items if isinstance(idx, Tup) else [idx]
                if len(items) == 2 and all(dom.rat(x) is not None for x in items):
                    return dom.func_atom('r_at', list(items))
                return Unknown('samples of r picked in a way that is not followed')
            if isinstance(v, Work):
                return Unknown('part of the PSD')
            return osub(v, idx, node)

        def store_subscript(target, idx, val, node):
            if isinstance(target, Work):
                if isinstance(idx, Pred) and isinstance(val, Const) and val.v == 0:
                    target.zero = idx if target.zero is None else p_or(target.zero, idx)
                    return True
                target.lost = True
                return True
            return ost(target, idx, val, node)

        def binop(op, a, b, node):
            for x, y in ((a, b), (b, a)):
                if isinstance(x, Work) and isinstance(y, Pred) and isinstance(op, ast.Mult):
                    return Work(p_not(y) if x.zero is None else p_or(x.zero, p_not(y)), x.stage, x.steps)       # psd * inband
            if isinstance(a, Work) or isinstance(b, Work):
                return Unknown('arithmetic on the PSD')
            return ob(op, a, b, node)
        dom.call_ext, dom.method, dom.getattr, dom.subscript, dom.store_subscript, dom.binop, dom.call_prysm = call_ext, method, getattr_, subscript, store_subscript, binop, call_prysm
        kw = {'r': dom.sym('r'), 'psd': Work()}
        for nm in ('wllow', 'wlhigh', 'flow', 'fhigh'):
            kw[nm] = dom.sym(given[nm]) if nm in given else Const(None)
        del ints[:]
        res = [p for p in it.run(f, kwargs=lambda: dict(kw, psd=Work())) if p.outcome == 'return']
        # an early return for an empty band is a value question (sqrt(0)); the paths that integrate are judged
        res = [p for p in res if isinstance(p.value, Work)]
        if not res:
            raise AnalysisError('bandlimited_rms (%s): no path returns the root of an integral of the PSD' % label)
        lo_want = {'shortest period only': Rat(R.const(0)), 'longest period only': 1 / A('b'), 'both periods': 1 / A('b'),
                   'lower frequency only': A('p'), 'upper frequency only': Rat(R.const(0)), 'both frequencies': A('p')}[label]
        hi_name = {'shortest period only': 'a', 'longest period only': 'rmax', 'both periods': 'a', 'lower frequency only': 'rmax',
                   'upper frequency only': 'q', 'both frequencies': 'q'}[label]
        hi_is_period = label in ('shortest period only', 'both periods')
        for p in res:
            w = p.value
            if getattr(w, 'lost', False) or w.zero is None:
                raise AnalysisError('bandlimited_rms (%s): which samples of the PSD are kept is not followed' % label)
            if w.stage != 2 or not getattr(w, 'root', False):
                run.check(False, 'C13.band', f.qual, 'values: %s' % label, '', 'bandlimited_rms (%s) does not return the square root of two successive integrations of the banded PSD (it integrates %d times%s)'
                          % (label, w.stage, '' if getattr(w, 'root', False) else ', no square root'), f.loc())
                continue
            # five radii relative to the band [L, L + 2g]: the symbols of the case are expressed through L and g
            L, g = A('L_'), A('g_')
            zero_lo = lo_want.is_zero()
            sub = {}
            if not zero_lo:
                sub.update({'b': 1 / L} if label in ('longest period only', 'both periods') else {'p': L})
            base = Rat(R.const(0)) if zero_lo else L
            top = base + 2 * g
            sub[hi_name] = (1 / top) if hi_is_period else top
            pts = [('below the band', base - g, True), ('on the lower edge', base, False), ('inside', base + g, False), ('on the upper edge', top, False), ('above the band', top + g, True)]
            if zero_lo:
                pts = pts[1:]
            verdict = {}
            for nm_, rv, want in pts:
                verdict[nm_] = (eval_pred(w.zero, dict(sub, r=rv), {'g_', 'L_'}), want)
            if any(v[0] is None for v in verdict.values()):
                raise AnalysisError('bandlimited_rms (%s): the predicate of the zeroed samples is not decided at the test radii (%s)' % (label, {k: v[0] for k, v in verdict.items()}))
            okb = all(got is want for got, want in verdict.values())
            run.check(okb, 'C13.band', f.qual, 'values: band, %s' % label, 'exactly the samples with %s <= r <= %s reach the integration' % (lo_want.key(), hi_name if not hi_is_period else '1/' + hi_name),
                      'bandlimited_rms with %s keeps/zeroes the wrong samples: %s -- the band asked for is [%s, %s]' %
                      (label, ', '.join('%s %s' % (k, 'zeroed' if v[0] else 'kept') for k, v in verdict.items()), lo_want.key(), ('1/' + hi_name) if hi_is_period else hi_name), f.loc())
            # the two integrations: axis 0 of what they are given, steps measured along axis 0 and then axis 1 of r at the centre
            steps = w.steps
            oka = all(isinstance(ax, Const) and ax.v == 0 for _, ax in steps)
            cy, cx = dom.rat(dom.floordiv(A('ROWS'), Rat(R.const(2)), None)) if hasattr(dom, 'floordiv') else None, None
            want_steps = []
            for axis in (0, 1):
                c0 = [Sym(R.func('floordiv', [A('ROWS'), Rat(R.const(2))])), Sym(R.func('floordiv', [A('COLS'), Rat(R.const(2))]))]
                want_steps.append(c0)
            got_steps = [dom.rat(dx) for dx, _ in steps]
            if any(s_ is None for s_ in got_steps):
                raise AnalysisError('bandlimited_rms (%s): the step of an integration is not followed' % label)

            def step_axis(s_):
                # |r_at(i, j) - r_at(i', j')|: the axis along which the two samples differ (by one)
                ats = sorted(a_ for a_ in s_.atoms() if a_.startswith('abs('))
                if len(ats) != 1 or not (s_ == Rat(R.atom(ats[0]))):
                    return None
                inner = R.info.get(ats[0])[1][0]
                pts_ = sorted(a_ for a_ in inner.atoms() if a_.startswith('r_at('))
                if len(pts_) != 2:
                    return None
                (i0, j0), (i1, j1) = [R.info.get(a_)[1] for a_ in pts_]
                di, dj = Rat(i0) - Rat(i1), Rat(j0) - Rat(j1)
                one = Rat(R.const(1))
                if dj.is_zero() and (di == one or di == -one):
                    return 0
                if di.is_zero() and (dj == one or dj == -one):
                    return 1
                return None
            axes_ = [step_axis(s_) for s_ in got_steps]
            if any(a_ is None for a_ in axes_):
                raise AnalysisError('bandlimited_rms (%s): an integration step is not the distance of two neighbouring samples of r (%s)' % (label, [s_.key() for s_ in got_steps]))
            run.check(oka and axes_ == [0, 1], 'C13.band', f.qual, 'values: integrations, %s' % label,
                      'rows are integrated with the step of r along axis 0, then columns with the step along axis 1 (each call reduces axis 0 of what it is given)',
                      'bandlimited_rms integrates over axes %s with steps measured along axes %s of r: for non-square data the two frequency steps differ'
                      % ([getattr(ax, 'v', '?') for _, ax in steps], axes_), f.loc())
            decided += 1
    return decided
