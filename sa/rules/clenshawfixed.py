"""Fast modal sums decided for coefficient vectors of fixed length.

Every Clenshaw routine (Jacobi, Qbfs, Qcon, 2D-Q; values and derivative sums; the sag-and-slope evaluators built on them) is
interpreted as it stands -- helpers, tables, generators, reversed ranges, whatever it is organised as -- with a coefficient list of
fixed length whose entries are symbols, the coordinate a symbol, and Forbes' auxiliary square-root coefficients opaque at their
concrete indices.  What it returns must be, as an identity in the coordinate and the coefficients, the explicit sum of coefficient
times mode, with the modes obtained by interpreting the value routines (jacobi, Qbfs, Qcon, Q2d) the same way; derivative outputs
must be the symbolic derivative of that explicit sum.

Bounded (lengths 1, 2, 3 and 5; two Jacobi parameter pairs; azimuthal orders 1..3), but it states the property itself (C10: fast sum ==
explicit sum; C09: derivative output == derivative of the value) and does not depend on how the routine is written.  It is an
additional detector next to the induction rules, and the fallback that keeps a reorganised routine decided when the induction
cannot read it.
"""
from ..core.db import AnalysisError
from ..core.interp import Const, Tup
from ..core.norm import Rat, diff, NormError

PJ = 'prysm.polynomials.jacobi.'
PQ = 'prysm.polynomials.qpoly.'
LENGTHS = (1, 2, 3, 5, '00c', '0c0c0', 'c00')
ATOMS = ('g_qbfs', 'h_qbfs', 'f_qbfs', 'g_q2d', 'f_q2d')
ATOM_FROM = {'f_qbfs': 2, 'g_qbfs': 1}


def _interp(db):
    from . import fixedorders as FO
    it, dom = FO.mk_interp(db)

    def call_prysm(fi, args, kwargs, node):
        if fi.name in ATOMS:
            # the values at the lowest indices are what ties the first two polynomials to the auxiliary ones (P_0 = f_0 Q_0,
            # P_1 = f_1 Q_1 + g_0 Q_0): those are evaluated; from there on the identity holds for any values, and they stay opaque
            k = args[0].v if args and isinstance(args[0], Const) and isinstance(args[0].v, int) else None
            if k is not None and k < ATOM_FROM.get(fi.name, 0):
                return None
            return dom.func_atom(fi.name, list(args))
        return None
    dom.call_prysm = call_prysm
    return it, dom


def _one_return(it, dom, f, kw, label):
    res = [p for p in it.run(f, kwargs=lambda: dict(kw)) if p.outcome == 'return']
    if len(res) != 1:
        raise AnalysisError('%s: expected one returning path for a concrete length, got %d' % (label, len(res)))
    if dom.lost:
        raise AnalysisError('%s: %s is not followed (arrays are copied, not viewed, here)' % (label, dom.lost))
    return res[0].value


def _scalar(dom, v, label):
    """the single cell of a value that is an array over the one-point coordinate (or a scalar)"""
    from ..domains.normdom import Arr
    cells = v.data if isinstance(v, Arr) else [v]
    if len(cells) != 1 or dom.rat(cells[0]) is None:
        raise AnalysisError('%s: the returned value is not followed (%r)' % (label, v))
    return dom.rat(cells[0])


def _index(dom, v, idx, label):
    """v[idx...] for a followed array / nested sequence"""
    for k in idx:
        v = dom.interp.subscript(v, Const(k), None)
    return _scalar(dom, v, label)


def _mode(it, dom, f, kw, label):
    return _scalar(dom, _one_return(it, dom, f, kw, label), label)


def _coefs(dom, name, K):
    """(the list handed to the routine, the coefficients as NORM values).  K is a length (all coefficients symbols) or a pattern such as
    '0c0' (a sparse vector: '0' is the constant zero, 'c' a symbol)."""
    pat = 'c' * K if isinstance(K, int) else K
    vals = [dom.sym('%s%d' % (name, k)) if ch == 'c' else Const(0) for k, ch in enumerate(pat)]
    return Tup(vals, 'list'), [Rat(dom.R.atom('%s%d' % (name, k))) if ch == 'c' else Rat(dom.R.const(0)) for k, ch in enumerate(pat)]


def _len(K):
    return K if isinstance(K, int) else len(K)


def _report(run, rule, f, label, pairs, what):
    bad = ['%s is %s, the explicit sum gives %s' % (nm, got.key()[:110], want.key()[:110]) for nm, got, want in pairs if not (got == want)]
    run.check(not bad, rule, f.qual, 'fixed length: ' + label, what, '%s: %s' % (label, '; '.join(bad[:2])), f.loc())


def jacobi_value(run, db, rule):
    f, f1 = db.func(PJ + 'jacobi_sum_clenshaw'), db.func(PJ + 'jacobi')
    n = 0
    for (a, b) in ((0, 0), (1, 2)):
        for K in LENGTHS:
            it, dom = _interp(db)
            x = dom.coord('x')
            cs, cr = _coefs(dom, 'c', K)
            label = '%s(%s coefficients, alpha=%d, beta=%d)' % (f.name, K, a, b)
            got = _scalar(dom, _one_return(it, dom, f, {'s': cs, 'alpha': Const(a), 'beta': Const(b), 'x': x, 'alphas': Const(None)}, label), label)
            want = Rat(dom.R.const(0))
            for k in range(_len(K)):
                want = want + cr[k] * _mode(it, dom, f1, {'n': Const(k), 'alpha': Const(a), 'beta': Const(b), 'x': x}, 'jacobi(%d)' % k)
            _report(run, rule, f, label, [('the sum', got, want)], 'the Clenshaw sum equals sum_k c_k P_k^(alpha,beta)(x) identically in x and the coefficients')
            n += 1
    return n


def jacobi_der(run, db, rule):
    f, f1 = db.func(PJ + 'jacobi_sum_clenshaw_der'), db.func(PJ + 'jacobi')
    n = 0
    for (a, b) in ((0, 0), (1, 2)):
        for K in LENGTHS:
            it, dom = _interp(db)
            x = dom.coord('x')
            cs, cr = _coefs(dom, 'c', K)
            label = '%s(%s coefficients, alpha=%d, beta=%d, j=3)' % (f.name, K, a, b)
            out = _one_return(it, dom, f, {'s': cs, 'alpha': Const(a), 'beta': Const(b), 'x': x, 'j': Const(3), 'alphas': Const(None)}, label)
            want = Rat(dom.R.const(0))
            for k in range(_len(K)):
                want = want + cr[k] * _mode(it, dom, f1, {'n': Const(k), 'alpha': Const(a), 'beta': Const(b), 'x': x}, 'jacobi(%d)' % k)
            pairs = []
            for jj in range(0, 4):
                pairs.append(('derivative order %d' % jj, _index(dom, out, (jj, 0), label), want))
                want = diff(want, 'x', dom.R)
            _report(run, rule, f, label, pairs, 'row jj of the derivative sums, at index 0, is d^jj/dx^jj of sum_k c_k P_k^(alpha,beta)(x) for jj = 0..3')
            n += 1
    return n


def _qbfs_sum(it, dom, db, cr, u):
    f1 = db.func(PQ + 'Qbfs')
    want = Rat(dom.R.const(0))
    for k in range(len(cr)):
        want = want + cr[k] * _mode(it, dom, f1, {'n': Const(k), 'x': u}, 'Qbfs(%d)' % k)
    return want


def qbfs_value(run, db, rule):
    f = db.func(PQ + 'clenshaw_qbfs')
    n = 0
    for K in LENGTHS:
        it, dom = _interp(db)
        u = dom.coord('u')
        usq = dom.interp.binop(__import__('ast').Mult(), u, u, None)
        cs, cr = _coefs(dom, 'c', K)
        label = '%s(%s coefficients)' % (f.name, K)
        got = _scalar(dom, _one_return(it, dom, f, {'cs': cs, 'usq': usq, 'alphas': Const(None)}, label), label)
        _report(run, rule, f, label, [('the sum', got, _qbfs_sum(it, dom, db, cr, u))], 'the Clenshaw sum equals sum_n c_n Qbfs_n(u) identically (f, g, h opaque)')
        n += 1
    return n


def _z_zprime(run, db, rule, fname, modename, what):
    f, f1 = db.func(PQ + fname), db.func(PQ + modename)
    n = 0
    for K in LENGTHS:
        it, dom = _interp(db)
        u = dom.coord('u')
        usq = dom.interp.binop(__import__('ast').Mult(), u, u, None)
        cs, cr = _coefs(dom, 'c', K)
        label = '%s(%s coefficients)' % (f.name, K)
        out = _one_return(it, dom, f, {'coefs': cs, 'u': u, 'usq': usq}, label)
        if not (isinstance(out, Tup) and len(out.items) == 2):
            raise AnalysisError('%s: does not return (z, zprime): %r' % (label, out))
        z, zp = [_scalar(dom, x, label) for x in out.items]
        want = Rat(dom.R.const(0))
        for k in range(_len(K)):
            want = want + cr[k] * _mode(it, dom, f1, {'n': Const(k), 'x': u}, '%s(%d)' % (modename, k))
        _report(run, rule, f, label, [('the sag', z, want), ('the slope', zp, diff(want, 'u', dom.R))], what)
        n += 1
    return n


def qbfs_zprime(run, db, rule):
    return _z_zprime(run, db, rule, 'compute_z_zprime_Qbfs', 'Qbfs', 'the sag is sum_n c_n Qbfs_n(u) and the slope its derivative with respect to u')


def qcon_zprime(run, db, rule):
    return _z_zprime(run, db, rule, 'compute_z_zprime_Qcon', 'Qcon', 'the sag is sum_n c_n Qcon_n(u) and the slope its derivative with respect to u')


# (lengths of the cosine lists per m = 1.., lengths of the sine lists per m = 1.., length of the m = 0 list)
Q2D_SHAPES = (((2,), (2,), 2), ((5,), (1,), 0), ((1, 3), (2, 0), 3), ((0, 2, 1), (3, 0, 1), 1), ((4,), (5,), 0),
              ((5,), (3,), 0), ((3, 5), (5, 3), 0))          # a shorter family after a longer one (scratch storage reused between sums)


def q2d_zprime(run, db, rule):
    f, f1, f0 = db.func(PQ + 'compute_z_zprime_Q2d'), db.func(PQ + 'Q2d'), db.func(PQ + 'Qbfs')
    n = 0
    for la, lb, l0 in Q2D_SHAPES:
        it, dom = _interp(db)
        u, t = dom.coord('u'), dom.coord('t')
        c0, c0r = _coefs(dom, 'c', l0)
        A = [_coefs(dom, 'a%d_' % (m + 1), k) for m, k in enumerate(la)]
        B = [_coefs(dom, 'b%d_' % (m + 1), k) for m, k in enumerate(lb)]
        label = '%s(m = 0: %d terms; cosine terms per m: %s; sine terms per m: %s)' % (f.name, l0, list(la), list(lb))
        out = _one_return(it, dom, f, {'cm0': c0, 'ams': Tup([x[0] for x in A], 'list'), 'bms': Tup([x[0] for x in B], 'list'), 'u': u, 't': t}, label)
        if not (isinstance(out, Tup) and len(out.items) == 3):
            raise AnalysisError('%s: does not return (z, dr, dt): %r' % (label, out))
        z, dr, dt = [_scalar(dom, x, label) for x in out.items]
        want = Rat(dom.R.const(0))
        for k in range(l0):
            want = want + c0r[k] * _mode(it, dom, f0, {'n': Const(k), 'x': u}, 'Qbfs(%d)' % k)
        for m in range(1, len(la) + 1):
            for sgn, fam in ((1, A), (-1, B)):
                for k, c in enumerate(fam[m - 1][1]):
                    want = want + c * _mode(it, dom, f1, {'n': Const(k), 'm': Const(sgn * m), 'r': u, 't': t}, 'Q2d(%d, %d)' % (k, sgn * m))
        _report(run, rule, f, label, [('the sag', z, want), ('the radial slope', dr, diff(want, 'u', dom.R)), ('the azimuthal slope', dt, diff(want, 't', dom.R))],
                'the sag is sum c^0_n Qbfs_n + sum_m sum_n [a^m_n Q_n^m + b^m_n Q_n^-m] and the slopes its derivatives with respect to u and t, for unequal and empty per-m lists')
        n += 1
    return n


PARTS = {
    'jacobi_sum_clenshaw': jacobi_value, 'jacobi_sum_clenshaw_der': jacobi_der, 'clenshaw_qbfs': qbfs_value,
    'compute_z_zprime_Qbfs': qbfs_zprime, 'compute_z_zprime_Qcon': qcon_zprime, 'compute_z_zprime_Q2d': q2d_zprime,
}


def fixed_rules(run, db, rule, parts=None):
    """{part: obligations} for the parts that were followed; the others are named in the evidence (never a refusal by itself)."""
    done, skipped = {}, []
    for name, fn in PARTS.items():
        if parts is not None and name not in parts:
            continue
        try:
            done[name] = fn(run, db, rule)
        except (AnalysisError, NormError, RecursionError) as e:
            skipped.append('%s (%s)' % (name, str(e)[:140]))
    if skipped and hasattr(run, 'info'):
        run.info('%s: not decided for fixed lengths: %s' % (rule, '; '.join(skipped)))
    return done


def decided(run, db):
    """the fixed-length decision, once per run (under the rule <property>.fixed); {part: obligations}"""
    base = getattr(run, 'run', run)
    cache = base.__dict__.setdefault('_clenshaw_fixed', None)
    if cache is None:
        rule = '%s.fixed' % base.prop
        base.rule(rule, 'for coefficient vectors of fixed length (1, 2, 3, 5 symbolic coefficients; unequal and empty per-m lists) every fast sum equals the explicit sum of coefficient times mode, '
                        'and every derivative output is the symbolic derivative of that sum, identically in the coordinates and coefficients')
        cache = base.__dict__['_clenshaw_fixed'] = fixed_rules(base, db, rule)
    return cache


def with_fallback(group_fn, needs, rule, floor):
    """The induction rules of `group_fn` read one organisation of the routines.  When they cannot read a routine, the group is still
    decided if every routine it covers (`needs`) was followed for the fixed lengths; otherwise the run refuses."""
    def wrapped(run, db):
        done = decided(run, db)
        try:
            group_fn(run, db)
        except (AnalysisError, NormError, AttributeError, IndexError, KeyError, TypeError, ValueError) as e:
            if not isinstance(e, (AnalysisError, NormError)):
                e = AnalysisError('internal error of the induction rule on this tree (%s: %s)' % (type(e).__name__, str(e)[:120]))
            missing = [p for p in needs if p not in done]
            if missing:
                raise AnalysisError('%s; and not decided for fixed lengths either: %s' % (e, ', '.join(missing)))
            run.credit(rule, floor, '%s: the induction does not read this organisation (%s); its routines are decided for fixed lengths' % (group_fn.__name__, str(e)[:160]))
    wrapped.__name__ = group_fn.__name__
    return wrapped
