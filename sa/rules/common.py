"""Helpers shared by the rule modules."""
import ast

from ..core.db import AnalysisError, norm_stmt, walk_no_nested
from ..core.interp import Interp, Const, Tup, Unknown, Value, Obj, FuncRef
from ..core.norm import Ring, Rat, Poly, NormError, _rat, requal
from ..domains.normdom import NormDomain, ArrNormDomain, Sym, Arr, install_pi


def norm_interp(db, domain_cls=ArrNormDomain, **kw):
    dom = domain_cls(**kw)
    it = install_pi(Interp(db, dom))
    return it, dom


def returns(results, fi):
    """Return-paths of a run; fail closed if there are none."""
    out = [p for p in results if p.outcome == 'return']
    if not out:
        raise AnalysisError('no returning path found in %s' % fi.qual)
    return out


def as_rat(dom, v, what):
    r = dom.rat(v)
    if r is None:
        raise AnalysisError('%s is outside the NORM fragment: %r' % (what, v))
    return r


def same(dom, a, b):
    """NORM equality of two values (Sym/Const) -> bool; AnalysisError if not scalar."""
    ra, rb = dom.rat(a), dom.rat(b)
    if ra is None or rb is None:
        raise AnalysisError('cannot compare %r and %r' % (a, b))
    return ra == rb


def show(dom, v):
    if isinstance(v, Arr):
        return '[' + ', '.join(show(dom, x) for x in v.data) + ']'
    r = dom.rat(v)
    return r.key() if r is not None else repr(v)


def find_calls(fi, pred):
    """Call nodes in fi whose func text satisfies pred(text)."""
    out = []
    for n in walk_no_nested(fi.node):
        if isinstance(n, ast.Call) and pred(ast.unparse(n.func)):
            out.append(n)
    return out


def kwarg(call, name, pos=None):
    for k in call.keywords:
        if k.arg == name:
            return k.value
    if pos is not None and pos < len(call.args):
        return call.args[pos]
    return None


def stmts_of(fi):
    """All statements of a function body, flattened (no nested defs)."""
    out = []
    for n in walk_no_nested(fi.node):
        if isinstance(n, ast.stmt) and n is not fi.node:
            out.append(n)
    out.sort(key=lambda s: (s.lineno, s.col_offset))
    return out


# --------------------------------------------------------------------------
def _loads(node):
    """Names read by an expression/statement header, excluding names bound by comprehensions/lambdas inside it."""
    if node is None:
        return set()
    bound = set()
    for n in ast.walk(node):
        if isinstance(n, ast.comprehension):
            for x in ast.walk(n.target):
                if isinstance(x, ast.Name):
                    bound.add(x.id)
        elif isinstance(n, ast.Lambda):
            for a in n.args.args:
                bound.add(a.arg)
    return {n.id for n in ast.walk(node) if isinstance(n, ast.Name) and isinstance(n.ctx, ast.Load)} - bound


def _store_names(target):
    return {n.id for n in ast.walk(target) if isinstance(n, ast.Name) and isinstance(n.ctx, ast.Store)}


def _terminates(stmts):
    return bool(stmts) and isinstance(stmts[-1], (ast.Break, ast.Continue, ast.Return, ast.Raise))


def upward_exposed(stmts, defined=frozenset()):
    """(names that may be read before being assigned on some path through stmts, names definitely assigned after)."""
    exposed = set()
    defined = set(defined)

    def use(node):
        exposed.update(_loads(node) - defined)

    for st in stmts:
        if isinstance(st, ast.Assign):
            use(st.value)
            for t in st.targets:
                if not isinstance(t, ast.Name):
                    # subscript / attribute / tuple targets read their bases and indices
                    for x in ast.walk(t):
                        if isinstance(x, (ast.Subscript, ast.Attribute)):
                            use(x)
                defined |= _store_names(t)
        elif isinstance(st, ast.AugAssign):
            use(st.value)
            use(st.target)
            if isinstance(st.target, ast.Name):
                exposed.update({st.target.id} - defined)
                defined.add(st.target.id)
        elif isinstance(st, ast.AnnAssign):
            use(st.value)
            defined |= _store_names(st.target)
        elif isinstance(st, (ast.Expr, ast.Return)):
            use(st.value)
        elif isinstance(st, ast.If):
            use(st.test)
            e1, d1 = upward_exposed(st.body, defined)
            e2, d2 = upward_exposed(st.orelse, defined)
            exposed |= e1 | e2
            live = [d for d, blk in ((d1, st.body), (d2, st.orelse)) if not _terminates(blk)]
            if live:
                defined = set.intersection(*[set(d) for d in live])
        elif isinstance(st, (ast.For, ast.While)):
            if isinstance(st, ast.For):
                use(st.iter)
                inner = defined | _store_names(st.target)
            else:
                use(st.test)
                inner = defined
            e1, _ = upward_exposed(st.body, inner)
            e2, _ = upward_exposed(st.orelse, defined)
            exposed |= e1 | e2                                  # the body may run zero times: nothing becomes defined
        elif isinstance(st, ast.With):
            for item in st.items:
                use(item.context_expr)
                if item.optional_vars is not None:
                    defined |= _store_names(item.optional_vars)
            e1, defined = upward_exposed(st.body, defined)
            exposed |= e1
        elif isinstance(st, ast.Try):
            e1, d1 = upward_exposed(st.body, defined)
            exposed |= e1
            for h in st.handlers:
                e, _ = upward_exposed(h.body, defined)
                exposed |= e
            e, _ = upward_exposed(st.orelse, d1)
            exposed |= e
            e, _ = upward_exposed(st.finalbody, defined)
            exposed |= e
        elif isinstance(st, (ast.Raise, ast.Assert, ast.Delete)):
            for x in ast.iter_child_nodes(st):
                use(x)
    return exposed, defined


def loop_carried(loop):
    """Names whose value in one iteration of `loop` may come from an earlier iteration:
    read before being assigned on some path through the body, and assigned somewhere in the body."""
    inner = _store_names(loop.target) if isinstance(loop, ast.For) else set()
    exposed, _ = upward_exposed(loop.body, inner)
    assigned = set()
    for st in loop.body:
        for n in ast.walk(st):
            if isinstance(n, ast.Name) and isinstance(n.ctx, ast.Store):
                assigned.add(n.id)
    return (exposed & assigned) - inner


ENTRY = 'ENTRY'


def reaching_at_end(stmts, name, cur=None):
    """Definitions of `name` that may reach the end of the block: a set of AST nodes (Assign/AugAssign/For) and/or ENTRY
    (the value the name had on entry)."""
    cur = {ENTRY} if cur is None else set(cur)
    for st in stmts:
        if isinstance(st, (ast.Assign, ast.AnnAssign)):
            targets = st.targets if isinstance(st, ast.Assign) else [st.target]
            if any(name in _store_names(t) for t in targets):
                cur = {st}
        elif isinstance(st, ast.AugAssign):
            if isinstance(st.target, ast.Name) and st.target.id == name:
                cur = {st}
        elif isinstance(st, ast.If):
            outs = []
            for blk in (st.body, st.orelse):
                r = reaching_at_end(blk, name, cur)
                if not _terminates(blk):
                    outs.append(r)
            cur = set().union(*outs) if outs else set()
        elif isinstance(st, (ast.For, ast.While)):
            start = set(cur)
            if isinstance(st, ast.For) and name in _store_names(st.target):
                inner = reaching_at_end(st.body, name, {st})
                cur = start | {st} | inner
            else:
                inner = reaching_at_end(st.body, name, start)
                inner = reaching_at_end(st.body, name, start | inner)
                cur = start | inner
        elif isinstance(st, ast.With):
            cur = reaching_at_end(st.body, name, cur)
        elif isinstance(st, ast.Try):
            a = reaching_at_end(st.body, name, cur)
            outs = [reaching_at_end(st.orelse, name, a)]
            for h in st.handlers:
                outs.append(reaching_at_end(h.body, name, cur | a))
            cur = set().union(*outs)
            cur = reaching_at_end(st.finalbody, name, cur)
    return cur


# --------------------------------------------------------------------------
class LoopSnap:
    """State at the head of a loop, recorded by `snapshot_loops`."""

    def __init__(self, node, env, conds):
        self.node, self.env, self.conds = node, env, conds


def snapshot_loops(it, dom, pick=None, prefix='post_'):
    """Install a loop hook: at every For/While (selected by pick(node)) record the environment and path conditions, then
    replace every name the loop assigns by a fresh symbol `post_<name>` and skip the loop.  Returns the list that fills up
    with LoopSnap objects during the next runs (cleared by the caller between runs)."""
    snaps = []

    def loop(node, frame):
        if pick is not None and not pick(node):
            return False
        snaps.append(LoopSnap(node, dict(frame.env), list(it.conds)))
        from ..core.interp import DictV
        for st in node.body:
            for n in ast.walk(st):
                if isinstance(n, ast.Name) and isinstance(n.ctx, ast.Store):
                    frame.env[n.id] = dom.sym(prefix + n.id)
                elif isinstance(n, ast.Subscript) and isinstance(n.value, ast.Name) and isinstance(frame.env.get(n.value.id), DictV):
                    frame.env[n.value.id].open = True          # a dict the skipped loop reads with default / fills: its keys are not known
        if isinstance(node, ast.For):
            for n in ast.walk(node.target):
                if isinstance(n, ast.Name):
                    frame.env[n.id] = dom.sym(prefix + n.id)
        return True
    dom.loop = loop
    return snaps


def loop_as_function(fi, loop, results, name=None):
    """A FuncInfo whose body is one iteration of `loop`: parameters are the names the body reads before assigning them
    (plus the loop target), `continue` returns, and the function returns the tuple of `results` (names; a name that is
    unbound on a path is returned as None via a preset)."""
    import copy
    from ..core.db import FuncInfo
    body = copy.deepcopy(loop.body)
    exposed, _ = upward_exposed(loop.body, frozenset())
    # local closures of the enclosing function that the body calls are defined again inside the generated function (their free
    # names -- the lists they append to, the grids they read -- become parameters like every other name read before assignment)
    used = {n.id for st in loop.body for n in ast.walk(st) if isinstance(n, ast.Name)}
    closures = [st for st in fi.node.body if isinstance(st, ast.FunctionDef) and st.name in used]
    for cdef in closures:
        own = {a.arg for a in cdef.args.args + cdef.args.kwonlyargs} | {n.id for n in ast.walk(cdef) if isinstance(n, ast.Name) and isinstance(n.ctx, ast.Store)}
        free = {n.id for n in ast.walk(cdef) if isinstance(n, ast.Name) and isinstance(n.ctx, ast.Load)} - own
        exposed = (set(exposed) | free) - {cdef.name}
    body = [copy.deepcopy(c) for c in closures] + body
    tgt = sorted(_store_names(loop.target)) if isinstance(loop, ast.For) else []
    mod = fi.module
    global_names = set(getattr(mod, 'functions', {})) | set(getattr(mod, 'imports', {})) | set(getattr(mod, 'classes', {})) | set(getattr(mod, 'assigns', {}))
    local_assigned = {n.id for n in ast.walk(fi.node) if isinstance(n, ast.Name) and isinstance(n.ctx, ast.Store)} | set(fi.params)
    params = sorted(((exposed & local_assigned) | set(tgt) | set(results)) - set(dir(__import__('builtins'))) - (global_names - local_assigned))
    ret = lambda: ast.Return(value=ast.Tuple(elts=[ast.Name(id=r, ctx=ast.Load()) for r in results], ctx=ast.Load()))

    class T(ast.NodeTransformer):
        def visit_For(self, node):
            return node                      # a continue inside a nested loop belongs to that loop

        visit_While = visit_For

        def visit_Continue(self, node):
            return ast.copy_location(ret(), node)
    body = [T().visit(st) for st in body]
    body.append(ast.copy_location(ret(), loop))
    fn = ast.FunctionDef(name=name or (fi.name + '__loop%d' % loop.lineno), args=ast.arguments(posonlyargs=[], args=[ast.arg(arg=p) for p in params], vararg=None, kwonlyargs=[], kw_defaults=[], kwarg=None, defaults=[]),
                         body=body, decorator_list=[], returns=None, type_comment=None)
    ast.copy_location(fn, loop)
    ast.fix_missing_locations(fn)
    out = FuncInfo(fi.module, fi.qual + '#loop%d' % loop.lineno, fn, cls=fi.cls)
    return out, params


def block_as_function(fi, stmts, results, name='block'):
    """A FuncInfo whose body is the statement list `stmts` (taken from fi): parameters are the names read before being
    assigned, it returns the tuple of `results`."""
    import copy
    from ..core.db import FuncInfo
    body = copy.deepcopy(list(stmts))
    exposed, _ = upward_exposed(stmts, frozenset())
    mod = fi.module
    global_names = set(getattr(mod, 'functions', {})) | set(getattr(mod, 'imports', {})) | set(getattr(mod, 'classes', {})) | set(getattr(mod, 'assigns', {}))
    local_assigned = {n.id for n in ast.walk(fi.node) if isinstance(n, ast.Name) and isinstance(n.ctx, ast.Store)} | set(fi.params)
    params = sorted(((exposed & local_assigned) | set(results)) - set(dir(__import__('builtins'))) - (global_names - local_assigned))
    body.append(ast.Return(value=ast.Tuple(elts=[ast.Name(id=r, ctx=ast.Load()) for r in results], ctx=ast.Load())))
    fn = ast.FunctionDef(name='%s__%s' % (fi.name, name), args=ast.arguments(posonlyargs=[], args=[ast.arg(arg=p) for p in params], vararg=None, kwonlyargs=[], kw_defaults=[], kwarg=None, defaults=[]),
                         body=body, decorator_list=[], returns=None, type_comment=None)
    ast.copy_location(fn, stmts[0])
    ast.fix_missing_locations(fn)
    return FuncInfo(fi.module, '%s#%s' % (fi.qual, name), fn, cls=fi.cls), params


def every_pass_executes(stmts, pred, passed=False):
    """Does every path through one pass of a loop body (to its end or to a `continue`) execute a statement satisfying
    pred?  Returns (ok, passed_at_end); `break`/`return`/`raise` paths leave the loop and are not constrained."""
    ok = True
    for st in stmts:
        if pred(st):
            passed = True
        elif isinstance(st, ast.Continue):
            return (ok and passed), passed
        elif isinstance(st, (ast.Break, ast.Return, ast.Raise)):
            return ok, True
        elif isinstance(st, ast.If):
            o1, p1 = every_pass_executes(st.body, pred, passed)
            o2, p2 = every_pass_executes(st.orelse, pred, passed)
            ok = ok and o1 and o2
            passed = p1 and p2
        elif isinstance(st, (ast.With,)):
            o1, passed = every_pass_executes(st.body, pred, passed)
            ok = ok and o1
        elif isinstance(st, ast.Try):
            o1, p1 = every_pass_executes(st.body, pred, passed)
            ok = ok and o1
            for h in st.handlers:
                o2, _ = every_pass_executes(h.body, pred, passed)
                ok = ok and o2
            passed = passed     # a handler may have skipped the body
    return ok, passed


class SweepStep:
    """One iteration of a recurrence loop with the roles of its names read off their values at loop entry, not their
    spelling: `roles` maps role -> local name (None when no carried name enters with that role's value), `after` maps
    every name the body assigns to its value after one iteration started from symbols in_<role>, `fresh` are the names
    assigned in the body that are not carried, `var` the loop variable."""

    def __init__(self, roles, carried, fresh, after, var, entry):
        self.roles, self.carried, self.fresh, self.after, self.var, self.entry = roles, carried, fresh, after, var, entry

    def role_of(self, name):
        for r, nm in self.roles.items():
            if nm == name:
                return r
        return None

    def out(self, role):
        nm = self.roles.get(role)
        return self.after.get(nm) if nm is not None else None

    def fresh_equal(self, dom, want):
        """fresh (or carried) names whose value after the iteration equals `want`."""
        hits = []
        for nm, v in self.after.items():
            r = dom.rat(v) if v is not None else None
            if r is not None and r == want:
                hits.append(nm)
        return hits


def sweep_step(it, dom, fi, sn, wants, var_atom='nn', given=None, prefix='in_'):
    sws = sweep_steps(it, dom, fi, sn, wants, var_atom, given, prefix)
    if len(sws) != 1:
        from ..core.db import AnalysisError
        raise AnalysisError('%s: one iteration of the loop at line %d has %d paths' % (fi.qual, sn.node.lineno, len(sws)))
    return sws[0]


def sweep_steps(it, dom, fi, sn, wants, var_atom='nn', given=None, prefix='in_'):
    """Analyse one iteration of the loop snapshot `sn` of function `fi` (see SweepStep).  `wants` maps role -> the Rat a
    carried name must hold at loop entry to play that role.  Names that are not carried keep the value they had at loop
    entry (or `given[name]`), the loop variable becomes the symbol `var_atom`."""
    from ..core.db import AnalysisError
    from ..core.interp import Const
    loop = sn.node
    carried = sorted(loop_carried(loop))
    entry = {nm: (dom.rat(sn.env[nm]) if nm in sn.env else None) for nm in carried}
    roles = {}
    taken = set()
    for role, w in wants.items():
        hits = [nm for nm in carried if nm not in taken and nm not in (given or {}) and entry[nm] is not None and entry[nm] == w]
        roles[role] = hits[0] if len(hits) == 1 else None
        if roles[role] is not None:
            taken.add(roles[role])
    inner = _store_names(loop.target) if isinstance(loop, ast.For) else set()
    assigned = set()
    for st in loop.body:
        for n in ast.walk(st):
            if isinstance(n, ast.Name) and isinstance(n.ctx, ast.Store):
                assigned.add(n.id)
    fresh = sorted(assigned - set(carried) - inner)
    outs = carried + fresh
    step, params = loop_as_function(fi, loop, outs)
    kw = {}
    given = given or {}
    for pn in params:
        if pn in given:
            kw[pn] = given[pn]
        elif pn in carried:
            rl = next((r for r, nm in roles.items() if nm == pn), None)
            kw[pn] = dom.sym(prefix + (rl if rl is not None else '?' + pn))
        elif pn in inner:
            kw[pn] = dom.sym(var_atom)
        elif pn in fresh:
            kw[pn] = Const(None)
        elif pn in sn.env:
            kw[pn] = sn.env[pn]
        else:
            kw[pn] = dom.sym(pn)
    saved = dom.__dict__.pop('loop', None)           # the snapshot hook must not swallow loops nested in the body
    try:
        rs = [q for q in it.run(step, kwargs=lambda: dict(kw)) if q.outcome == 'return']
    finally:
        if saved is not None:
            dom.loop = saved
    var = sorted(inner)[0] if inner else None
    out = []
    for q in rs:
        sw = SweepStep(roles, carried, fresh, dict(zip(outs, q.value.items)), var, entry)
        sw.conds = list(q.conds)
        out.append(sw)
    return out


def post_atoms(rat, prefix='post_'):
    """names X for which the symbol post_X (value of X after a skipped loop, see snapshot_loops) occurs in `rat`."""
    out = set()
    for a in rat.atoms():
        if isinstance(a, str) and a.startswith(prefix):
            out.add(a[len(prefix):])
    return out


def degree_local(fi):
    """The local bound to len(<coefficients>) - 1 (the degree of a sum), whatever it is called."""
    from ..core.pattern import find
    from ..core.db import AnalysisError
    names = sorted({b['V_M'] for b, _ in find(fi.node, 'V_M = len(E_s) - 1')})
    if len(names) != 1:
        raise AnalysisError('%s: the degree local (bound to len(coefficients) - 1) was not found uniquely: %s' % (fi.qual, names))
    return names[0]


def reachable_calls(db, fi, depth=4):
    """Names of everything `fi` calls, directly or through prysm functions / methods of its own class it calls (helpers
    extracted during a clean-up are looked through): a set of callee names as written (`fftrange`, `np.meshgrid`,
    `self._build`), plus the bare names of resolved prysm callees."""
    from ..core.db import walk_no_nested
    seen, out = set(), set()

    def rec(f, d):
        if f.qual in seen or d < 0:
            return
        seen.add(f.qual)
        for n in walk_no_nested(f.node):
            if not isinstance(n, ast.Call):
                continue
            txt = ast.unparse(n.func)
            out.add(txt)
            g = None
            if isinstance(n.func, ast.Name):
                r = db.resolve_name(f.module, n.func.id)
                g = r if hasattr(r, 'node') and hasattr(r, 'qual') and isinstance(getattr(r, 'node', None), ast.FunctionDef) else None
            elif isinstance(n.func, ast.Attribute) and isinstance(n.func.value, ast.Name) and n.func.value.id in ('self', 'cls') and f.cls is not None:
                g = db.method(f.cls, n.func.attr)
            if g is not None:
                out.add(g.name)
                rec(g, d - 1)
        # a prysm function handed on as a value (map(helper, ...), functools.partial(helper, ...), a dispatch table entry) is reached too
        for n in walk_no_nested(f.node):
            if isinstance(n, ast.Name) and isinstance(n.ctx, ast.Load):
                r = db.resolve_name(f.module, n.id)
                if hasattr(r, 'qual') and isinstance(getattr(r, 'node', None), ast.FunctionDef) and r.qual not in seen:
                    out.add(r.name)
                    rec(r, d - 1)
    rec(fi, depth)
    return out


def executed_calls(db, fi, max_paths=200):
    """Names of the prysm functions that interpreting `fi` reaches on some path (through properties, getattr by name, closures, bound
    helpers -- whatever the interpreter follows), with every argument unknown and, for a method, an object whose attributes are
    unknown.  A second source next to `reachable_calls` (which reads names off the syntax tree)."""
    from ..core.interp import Interp, Domain, Obj, Unknown, Const
    seen = set()

    class D(Domain):
        def call_prysm(self, f, args, kwargs, node):
            seen.add(f.name)
            return None

        def getattr(self, v, name, node):
            if isinstance(v, Obj) and name.startswith('_') and not name.startswith('__'):
                return Const(None)            # a cache slot that has not been filled yet
            return None
    it = Interp(db, D())
    it.MAX_PATHS = max_paths
    so = (lambda: Obj(fi.cls)) if fi.cls is not None and fi.params and fi.params[0] == 'self' else None
    try:
        it.run(fi, kwargs=lambda: {p_: Unknown('argument') for p_ in fi.params if p_ not in ('self', 'cls')}, self_obj=so)
    except AnalysisError:
        pass
    return seen


def bind_call(fi, args, kwargs):
    """The values a call binds to the parameters of `fi` (positional then keyword): {parameter name: value}."""
    from ..core.interp import Obj
    params = list(fi.params)
    args = list(args)
    if fi.cls is not None and params and params[0] in ('self', 'cls') and 'staticmethod' not in getattr(fi, 'decorators', ()):
        params = params[1:]
        if args and isinstance(args[0], Obj):
            args = args[1:]          # the receiver of a bound method call
    out = {}
    for p, a in zip(params, args):
        out[p] = a
    for k, v in kwargs.items():
        out[k] = v
    return out


def capture_calls(it, dom, f, kwargs, callees, result, self_obj=None):
    """Interpret `f` with the prysm functions named in `callees` (qualified names) summarised: every call is recorded as
    (callee FuncInfo, {parameter: value}, call node, path conditions) whatever way the arguments are passed (positionally, by
    keyword, through **dict), and evaluates to result(fi, bound).  Returns (paths, calls)."""
    calls = []
    orig = dom.call_prysm

    def call_prysm(fi, args, kw, node):
        if fi.qual in callees:
            b = bind_call(fi, args, kw)
            calls.append((fi, b, node, list(it.conds)))
            return result(fi, b)
        return orig(fi, args, kw, node) if orig else None
    dom.call_prysm = call_prysm
    try:
        paths = list(it.run(f, kwargs=kwargs, self_obj=self_obj))
    finally:
        dom.call_prysm = orig
    return paths, calls


def descending_sweep(it, dom, iter_node, frame):
    """(first index, last index) of a loop that walks indices downwards, for the spellings range(a, b, -1),
    reversed(range(n)) and reversed(range(lo, hi)); None if the iterable is none of these."""
    from ..core.norm import Rat
    one = Rat(dom.R.const(1))
    if isinstance(iter_node, ast.Call) and ast.unparse(iter_node.func) == 'range' and len(iter_node.args) == 3:
        a, b, st = [dom.rat(it.ev(x, frame)) for x in iter_node.args]
        if a is None or b is None or st is None or st != -one:
            return None
        return a, b + 1
    if isinstance(iter_node, ast.Call) and ast.unparse(iter_node.func) == 'reversed' and len(iter_node.args) == 1:
        r = iter_node.args[0]
        if isinstance(r, ast.Call) and ast.unparse(r.func) == 'range' and len(r.args) in (1, 2):
            vals = [dom.rat(it.ev(x, frame)) for x in r.args]
            if any(v is None for v in vals):
                return None
            lo, hi = (Rat(dom.R.const(0)), vals[0]) if len(vals) == 1 else vals
            return hi - 1, lo
    return None
