"""Helpers shared by the rule modules."""
import ast

from ..core.db import AnalysisError, norm_stmt, walk_no_nested
from ..core.interp import Interp, Const, Tup, Unknown, Value, Obj, FuncRef
from ..core.norm import Ring, Rat, Poly, NormError, _rat, requal
from ..domains.normdom import NormDomain, ArrNormDomain, Sym, Arr, install_pi


def norm_interp(db, domain_cls=ArrNormDomain, **kw):
    dom = domain_cls(**kw)
    it = install_pi(Interp(db, dom))
    return it, dom


def returns(results, fi):
    """Return-paths of a run; fail closed if there are none."""
    out = [p for p in results if p.outcome == 'return']
    if not out:
        raise AnalysisError('no returning path found in %s' % fi.qual)
    return out


def as_rat(dom, v, what):
    r = dom.rat(v)
    if r is None:
        raise AnalysisError('%s is outside the NORM fragment: %r' % (what, v))
    return r


def same(dom, a, b):
    """NORM equality of two values (Sym/Const) -> bool; AnalysisError if not scalar."""
    ra, rb = dom.rat(a), dom.rat(b)
    if ra is None or rb is None:
        raise AnalysisError('cannot compare %r and %r' % (a, b))
    return ra == rb


def show(dom, v):
    if isinstance(v, Arr):
        return '[' + ', '.join(show(dom, x) for x in v.data) + ']'
    r = dom.rat(v)
    return r.key() if r is not None else repr(v)


def find_calls(fi, pred):
    """Call nodes in fi whose func text satisfies pred(text)."""
    out = []
    for n in walk_no_nested(fi.node):
        if isinstance(n, ast.Call) and pred(ast.unparse(n.func)):
            out.append(n)
    return out


def kwarg(call, name, pos=None):
    for k in call.keywords:
        if k.arg == name:
            return k.value
    if pos is not None and pos < len(call.args):
        return call.args[pos]
    return None


def stmts_of(fi):
    """All statements of a function body, flattened (no nested defs)."""
    out = []
    for n in walk_no_nested(fi.node):
        if isinstance(n, ast.stmt) and n is not fi.node:
            out.append(n)
    out.sort(key=lambda s: (s.lineno, s.col_offset))
    return out
