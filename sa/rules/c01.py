"""C01 -- the three transform routes compute the same transform."""
import ast

from ..core.db import AnalysisError, norm_stmt, walk_no_nested
from ..core.interp import Interp, Const, Tup, Unknown, Obj, Slice
from ..core.norm import Rat
from ..domains.index import Shaped, parity_classes, ptxt
from ..domains.kernel import Vec, Mat, PieceVec, Prod2
from ..domains.origin import OriginDomain, Og, Real, half as ohalf, Ix
from ..domains.normdom import Sym
from . import ftkernels as K
from .purity import memo_inplace, input_mutations
import re


def label(text):
    t = text.split(' = ')[0].split(' ==')[0]
    t = re.sub(r'\[.*\]', '', t)
    t = re.sub(r'\(.*\)', '', t)
    return ' '.join(t.split())[:70]


FT = 'prysm.fttools.'


SHIFTS = [(True, True), (True, False), (False, True), (False, False)]


def ctx(dom, sh=(True, True), alias=None):
    """sh = (x shifted?, y shifted?): a requested shift is a non-zero symbol, no shift is the literal 0.
    alias maps the canonical names (n0, n1, M0, M1, Q0, Q1, sx, sy) to the symbols actually used, so that a context can
    identify quantities of the two axes (a square problem)."""
    a = lambda k: (alias or {}).get(k, k)
    dom.nonzero = {a('sx'), a('sy')}
    return {'ary': dom.array('ary', a('n0'), a('n1')), 'Q': Tup([dom.sym(a('Q0')), dom.sym(a('Q1'))]),
            'samples_out': Tup([dom.length(a('M0')), dom.length(a('M1'))]),
            'shift': Tup([dom.sym(a('sx')) if sh[0] else Const(0), dom.sym(a('sy')) if sh[1] else Const(0)])}


watch_coincidences = K.watch_coincidences


SQUARE = [
    ('square lengths and shifts, per-axis Q', {'n1': 'n0', 'M1': 'M0', 'sx': 'sy'}),
    ('square in everything', {'n1': 'n0', 'M1': 'M0', 'sx': 'sy', 'Q1': 'Q0'}),
]


def shift_taken(p, i):
    """Was the `shift[i] != 0` / `shift != 0` branch taken on this path (per axis)?"""
    return None


def mdft_rules(run, db):
    it, dom = K.mk(db, {})
    R = dom.R
    I, pi = Rat(R.I), Rat(R.atom('pi'))
    mk = K.executor(db, it, 'MatrixDFTExecutor')
    for meth, sign in (('dft2', -1), ('idft2', +1)):
        f = db.func(FT + 'MatrixDFTExecutor.' + meth)
        for sh in SHIFTS:
            res = [p for p in it.run(f, kwargs=lambda: ctx(dom, sh), self_obj=mk) if p.outcome == 'return']
            if len(res) != 1:
                raise AnalysisError('%s: expected one path per shift context, got %d' % (f.qual, len(res)))
            p = res[0]
            v = p.value
            # a scalar applied to the product (a normalisation moved out of the matrices) is part of the normalisation
            outer = Rat(R.const(1))
            while isinstance(v, Shaped) and not isinstance(v, Prod2) and v.origin is not None and v.origin[0] == 'scale' and v.origin[1] in ('Mult', 'Div'):
                sc = dom.rat(v.origin[3])
                if sc is None:
                    raise AnalysisError('%s: the product is scaled by something that is not followed (%r)' % (f.qual, v.origin[3]))
                if v.origin[1] == 'Div' and v.origin[4]:
                    raise AnalysisError('%s: a scalar is divided by the product' % f.qual)
                outer = outer * sc if v.origin[1] == 'Mult' else outer / sc
                v = v.origin[2]
            if not (isinstance(v, Prod2) and isinstance(v.left, Mat) and isinstance(v.right, Mat) and isinstance(v.arr, Shaped) and v.arr.label == 'ary'):
                raise AnalysisError('%s: result is not Eout @ ary @ Ein on path %s: %r' % (f.qual, p.conds, v))
            n0, n1, M0, M1 = [dom.length(x) for x in ('n0', 'n1', 'M0', 'M1')]
            sx_taken, sy_taken = sh
            k0 = sign * 2 * pi * I / (K.R_(dom, n0) * Rat(R.atom('Q0')))
            k1 = sign * 2 * pi * I / (K.R_(dom, n1) * Rat(R.atom('Q1')))
            zero = Const(0)
            spec0 = K.AxisSpec(n0, M0, k0, dom.sym('sy') if sy_taken else zero, '0 (rows/Y)')
            spec1 = K.AxisSpec(n1, M1, k1, dom.sym('sx') if sx_taken else zero, '1 (cols/X)')
            facs = []
            for mat, spec, in_rows, taken in ((v.left, spec0, False, sy_taken), (v.right, spec1, True, sx_taken)):
                obs, fac = K.check_dft_matrix(dom, mat, spec, in_rows, taken)
                facs.append(fac)
                for ok, text in obs:
                    run.check(ok, 'C01.kernel', f.qual, '%s: %s' % (meth, label(text)), text + ' [%s]' % ('shift' if taken else 'no shift'),
                              text + ' (%s)' % ('shift requested' if taken else 'no shift'), f.loc())
            if all(x is not None for x in facs):
                prod = facs[0] * facs[1] * outer
                want = 1 / (K.R_(dom, n0) * Rat(R.atom('Q0')) * K.R_(dom, n1) * Rat(R.atom('Q1')))
                run.check(prod * prod == want and K.is_real(dom, prod), 'C01.norm', f.qual, '%s normalisation' % meth,
                          '(normx normy)^2 == 1/(n0 Q0 n1 Q1)', 'normalisation^2 = %s, expected %s' % ((prod * prod).key(), want.key()), f.loc())


def _czt_rules_reading(run, db):
    f = db.func(FT + 'ChirpZTransformExecutor.czt2')
    for par in parity_classes(['n0', 'n1', 'M0', 'M1']):
        it, dom = K.mk(db, par)
        mk = K.executor(db, it, 'ChirpZTransformExecutor')
        watch_coincidences(it, dom)
        for sh in SHIFTS:
            res = [p for p in it.run(f, kwargs=lambda: ctx(dom, sh), self_obj=mk) if p.outcome == 'return']
            res = [p for p in res if not any(e['kind'] == 'coincidence' for e in p.events)]
            if len(res) != 1:
                raise AnalysisError('czt2: expected one path per shift context, got %d' % len(res))
            czt_path(run, f, dom, res[0], par, sh)
    # square problems: quantities of the two axes identified (a shortcut taken "when the axes agree" is judged here)
    for label_, alias in SQUARE:
        for par in parity_classes(['n0', 'M0']):
            it, dom = K.mk(db, par)
            watch_coincidences(it, dom)
            mk = K.executor(db, it, 'ChirpZTransformExecutor')
            for sh in ((True, True), (False, False)):
                res = [p for p in it.run(f, kwargs=lambda: ctx(dom, sh, alias), self_obj=mk) if p.outcome == 'return']
                res = [p for p in res if not any(e['kind'] == 'coincidence' for e in p.events)]
                if len(res) != 1:
                    raise AnalysisError('czt2 (%s): expected one path, got %d' % (label_, len(res)))
                czt_path(run, f, dom, res[0], dict(par, n1=par['n0'], M1=par['M0']), sh, tag='[%s] ' % label_, alias=alias)


def czt_path(run, f, dom, p, par, sh, alpha_of=None, tag='', alias=None):
    R = dom.R
    al = lambda k: (alias or {}).get(k, k)
    pre, filt, post, ffts = K.czt_events(dom, p)
    lens = {k: dom.length(al(k)) for k in ('n0', 'n1', 'M0', 'M1')}
    byaxis = {}
    for group, nm in ((pre, 'pre-chirp'), (filt, 'filter'), (post, 'post-chirp')):
        if len(group) != 2:
            raise AnalysisError('czt2: expected two %s multiplies, found %d' % (nm, len(group)))
        axes = sorted(K.vec_axis(e['vec']) for e in group)
        run.check(axes == [0, 1], 'C01.axis', f.qual, nm + ' orientation', '%s: one column-vector (axis 0) and one row-vector (axis 1) multiply' % nm,
                  '%s multiplies broadcast along axes %s, expected one per axis' % (nm, axes), f.loc(group[0]['node']))
        for e in group:
            byaxis.setdefault(K.vec_axis(e['vec']), {})[nm] = e['vec']
    s = ffts[0]['s']
    if not (isinstance(s, Tup) and len(s.items) == 2):
        raise AnalysisError('czt2: fft2 is not given an explicit (K, L) size')
    crop = [e for e in p.events if e['kind'] == 'subscript' and isinstance(e['target'], Shaped) and e['target'].label == 'ifft2']
    if len(crop) != 1:
        raise AnalysisError('czt2: expected one crop of the inverse FFT')
    cidx = crop[0]['index']
    for ax in (0, 1):
        N, M = lens['n%d' % ax], lens['M%d' % ax]
        if alpha_of is None:
            alpha = 1 / (K.R_(dom, N) * Rat(R.atom(al('Q%d' % ax))))
        else:
            alpha = alpha_of(ax)
        taken = sh[1] if ax == 0 else sh[0]
        shiftv = dom.sym(al('sy' if ax == 0 else 'sx')) if taken else Const(0)
        Kax = s.items[ax]
        want_len = dom.func_atom('next_fast_len', [Sym(K.R_(dom, N) + K.R_(dom, M) - 1)])
        run.check(dom.rat(Kax) is not None and K.R_(dom, Kax) == want_len.r, 'C01.axis', f.qual, 'fft size axis %d' % ax,
                  'FFT length of axis %d is next_fast_len(n+M-1) of that axis' % ax,
                  'FFT length of axis %d is %r, expected next_fast_len(n%d + M%d - 1)' % (ax, Kax, ax, ax), f.loc(ffts[0]['node']))
        sl = cidx.items[ax] if isinstance(cidx, Tup) and len(cidx.items) == 2 else None
        okc = isinstance(sl, Slice) and isinstance(sl.lo, Const) and sl.lo.v is None and dom.rat(sl.hi) is not None and K.R_(dom, sl.hi) == K.R_(dom, M)
        run.check(okc, 'C01.axis', f.qual, 'crop axis %d' % ax, 'crop [:M%d] on axis %d' % (ax, ax), 'crop of axis %d is %r, expected [:M%d]' % (ax, sl, ax), f.loc(crop[0]['node']))
        d = byaxis.get(ax, {})
        spec = K.AxisSpec(N, M, None, shiftv, str(ax))
        obs = K.check_czt_axis(dom, d.get('pre-chirp'), d.get('filter'), d.get('post-chirp'), spec, alpha, Kax, norm=True, shift_taken=taken)
        for ok, text in obs:
            run.check(ok, 'C01.chirp', f.qual, tag + 'chirp-Z ' + label(text),
                      text + ' [%s; %s]' % (ptxt(par), 'shift' if taken else 'no shift'),
                      text + ' for %s (%s)' % (ptxt(par), 'shift requested' if taken else 'no shift'), f.loc())


def _shift_in(dom, vec, shiftv):
    """Does the shift symbol of this axis occur in the post-chirp (i.e. was `shift != 0` taken)?"""
    if not isinstance(vec, Vec):
        return False
    r = dom.rat(vec.elem)
    if r is None:
        return False
    (name,) = [a for a in dom.rat(shiftv).atoms()]
    txt = r.key()
    return name in txt


def _iczt_rule_reading(run, db):
    f = db.func(FT + 'ChirpZTransformExecutor.iczt2')
    it, dom = K.mk(db, {})
    mk = K.executor(db, it, 'ChirpZTransformExecutor')
    res = [p for p in it.run(f, kwargs=lambda: ctx(dom), self_obj=mk) if p.outcome == 'return']
    seen = set()
    for p in res:
        cplx = [t for c, t in p.conds if 'iscomplexobj' in c]
        if not cplx:
            raise AnalysisError('iczt2: no complex/real guard found on path')
        v = p.value
        out_conj = isinstance(v, Shaped) and v.origin is not None and v.origin[0] == 'conj'
        pre, filt, post, ffts = K.czt_events(dom, p)
        root = pre[0]['target']
        in_conj = isinstance(root, Shaped) and root.origin is not None and root.origin[0] == 'conj'
        key = (cplx[0], out_conj, in_conj)
        if key in seen:
            continue
        seen.add(key)
        run.check(out_conj, 'C01.conj', f.qual, 'output conjugation', 'iczt2 returns conj(czt2(...))', 'iczt2 does not conjugate the forward transform result', f.loc())
        if cplx[0]:
            run.check(in_conj, 'C01.conj', f.qual, 'input conjugation', 'complex input is conjugated before the forward transform',
                      'complex input reaches the forward transform without conjugation', f.loc())
        # the guard must test the array, not something constant
    for n in walk_no_nested(f.node):
        if isinstance(n, ast.Call) and ast.unparse(n.func).endswith('iscomplexobj'):
            a = ast.unparse(n.args[0]) if n.args else ''
            run.check(a == 'ary', 'C01.conj', f.qual, ast.unparse(n), 'complex guard tests the array', 'complex guard tests %s (np.iscomplexobj of a dtype is always False)' % a, f.loc(n))


# --------------------------------------------------------------------------
def _names(node):
    return {n.id for n in ast.walk(node) if isinstance(n, ast.Name)}


def _attr_reads(node, base):
    out = set()
    for n in ast.walk(node):
        if isinstance(n, ast.Attribute) and isinstance(n.value, ast.Name) and n.value.id == base:
            out.add(n.attr)
    return out


def cache_rules(run, db):
    """Memo (cache) keys of the two transform executors, decided by interpretation in the DEP domain (sa/domains/dep.py):
    every public entry point is run with each argument an atom on a fresh executor; whatever is stored into a memo dict --
    and every test taken inside the function that stores it -- may depend only on inputs that the key it is stored under
    *determines* (injectively: a rounded or truncated argument does not determine the argument); every memo read finds
    its key; no array held by a memo is operated on in place.  Helper methods, the shape of the fill (try/except, early
    return, `not in`) and the names of locals are irrelevant: calls are followed."""
    from ..domains.dep import DepDomain, memo_audit
    table = [(FT + 'MatrixDFTExecutor', [('dft2', ('ary', 'Q', 'samples_out', 'shift')), ('idft2', ('ary', 'Q', 'samples_out', 'shift')),
                                          ('dft2_backprop', ('fbar', 'Q', 'samples_in', 'shift')), ('idft2_backprop', ('fbar', 'Q', 'samples_out', 'shift'))]),
             (FT + 'ChirpZTransformExecutor', [('czt2', ('ary', 'Q', 'samples_out', 'shift')), ('iczt2', ('ary', 'Q', 'samples_out', 'shift'))])]
    for cq, meths in table:
        ci = db.cls(cq)
        init = db.method(ci, '__init__')
        memos = [t.attr for st in (init.node.body if init else []) if isinstance(st, ast.Assign) and isinstance(st.value, ast.Dict) and not st.value.keys
                 for t in st.targets if isinstance(t, ast.Attribute)]
        if not memos:
            raise AnalysisError('%s: no memo dicts found in __init__' % cq)
        for meth, params in meths:
            fi = db.method(ci, meth)
            if fi is None:
                raise AnalysisError('%s.%s not found' % (cq, meth))
            if tuple(fi.params[1:1 + len(params)]) != params:
                raise AnalysisError('%s: parameters are %s, expected %s' % (fi.qual, fi.params[1:], list(params)))
            dom = DepDomain()
            it = Interp(db, dom)
            records, problems = memo_audit(db, it, dom, ci, fi, lambda: {p: dom.atom(p) for p in params}, memo_attrs=memos)
            if not records:
                raise AnalysisError('%s: no memo store was reached on any path' % fi.qual)
            unknown = [t for k, t in problems if k == 'unknown']
            if unknown:
                raise AnalysisError('%s: %s' % (fi.qual, unknown[0]))
            inc = sorted({t for k, t in problems if k == 'incomplete'})
            run.check(not inc, 'C01.cache', fi.qual, 'memo keys', 'everything stored in %s (and every test taken while filling) depends only on inputs the key determines [%d stores on %d paths]'
                      % ('/'.join('self.' + m for m in memos), len(records), len({tuple(map(tuple, r[4])) for r in records})),
                      '%s: two calls that differ only in that input share one cached entry (or the key holds a rounded/combined version of it), so the result depends on which call came first'
                      % '; '.join(inc), fi.loc())
            ke = sorted({t for k, t in problems if k == 'keyerror'})
            run.check(not ke, 'C01.cache', fi.qual, 'memo reads', 'every memo read uses a key that was stored', '; '.join(ke)[:300], fi.loc())
            ip = sorted({t for k, t in problems if k == 'inplace'})
            run.check(not ip, 'C01.cache', fi.qual, 'cached arrays', 'no array held by a memo is operated on in place',
                      '%s: later calls with the same key see the modified array' % '; '.join(ip), fi.loc())
        # clear(): interpreted on an object whose memos each hold one entry; afterwards every memo attribute is an empty dict
        clr = db.method(ci, 'clear')
        if clr is None:
            run.check(False, 'C01.cache', ci.qual + '.clear', 'clear', '', 'the executor has no clear()', '')
        else:
            from ..core.interp import Domain, DictV, Obj as _Obj

            class CD(Domain):
                def method(self, v, name, args, kwargs, node):
                    return None
            cdom = CD()
            cit = Interp(db, cdom)

            def mkfull():
                o = _Obj(ci)
                for m_ in memos:
                    d_ = DictV()
                    d_.set(Const('k'), Const('v'))
                    o.attrs[m_] = d_
                return o
            holder = {}

            def mk2():
                holder['o'] = mkfull()
                return holder['o']
            left = set()
            npaths = 0
            for p_ in cit.run(clr, self_obj=mk2):
                if p_.outcome != 'return':
                    continue
                npaths += 1
                for m_ in memos:
                    v_ = holder['o'].attrs.get(m_)
                    if not (isinstance(v_, DictV) and not v_.entries):
                        left.add(m_)
            if not npaths:
                raise AnalysisError('%s.clear: no returning path' % ci.qual)
            run.check(not left, 'C01.cache', ci.qual + '.clear', 'clear', 'clear() resets every memo', 'clear() leaves %s populated' % sorted(left), clr.loc())


def fresh_rules(run, db, rule='C01.cache'):
    """Coordinate vectors that are shifted in place must be fresh per call (not handed out by a memo)."""
    mods = ['prysm.fttools', 'prysm.propagation', 'prysm.coordinates', 'prysm._richdata']
    hits = memo_inplace(db, mods)
    for fi, st, callee in hits:
        run.finding(rule, fi.qual, norm_stmt(st), 'in-place operation on the result of the memoised function %s: every later call that receives the same cached array sees the modification (results depend on call history)' % callee.qual, fi.loc(st))
    from .purity import sibling_alias_mutations
    nsib = 0
    for q in ('prysm.fttools.MatrixDFTExecutor._setup_bases', 'prysm.fttools.ChirpZTransformExecutor._setup_bases', 'prysm.fttools._prepare_czt_basis'):
        fi = db.func(q)
        nsib += 1
        for st, w, o in sibling_alias_mutations(fi):
            run.finding(rule, fi.qual, norm_stmt(st), '`%s` updates `%s` in place, but `%s` may be the very same array as `%s` (bound by a plain name copy), which is used afterwards: '
                        'when that happens (e.g. a square plane) the shift of one axis is applied to the other axis as well' % (norm_stmt(st), w, w, o), fi.loc(st))
    from .purity import memo_entry_writes
    for cq in ('prysm.fttools.MatrixDFTExecutor', 'prysm.fttools.ChirpZTransformExecutor'):
        for fi, st, nm, r in memo_entry_writes(db.cls(cq)):
            run.finding(rule, fi.qual, norm_stmt(st), '`%s` writes into `%s`, which may be the stored memo entry %s taken out earlier: whatever an earlier call left in that entry (a larger input in the same '
                        'work array, say) is still there, so the result depends on call history' % (norm_stmt(st), nm, r), fi.loc(st))
    from .purity import memo_completeness
    for fi, st, memo, missing in memo_completeness(db, mods):
        run.check(not missing, rule, fi.qual, 'memo %s' % memo, 'module-level memo %s is keyed by every input its fill reads' % memo,
                  'the memo %s is filled from %s, which its key does not contain (results depend on call history)' % (memo, missing), fi.loc(st))
    n = 0
    for q in ('prysm.fttools.fftrange', 'prysm.fttools.fftfreq', 'prysm.fttools.forward_ft_unit', 'prysm.coordinates.make_xy_grid'):
        fi = db.func(q)
        n += 1
        memo = [d for d in fi.decorators if 'cache' in d]
        shared = [h for h in hits if h[2].qual == fi.qual]
        run.check(not (memo and shared), rule, fi.qual, 'fresh result', '%s returns storage that no caller mutates while shared' % fi.name,
                  '%s is memoised (%s) and its result is modified in place by %s' % (fi.name, memo, [h[0].qual for h in shared]), fi.loc())
    for q in ('prysm.fttools.MatrixDFTExecutor.dft2', 'prysm.fttools.MatrixDFTExecutor.idft2', 'prysm.fttools.ChirpZTransformExecutor.czt2', 'prysm.fttools.ChirpZTransformExecutor.iczt2',
              'prysm.propagation.focus', 'prysm.propagation.unfocus', 'prysm.propagation.focus_fixed_sampling', 'prysm.propagation.unfocus_fixed_sampling', 'prysm.fttools.pad2d'):
        fi = db.func(q)
        for st, name in input_mutations(fi):
            run.finding(rule, fi.qual, norm_stmt(st), 'in-place write through the argument `%s`: the caller\'s input array is modified by the transform' % name, fi.loc(st))
        run.ok(rule, fi.qual, 'input arrays are not written through')


def origin_rules(run, db):
    from .c01values import defer_to_fft_routes
    for name, direction in (('focus', 'fft2'), ('unfocus', 'ifft2')):
        try:
            _origin_rules_for(run, db, name, direction)
        except AnalysisError as e:
            if not defer_to_fft_routes(run, db, 'C01.origin (%s)' % name, e, [('C01.origin', 4)]):
                raise


def _origin_rules_for(run, db, name, direction):
    if True:
        f = db.func('prysm.propagation.' + name)
        for parity in (0, 1):
            dom = OriginDomain(parity)

            def call_prysm(fi, args, kwargs, node, dom=dom):
                if fi.qual in ('prysm.fttools.pad2d', 'prysm.fttools.crop_center'):
                    a = args[0] if args else kwargs.get('array', kwargs.get('img'))
                    if isinstance(a, Og):
                        if a.o == ohalf(dom.p) and a.r.is_zero():
                            return a
                        return Unknown('pad of a non-centred array')
                return None
            dom.call_prysm = call_prysm
            it = Interp(db, dom)
            res = it.run(f, kwargs=lambda: {'wavefunction': dom.centred(), 'Q': Real()})
            for p in res:
                if p.outcome != 'return':
                    continue
                v = p.value
                if not isinstance(v, Og):
                    raise AnalysisError('%s: result has no origin typestate on path %s: %r' % (f.qual, p.conds, v))
                ok = v.o == ohalf(parity) and v.r.is_zero()
                run.check(ok, 'C01.origin', f.qual, 'shift pairing', '%s: centred in -> centred out, no ramp [%s, %s]' % (name, 'odd' if parity else 'even', p.conds),
                          '%s returns origin %r with phase ramp %r for %s lengths (expected origin n//2, no ramp): shifts are not paired as ifftshift -> %s -> fftshift'
                          % (name, v.o, v.r, 'odd' if parity else 'even', direction), f.loc())
                ffts = [e for e in p.events if e['kind'] == 'fft']
                run.check(len(ffts) == 1 and ffts[0]['which'] == direction, 'C01.origin', f.qual, 'direction', '%s uses %s' % (name, direction),
                          '%s uses %s' % (name, [e['which'] for e in ffts]), f.loc())


def dispatch_rules(run, db):
    """'mdft' reaches the matrix-DFT engine and 'czt' the chirp-Z engine, forward routines the forward transforms and inverse routines the
    inverse ones, with the same (array, Q, samples, shift): decided on the calls that are reached when the routine is interpreted with
    the method string concrete (NORM for the arguments), whatever way the dispatch is written."""
    from .common import norm_interp, capture_calls
    E1, E2 = 'prysm.fttools.MatrixDFTExecutor.', 'prysm.fttools.ChirpZTransformExecutor.'
    engines = {E1 + 'dft2': 'mdft.dft2', E1 + 'idft2': 'mdft.idft2', E2 + 'czt2': 'czt.czt2', E2 + 'iczt2': 'czt.iczt2',
               E1 + 'dft2_backprop': 'mdft.dft2_backprop', E1 + 'idft2_backprop': 'mdft.idft2_backprop'}
    table = {'focus_fixed_sampling': ('mdft.dft2', 'czt.czt2'), 'unfocus_fixed_sampling': ('mdft.idft2', 'czt.iczt2')}
    for name, (m1, m2) in table.items():
        f = db.func('prysm.propagation.' + name)
        seen = {}
        for meth, want in (('mdft', m1), ('czt', m2)):
            it, dom = norm_interp(db)
            og = dom.getattr

            def getattr_(v, nm, node, dom=dom, og=og):
                if nm == 'shape' and dom.rat(v) is not None and dom.rat(v).key() == 'ary':
                    return Tup([dom.sym('n0'), dom.sym('n1')])
                return og(v, nm, node)
            dom.getattr = getattr_
            dom.nonzero = {'sx', 'sy'}
            kw = {'wavefunction': dom.sym('ary'), 'input_dx': dom.sym('input_dx'), 'prop_dist': dom.sym('prop_dist'), 'wavelength': dom.sym('wavelength'), 'output_dx': dom.sym('output_dx'),
                  'output_samples': Tup([dom.sym('M0'), dom.sym('M1')]), 'shift': Tup([dom.sym('sx'), dom.sym('sy')]), 'method': Const(meth)}
            kw = {k: v for k, v in kw.items() if k in f.params}
            paths, calls = capture_calls(it, dom, f, lambda: dict(kw), set(engines), lambda f_, b_: dom.sym('OUT'))
            rets = [p for p in paths if p.outcome == 'return']
            if not rets:
                raise AnalysisError("%s(method='%s'): no returning path" % (f.qual, meth))
            reached = sorted({engines[c_[0].qual] for c_ in calls})
            if not reached:
                raise AnalysisError("%s(method='%s'): no transform engine is reached (the dispatch is not followed)" % (f.qual, meth))
            run.check(reached == [want], 'C01.dispatch', f.qual, "method == '%s'" % meth, "'%s' dispatches to %s" % (meth, want),
                      "'%s' dispatches to %s, expected %s" % (meth, reached, want), f.loc())

            def keyv(v, dom=dom):
                if isinstance(v, Tup):
                    return '(%s)' % ','.join(keyv(x) for x in v.items)
                r = dom.rat(v)
                return r.key() if r is not None else repr(v)
            for c_ in calls:
                if engines[c_[0].qual] == want:
                    b = c_[1]
                    seen[meth] = {'ary': keyv(b.get('ary')), 'Q': keyv(b.get('Q')), 'samples_out': keyv(b.get('samples_out')), 'shift': keyv(b.get('shift'))}
        if len(seen) == 2:
            a, b = seen['mdft'], seen['czt']
            if any('Unknown' in str(x) for x in list(a.values()) + list(b.values())):
                raise AnalysisError('%s: the arguments handed to the engines are not followed (%s / %s)' % (f.qual, a, b))
            run.check(a == b, 'C01.dispatch', f.qual, 'same arguments', 'both engines receive the same (ary, Q, samples_out, shift)',
                      'engines receive different arguments: mdft %s vs czt %s' % (a, b), f.loc())


def czt_rules(run, db):
    """the reading of czt2 as pre-chirp, FFT, filter, inverse FFT, crop, post-chirp; defers to the decision on values (c01values) when the
    executor is organised in a way it does not read"""
    from .c01values import defer_to_routes
    try:
        return _czt_rules_reading(run, db)
    except AnalysisError as e:
        if not defer_to_routes(run, db, 'czt_rules', e, (('C01.chirp', 16 * 4 * 2 * 8), ('C01.axis', 8))):
            raise


def iczt_rule(run, db):
    from .c01values import defer_to_routes
    try:
        return _iczt_rule_reading(run, db)
    except (AnalysisError, IndexError) as e:
        if not defer_to_routes(run, db, 'iczt_rule', e, (('C01.conj', 4),)):
            if isinstance(e, IndexError):
                raise AnalysisError('iczt2: the pre-chirp multiplies of the forward transform are not found')
            raise


def check(run, db, tier):
    run.trust('KERNEL domain: coordinate vectors as expressions in index atoms; np.outer/np.exp/broadcast multiplies/piecewise stores modelled symbolically (sa/domains/kernel.py)',
              'textbook kernel exp(-/+ 2 pi i x u/(N Q)) per axis with x = i - N//2, u = t - M//2 - shift; Bluestein identity 2xu = x^2 + u^2 - (u-x)^2',
              'shift is documented as (X, Y): shift[0] applies to axis 1, shift[1] to axis 0; a requested shift may change the result by a pure phase only (property text)',
              'ORIGIN typestate for fftshift/ifftshift/fft2/ifft2 per parity class (sa/domains/origin.py); pad2d keeps centred arrays centred (C04)')
    run.assume('rank-2 arrays; numpy/scipy backend (a swapped backend is out of scope); lengths positive',
               'float agreement of the three routes to round-off is not decided (values)')
    run.rule('C01.kernel', 'matrix-DFT basis phase is bilinear with frequency -/+2 pi i/(N_k Q_k), output coordinate t - M//2 - shift_k, input coordinate i - N//2, per axis, both directions')
    run.rule('C01.norm', 'product of the two basis normalisations squared is 1/(n0 Q0 n1 Q1)')
    run.rule('C01.chirp', 'chirp-Z pre-chirp, filter segments and post-chirp equal the Bluestein factors of the same kernel, with alpha_k = 1/(N_k Q_k), for all 16 parity classes')
    run.rule('C01.axis', 'every per-axis vector multiplies along its own axis; FFT sizes and crops are per axis')
    run.rule('C01.conj', 'inverse chirp-Z is conj . czt . conj with a guard that tests the array')
    run.rule('C01.cache', 'memo keys are complete (arguments, direction, precision), memos are filled/cleared together and never mutated in place')
    run.rule('C01.origin', 'FFT route: centred in => centred out with no phase ramp, odd and even lengths')
    run.rule('C01.dispatch', "both method strings reach their engine with identical arguments")
    run.rule('C01.route', 'chirp-Z == matrix DFT cell by cell on small concrete arrays of symbolic samples (forward and inverse, real and complex, symbolic Q, per-axis Q; '
             'equal in modulus under a shift): the identity of Bluestein as a polynomial identity')
    from .c01values import route_value_rules, fft_route_value_rules
    run.group(route_value_rules, run, db)
    run.group(fft_route_value_rules, run, db)
    run.rule('C01.shiftgrid', 'no index vector of the transform bases is built by np.arange(a, b) with end points that depend on the real-valued shift '
             '(its length would be decided by a floating-point ceil): taint analysis from the shift parameters over prysm/fttools.py')
    from .c01grid import shiftgrid_rules
    run.group(shiftgrid_rules, run, db)
    run.group(cache_rules, run, db)
    run.group(fresh_rules, run, db)
    run.group(mdft_rules, run, db)
    run.group(czt_rules, run, db)
    run.group(iczt_rule, run, db)
    run.group(origin_rules, run, db)
    run.group(dispatch_rules, run, db)
    run.forgive('route_value_rules', ['mdft_rules', 'czt_rules', 'iczt_rule'])
    run.forgive('fft_route_value_rules', ['origin_rules', 'mdft_rules'])
    run.rule('C01.fixed', 'focus/unfocus_fixed_sampling hand the same geometry (per-axis Q, shift in output samples along the documented axis) to both engines (shared with C05.axisQ)')
    from . import fixedsampling as FS
    qp = [dict(zip(['n0', 'n1', 'M0', 'M1'], b)) for b in ((0, 0, 0, 0), (1, 1, 1, 1))]
    run.group(FS.run_fixed, run, db, 'C01.fixed', 'focus_fixed_sampling', -1, None if tier == 'thorough' else qp)
    run.group(FS.run_fixed, run, db, 'C01.fixed', 'unfocus_fixed_sampling', +1, None if tier == 'thorough' else qp)
    run.require_instances('C01.fixed', 100)
    run.require_instances('C01.kernel', 2 * 4 * 2 * 4)
    run.require_instances('C01.chirp', 16 * 4 * 2 * 8)
    run.require_instances('C01.cache', 12)
    run.require_instances('C01.origin', 8)
