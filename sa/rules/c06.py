"""C06 -- every backprop routine returns the true gradient of its forward routine."""
import ast

from ..core.db import AnalysisError, norm_stmt, walk_no_nested
from ..core.interp import Const, Tup, Unknown, Obj, Slice
from ..core.norm import Rat, diff, _rat
from ..domains.index import Shaped
from ..domains.kernel import Mat, Prod2, Vec
from ..domains.normdom import Sym, Arr
from . import ftkernels as K
from . import fixedsampling as FS
from .common import norm_interp, returns, as_rat

P = 'prysm.propagation.'
FT = 'prysm.fttools.'
SHIFTS = FS.SHIFTS


def mats_adjoint(dom, fwd, bwd):
    """bwd == conj-transpose of fwd, as symbolic outer matrices."""
    rf, rb = dom.rat(fwd.elem), dom.rat(bwd.elem)
    if rf is None or rb is None:
        return False, 'basis element outside NORM'
    if not (bwd.idx0 == fwd.idx1 and bwd.idx1 == fwd.idx0):
        return False, 'not transposed: forward rows=%s cols=%s, companion rows=%s cols=%s' % (fwd.idx0, fwd.idx1, bwd.idx0, bwd.idx1)
    if not (rb == rf.conj()):
        return False, 'not the complex conjugate: forward %s, companion %s' % (rf.key(), rb.key())
    return True, ''


def expand_reim(R, r, depth=4):
    """real(z) -> (z + conj z)/2, imag(z) -> (z - conj z)/(2i): one spelling for every way of writing a real or imaginary part."""
    for _ in range(depth):
        mapping = {}
        for a in r.atoms():
            info = R.info.get(a)
            if info and info[0] in ('real', 'imag') and len(info[1]) == 1:
                z = _rat(info[1][0])
                mapping[a] = (z + z.conj()) / 2 if info[0] == 'real' else (z - z.conj()) * Rat(-R.I) / 2
        if not mapping:
            return r
        r = r.subs(mapping)
    return r


def prod_adjoint(run, rule, fi, dom, fwd, bwd, what, tagf='ary'):
    """bwd Prod2 == L^H @ g @ R^H for fwd Prod2 == L @ x @ R."""
    if not (isinstance(fwd, Prod2) and isinstance(bwd, Prod2) and isinstance(fwd.left, Mat) and isinstance(bwd.left, Mat)
            and isinstance(fwd.right, Mat) and isinstance(bwd.right, Mat)):
        raise AnalysisError('%s: forward/companion are not matrix triple products: %r / %r' % (fi.qual, fwd, bwd))
    for side, f, b in (('left (axis 0)', fwd.left, bwd.left), ('right (axis 1)', fwd.right, bwd.right)):
        ok, why = mats_adjoint(dom, f, b)
        run.check(ok, rule, fi.qual, '%s: %s basis' % (what, side), '%s %s basis is the conjugate transpose of the forward basis' % (what, side),
                  '%s: the %s basis of the companion is not the conjugate transpose of the forward one (%s)' % (what, side, why), fi.loc())


def matrix_rules(run, db):
    it, dom = K.mk(db, {})
    mk = K.executor(db, it, 'MatrixDFTExecutor')
    for fwdn, bwdn, inkw in (('dft2', 'dft2_backprop', 'samples_in'), ('idft2', 'idft2_backprop', 'samples_out')):
        ff = db.func(FT + 'MatrixDFTExecutor.' + fwdn)
        fb = db.func(FT + 'MatrixDFTExecutor.' + bwdn)
        for sh in SHIFTS:
            def fkw():
                dom.nonzero = {'sx', 'sy'}
                return {'ary': dom.array('ary', 'n0', 'n1'), 'Q': Tup([dom.sym('Q0'), dom.sym('Q1')]), 'samples_out': Tup([dom.length('M0'), dom.length('M1')]),
                        'shift': Tup([dom.sym('sx') if sh[0] else Const(0), dom.sym('sy') if sh[1] else Const(0)])}

            def bkw():
                dom.nonzero = {'sx', 'sy'}
                return {'fbar': dom.array('fbar', 'M0', 'M1'), 'Q': Tup([dom.sym('Q0'), dom.sym('Q1')]), inkw: Tup([dom.length('n0'), dom.length('n1')]),
                        'shift': Tup([dom.sym('sx') if sh[0] else Const(0), dom.sym('sy') if sh[1] else Const(0)])}
            rf = [p for p in it.run(ff, kwargs=fkw, self_obj=mk) if p.outcome == 'return']
            rb = [p for p in it.run(fb, kwargs=bkw, self_obj=mk) if p.outcome == 'return']
            if len(rf) != 1 or len(rb) != 1:
                raise AnalysisError('%s/%s: expected one path each' % (fwdn, bwdn))
            prod_adjoint(run, 'C06.matrix', fb, dom, rf[0].value, rb[0].value, bwdn)
            b = rb[0].value
            run.check(isinstance(b.arr, Shaped) and b.arr.label == 'fbar', 'C06.matrix', fb.qual, 'operand', 'companion acts on the upstream gradient',
                      'companion does not act on the upstream gradient', fb.loc())


def fixed_rules(run, db):
    it, dom = K.mk(db, {})
    for fwdn, bwdn in (('focus_fixed_sampling', 'focus_fixed_sampling_backprop'), ('unfocus_fixed_sampling', 'unfocus_fixed_sampling_backprop')):
        ff, fb = db.func(P + fwdn), db.func(P + bwdn)
        for sh in SHIFTS:
            rf = [p for p in it.run(ff, kwargs=lambda: FS.fs_ctx(dom, sh, 'mdft')) if p.outcome == 'return']
            # companion: the gradient has the forward OUTPUT shape; output_samples is the forward INPUT shape
            rb = [p for p in it.run(fb, kwargs=lambda: FS.fs_ctx(dom, sh, 'mdft', in_lens=('M0', 'M1'), out_lens=('n0', 'n1'), label='fbar')) if p.outcome == 'return']
            if len(rf) != 1 or len(rb) != 1:
                raise AnalysisError('%s/%s: expected one path each (got %d/%d)' % (fwdn, bwdn, len(rf), len(rb)))
            prod_adjoint(run, 'C06.fixed', fb, dom, rf[0].value, rb[0].value, bwdn)
        # czt companions are declared unavailable: must raise, not silently compute something
        rb = it.run(fb, kwargs=lambda: FS.fs_ctx(dom, (False, False), 'czt', in_lens=('M0', 'M1'), out_lens=('n0', 'n1'), label='fbar'))
        run.check(all(p.outcome == 'raise' for p in rb), 'C06.fixed', fb.qual, "method='czt'", 'no companion for the chirp-Z route: raises',
                  "method='czt' returns a value although no chirp-Z companion exists", fb.loc())


def _unwrap_scale(run, rule, fi, v, what):
    """Peel `scale` origins (stray scalar factors) off an array value, reporting them."""
    while isinstance(v, Shaped) and not isinstance(v, Prod2) and v.origin is not None and v.origin[0] == 'scale':
        _, op, inner, scalar, left = v.origin
        run.finding(rule, fi.qual, '%s scalar factor' % what, 'the linear companion carries a scalar factor (%s %r) that the forward routine does not have' % (op, scalar), fi.loc())
        v = inner
    return v


def chain_rules(run, db):
    ff, fb = db.func(P + 'to_fpm_and_back'), db.func(P + 'to_fpm_and_back_backprop')
    it, dom = K.mk(db, {})
    guard_seen = False
    for n in walk_no_nested(fb.node):
        if isinstance(n, ast.Call) and ast.unparse(n.func).endswith('iscomplexobj'):
            guard_seen = True
            a = ast.unparse(n.args[0]) if n.args else ''
            run.check(a == 'fpm', 'C06.conj', fb.qual, ast.unparse(n), 'conjugation guard tests the mask array',
                      'the guard that decides whether the mask is conjugated tests `%s` (np.iscomplexobj of a dtype object is always False): complex masks are never conjugated' % a, fb.loc(n))
    for sh in SHIFTS:
        def common():
            dom.nonzero = {'sx', 'sy'}
            return {'dx': dom.sym('dx'), 'efl': dom.sym('efl'), 'wavelength': dom.sym('wavelength'), 'fpm': dom.array('fpm', 'M0', 'M1'), 'fpm_dx': dom.sym('fpm_dx'),
                    'shift': Tup([dom.sym('sx') if sh[0] else Const(0), dom.sym('sy') if sh[1] else Const(0)]), 'method': Const('mdft'), 'return_more': Const(False)}
        rf = [p for p in it.run(ff, kwargs=lambda: dict(common(), wavefunction=dom.array('ary', 'n0', 'n1'))) if p.outcome == 'return']
        rb = [p for p in it.run(fb, kwargs=lambda: dict(common(), wavefunction=dom.array('gbar', 'n0', 'n1'))) if p.outcome == 'return']
        if len(rf) != 1 or not rb:
            raise AnalysisError('to_fpm_and_back(_backprop): paths %d/%d' % (len(rf), len(rb)))
        F2 = rf[0].value
        inner_f = [x for x in (getattr(getattr(F2, 'arr', None), 'origin', None) or ())[1:3] if isinstance(x, Prod2)] if isinstance(F2, Prod2) else []
        if not inner_f:
            raise AnalysisError('to_fpm_and_back does not end in a matrix product of a masked matrix product: %r' % (F2,))
        F1 = inner_f[0]
        for p in rb:
            cplx = [t for c, t in p.conds if 'iscomplexobj' in c]
            v = _unwrap_scale(run, 'C06.scalar', fb, p.value, 'to_fpm_and_back_backprop result')
            if not isinstance(v, Prod2):
                raise AnalysisError('to_fpm_and_back_backprop does not end in a matrix product: %r' % (v,))
            inner = v.arr
            ok = isinstance(inner, Shaped) and inner.origin is not None and inner.origin[0] == 'Mult'
            if not ok:
                run.finding('C06.chain', fb.qual, 'structure', 'companion is not focus_bp(conj(fpm) * unfocus_bp(gbar)): %r' % (v,), fb.loc())
                continue
            a, b = inner.origin[1], inner.origin[2]
            a = _unwrap_scale(run, 'C06.scalar', fb, a, 'inner stage')
            b = _unwrap_scale(run, 'C06.scalar', fb, b, 'inner stage')
            G2, mask = (a, b) if isinstance(a, Prod2) else (b, a)
            if not isinstance(G2, Prod2):
                run.finding('C06.chain', fb.qual, 'structure', 'companion does not multiply the mask with the back-propagated gradient', fb.loc())
                continue
            run.check(isinstance(G2.arr, Shaped) and G2.arr.label == 'gbar', 'C06.chain', fb.qual, 'operand', 'first stage acts on the upstream gradient', 'first stage does not act on the upstream gradient', fb.loc())
            # reverse order with stage companions
            prod_adjoint(run, 'C06.chain', fb, dom, F2, G2, 'return-trip companion (%s)' % ('shift' if any(sh) else 'no shift'))
            prod_adjoint(run, 'C06.chain', fb, dom, F1, v, 'to-mask companion (%s)' % ('shift' if any(sh) else 'no shift'))
            # conjugation of the mask on the complex path
            if cplx and cplx[0]:
                isconj = isinstance(mask, Shaped) and mask.origin is not None and mask.origin[0] == 'conj' and mask.origin[1].label == 'fpm'
                run.check(isconj, 'C06.conj', fb.qual, 'mask conjugation', 'complex mask enters as conj(fpm)', 'complex mask is not conjugated in the companion', fb.loc())
            else:
                run.check(isinstance(mask, Shaped) and (mask.label == 'fpm'), 'C06.conj', fb.qual, 'mask', 'real mask enters unchanged', 'mask operand is %r' % (mask,), fb.loc())
    if not guard_seen:
        # acceptable alternative: unconditional conjugation
        src = ast.unparse(fb.node)
        run.check('conj' in src, 'C06.conj', fb.qual, 'mask conjugation', 'mask conjugated unconditionally', 'the mask is never conjugated', fb.loc())


def babinet_bp_rules(run, db):
    ci = db.cls(P + 'Wavefront')
    f = db.func(P + 'Wavefront.babinet_backprop')
    it, dom = K.mk(db, {})

    def mkself():
        o = Obj(ci)
        o.attrs.update({'data': dom.array('dbar', 'n0', 'n1'), 'dx': dom.sym('dx'), 'wavelength': dom.sym('wavelength'), 'space': Const('pupil')})
        return o
    for lyot in (True, False):
        res = [p for p in it.run(f, kwargs=lambda: {'efl': dom.sym('efl'), 'lyot': dom.array('lyot', 'n0', 'n1') if lyot else Const(None), 'fpm': dom.array('fpm', 'M0', 'M1'),
                                                    'fpm_dx': dom.sym('fpm_dx'), 'method': Const('mdft')}, self_obj=mkself) if p.outcome == 'return']
        if not res:
            raise AnalysisError('babinet_backprop: no returning path')
        for p in res:
            w = p.value
            data = w.attrs.get('data') if isinstance(w, Obj) else None
            # expected: cbar - A^H cbar  with cbar = dbar * conj(lyot) / dbar
            ok = isinstance(data, Shaped) and data.origin is not None and data.origin[0] in ('Sub', 'Add')
            detail = repr(data)
            if ok:
                op, x, y = data.origin
                # forms: ('Sub', cbar, back)  or ('Add', -back, cbar) / ('Add', back_with_minus, cbar)
                def strip(v):
                    neg = 1
                    while isinstance(v, Shaped) and not isinstance(v, Prod2) and v.origin is not None and v.origin[0] == 'scale':
                        _, sop, inner, scalar, left = v.origin
                        r = dom.rat(scalar)
                        if sop == 'Mult' and r is not None and r == -1:
                            neg = -neg
                            v = inner
                        else:
                            return v, None
                    return v, neg
                xs, xn = strip(x)
                ys, yn = strip(y)
                if op == 'Sub' and yn is not None:
                    yn = -yn
                cb, back, bsign = (xs, ys, yn) if isinstance(ys, Prod2) else (ys, xs, xn)
                csign = xn if cb is xs else yn
                ok = isinstance(back, Prod2) and bsign == -1 and csign == 1 and isinstance(cb, Shaped)
                detail = 'combination is %s cbar %s A^H cbar' % ('+' if csign == 1 else '-', '+' if bsign == 1 else '-')
                if ok:
                    # cbar provenance
                    if lyot:
                        okc = cb.origin is not None and cb.origin[0] == 'Mult' and any(isinstance(z, Shaped) and z.label == 'dbar' for z in cb.origin[1:3])
                    else:
                        okc = cb.label == 'dbar'
                    # the innermost operand of the companion chain is the same cbar
                    inner = back.arr
                    m = [z for z in inner.origin[1:3]] if inner.origin is not None and inner.origin[0] == 'Mult' else []
                    g2 = [z for z in m if isinstance(z, Prod2)]
                    ok = okc and bool(g2) and (g2[0].arr is cb or (g2[0].arr.label == cb.label and g2[0].arr.origin == cb.origin))
                    detail = 'upstream gradient does not flow as cbar = dbar*conj(lyot) through both terms'
            if lyot and ok:
                cplx = [t for c, t in p.conds if 'iscomplexobj' in c]
                lop = [z for z in cb.origin[1:3] if not (isinstance(z, Shaped) and z.label == 'dbar')]
                isconj = bool(lop) and isinstance(lop[0], Shaped) and lop[0].origin is not None and lop[0].origin[0] == 'conj'
                if not cplx or cplx[0]:
                    run.check(isconj, 'C06.conj', f.qual, 'Lyot conjugation', 'a complex Lyot stop enters the companion conjugated',
                              'the Lyot stop is not conjugated in babinet_backprop%s' % ('' if cplx else ' (no complex guard, no conjugation)'), f.loc())
            if not ok and getattr(run, 'babinet_on_values', None):
                # <B x, y> == <x, babinet_backprop(y)> holds as an identity in symbolic samples on this tree: the companion is the adjoint,
                # whatever this reading of its statements makes of the way the two terms are combined
                run.info('babinet_backprop (lyot=%s): the reading of the combination (%s) is not confirmed; the adjoint identity was decided on values' % (lyot, detail))
                continue
            run.check(ok, 'C06.chain', f.qual, 'babinet companion lyot=%s' % lyot, 'babinet_backprop == cbar - to_fpm_and_back^H(cbar), cbar = dbar [* conj(lyot)]',
                      'babinet_backprop is not cbar - A^H cbar: %s' % detail, f.loc())
    calls = [n for n in walk_no_nested(f.node) if isinstance(n, ast.Call) and ast.unparse(n.func).endswith('iscomplexobj')]
    for n in calls:
        a = ast.unparse(n.args[0]) if n.args else ''
        run.check(a == 'lyot', 'C06.conj', f.qual, ast.unparse(n), 'Lyot conjugation guard tests the array', 'Lyot conjugation guard tests `%s`' % a, f.loc(n))


def wrapper_rules(run, db):
    """Wavefront.*_backprop hand their arguments to the array-level companion in the companion's roles: decided on the values the
    companion is called with (tokens for the object's attributes and the arguments), whatever way the call is reached."""
    from ..core.interp import Interp, Domain, Value
    from .common import capture_calls

    class Tok(Value):
        def __init__(self, name):
            self.name = name

        def __repr__(self):
            return self.name

    class TDomain(Domain):
        def param(self, fi, name, default):
            return None

        def call_ext(self, dotted, args, kwargs, node):
            if dotted == 'builtins.isinstance' and args and isinstance(args[0], Tok):
                return Const(False)          # the scalar-to-pair conveniences are not what is decided here
            return None
    ci = db.cls(P + 'Wavefront')

    def run_wrapper(meth, callee, space, argnames):
        f = db.func(P + 'Wavefront.' + meth)
        dom = TDomain()
        it = Interp(db, dom)

        def mkself():
            o = Obj(ci)
            o.attrs.update({'data': Tok('self.data'), 'dx': Tok('self.dx'), 'wavelength': Tok('self.wavelength'), 'space': Const(space)})
            return o
        kw = {a: Tok(a) for a in argnames if a in f.params}
        missing = [a for a in f.params if a not in kw and a != 'self']
        for a in missing:
            kw[a] = Tok(a)
        paths, calls = capture_calls(it, dom, f, lambda: dict(kw), {P + callee}, lambda f_, b_: Tok('result'), self_obj=mkself)
        if not calls:
            raise AnalysisError('Wavefront.%s: the companion %s is never reached' % (meth, callee))
        return f, calls
    show = lambda b: {k: (v.name if isinstance(v, Tok) else repr(v)) for k, v in b.items()}
    f, calls = run_wrapper('focus_fixed_sampling_backprop', 'focus_fixed_sampling_backprop', 'psf', ['efl', 'dx', 'samples', 'shift', 'method'])
    want = {'wavefunction': 'self.data', 'input_dx': 'dx', 'prop_dist': 'efl', 'wavelength': 'self.wavelength', 'output_dx': 'self.dx', 'output_samples': 'samples', 'shift': 'shift', 'method': 'method'}
    for fi_, b, node, _c in calls:
        got = show(b)
        run.check(all(got.get(k) == v for k, v in want.items()), 'C06.wrapper', f.qual, 'delegation',
                  'gradient (psf plane, self.dx) is sent back with input_dx = pupil dx, output_dx = self.dx, samples = pupil shape',
                  'wrapper passes %s' % got, f.loc(node))
    f, calls = run_wrapper('to_fpm_and_back_backprop', 'to_fpm_and_back_backprop', 'pupil', ['efl', 'fpm', 'fpm_dx', 'method', 'shift', 'return_more'])
    want = {'wavefunction': 'self.data', 'dx': 'self.dx', 'wavelength': 'self.wavelength', 'efl': 'efl', 'fpm': 'fpm', 'fpm_dx': 'fpm_dx', 'method': 'method', 'shift': 'shift'}
    for fi_, b, node, _c in calls:
        got = show(b)
        run.check(all(got.get(k) == v for k, v in want.items()), 'C06.wrapper', f.qual, 'delegation', 'arguments reach the companion in their own roles',
                  'wrapper binds %s' % got, f.loc(node))


def const_rules(run, db):
    it, dom = norm_interp(db)
    R = dom.R
    ci = db.cls(P + 'Wavefront')
    f = db.func(P + 'Wavefront.intensity_backprop')

    def mkself():
        o = Obj(ci)
        o.attrs.update({'data': dom.sym('E', real=False), 'dx': dom.sym('dx'), 'wavelength': dom.sym('wavelength'), 'space': Const('psf')})
        return o
    res = returns(it.run(f, kwargs=lambda: {'intensity_bar': dom.sym('Ibar')}, self_obj=mkself), f)
    w = res[0].value
    g = dom.rat(w.attrs.get('data')) if isinstance(w, Obj) else None
    want = 2 * Rat(R.atom('Ibar')) * Rat(R.atom('E', real=False))
    run.check(g is not None and g == want, 'C06.const', f.qual, norm_stmt(f.node.body[-2]) if len(f.node.body) > 1 else 'Gbar', 'intensity companion == 2 Ibar E',
              'intensity_backprop gives %s, expected 2*Ibar*E' % (g.key() if g is not None else w,), f.loc())
    # phase companion: k Im(gbar conj(g)), k = forward phase prefix / i
    f = db.func(P + 'Wavefront.from_amp_and_phase_backprop_phase')
    wf = lambda: Obj(ci)

    def kw():
        o = Obj(ci)
        o.attrs['data'] = dom.sym('gbar', real=False)
        return {'wf_bar': o}
    res = returns(it.run(f, kwargs=kw, self_obj=mkself), f)
    got = dom.rat(res[0].value)
    E, gb = R.atom('E', real=False), R.atom('gbar', real=False)
    im = R.func('imag', [Rat(gb * E.conj())])
    want = 2 * Rat(R.atom('pi')) / (1000 * Rat(R.atom('wavelength'))) * Rat(im)
    same = got is not None and (got == want or expand_reim(R, got) == expand_reim(R, want))
    run.check(same, 'C06.const', f.qual, norm_stmt(f.node.body[-1]), 'phase companion == (2 pi/(1000 lambda)) Im(gbar conj(E))',
              'phase companion is %s, expected %s' % (got.key() if got is not None else res[0].value, want.key()), f.loc())
    # the forward routine, on values: g = A exp(i k phi) with the same k, i.e. dg/dphi == i k g  (then dL/dphi = k Im(gbar conj g))
    from ..core.interp import ClassRef
    ff = db.func(P + 'Wavefront.from_amp_and_phase')
    res = returns(it.run(ff, kwargs=lambda: {'cls': ClassRef(ci), 'amplitude': dom.sym('A'), 'phase': dom.sym('phi'), 'wavelength': dom.sym('wavelength'), 'dx': dom.sym('dx')}), ff)
    w = res[0].value
    g = dom.rat(w.attrs.get('data')) if isinstance(w, Obj) else None
    if g is None:
        raise AnalysisError('from_amp_and_phase: the field it builds is outside NORM (%r)' % (w,))
    k = 2 * Rat(R.atom('pi')) / (1000 * Rat(R.atom('wavelength')))
    d = diff(g, 'phi', R)
    run.check(d == Rat(R.I) * k * g, 'C06.const', ff.qual, 'forward phase prefix', 'from_amp_and_phase: d field / d phase == i (2 pi/(1000 lambda)) field',
              'from_amp_and_phase gives %s, whose derivative in the phase is %s, not i k field with k = 2 pi/(1000 lambda) of the companion' % (g.key(), d.key()), ff.loc())


def activation_rules(run, db):
    it, dom = norm_interp(db)
    R = dom.R
    A = 'prysm.x.optym.activation.'
    for cname in ('Tanh', 'Arctan', 'Softplus', 'Sigmoid'):
        ci = db.cls(A + cname)

        def mkself():
            o = Obj(ci)
            o.attrs.update({'a': dom.sym('a'), 'x0': dom.sym('x0'), 'y0': dom.sym('y0')})
            return o
        ff, fb = db.func(A + cname + '.forward'), db.func(A + cname + '.backprop')
        fv = as_rat(dom, returns(it.run(ff, kwargs=lambda: {'x': dom.sym('x')}, self_obj=mkself), ff)[0].value, ff.qual)
        bparam = fb.params[1]
        bv = as_rat(dom, returns(it.run(fb, kwargs=lambda: {bparam: dom.sym('x')}, self_obj=mkself), fb)[0].value, fb.qual)
        d = diff(fv, 'x', R)
        run.check(d == bv, 'C06.activation', fb.qual, 'derivative', 'd/dx %s.forward(x) == %s.backprop(x) as closed forms' % (cname, cname),
                  '%s.backprop(x) = %s but d/dx forward(x) = %s' % (cname, bv.key(), d.key()), fb.loc())
    # Gumbel / DiscreteEncoder: decided by interpreting the methods with the inner node (softmax / estimator) as a stub whose
    # forward/backprop are uninterpreted functions: what is handed to the stub and what is done to its result
    from ..core.interp import Value

    class Stub(Value):
        def __init__(self, name):
            self.name = name

        def __repr__(self):
            return 'Stub(%s)' % self.name

    def stub_interp():
        it2, dom2 = norm_interp(db)
        calls = []
        om, oe, osub, oga = dom2.method, dom2.call_ext, dom2.subscript, dom2.getattr

        def method(v, name, args, kwargs, node):
            if isinstance(v, Stub):
                calls.append((v.name, name, list(args)))
                if v.name == 'rng':
                    return dom2.sym('u')
                if all(dom2.rat(a) is not None for a in args):
                    return dom2.func_atom('%s_%s' % (v.name, name), list(args))
                return Unknown('stub argument outside NORM')
            if name == 'sum' and dom2.rat(v) is not None:
                return dom2.func_atom('sum_levels', [v])
            return om(v, name, args, kwargs, node)

        def call_ext(dotted, args, kwargs, node):
            if dotted == 'numpy.broadcast_to' and args and dom2.rat(args[0]) is not None:
                return args[0]           # broadcasting repeats values: elementwise algebra is unchanged
            return oe(dotted, args, kwargs, node)

        def subscript(v, idx, node):
            items = idx.items if isinstance(idx, Tup) else [idx]
            if dom2.rat(v) is not None and all((isinstance(x, Const) and x.v is None) or type(x).__name__ == 'Slice' for x in items):
                return v                 # x[:, None] / x[None, :] only add broadcast axes
            return osub(v, idx, node)

        def getattr_(v, name, node):
            if name == 'shape' and dom2.rat(v) is not None:
                return dom2.sym('shape_of_' + dom2.rat(v).key())
            return oga(v, name, node)
        dom2.method, dom2.call_ext, dom2.subscript, dom2.getattr = method, call_ext, subscript, getattr_
        return it2, dom2, calls
    ciG = db.cls(A + 'GumbelSoftmax')
    it2, dom2, calls = stub_interp()

    def mkG():
        o = Obj(ciG)
        o.attrs.update({'tau': dom2.sym('tau'), 'eps': dom2.sym('eps'), 'rng': Stub('rng'), 'smax': Stub('smax')})
        return o
    fb = db.func(A + 'GumbelSoftmax.backprop')
    rb = returns(it2.run(fb, kwargs=lambda: {fb.params[1]: dom2.sym('g')}, self_obj=mkG), fb)
    R2 = dom2.R
    wantb = Rat(R2.func('smax_backprop', [Rat(R2.atom('g'))])) / Rat(R2.atom('tau'))
    okb = len(rb) == 1 and dom2.rat(rb[0].value) is not None and dom2.rat(rb[0].value) == wantb
    run.check(okb, 'C06.activation', fb.qual, 'temperature', 'GumbelSoftmax.backprop == smax.backprop(g)/tau', 'GumbelSoftmax.backprop is %s, not smax.backprop(g)/tau'
              % (dom2.rat(rb[0].value).key() if rb and dom2.rat(rb[0].value) is not None else '?'), fb.loc())
    ff = db.func(A + 'GumbelSoftmax.forward')
    del calls[:]
    it2.run(ff, kwargs=lambda: {'x': dom2.sym('x')}, self_obj=mkG)
    fwd_args = [a[0] for nm, meth, a in calls if nm == 'smax' and meth == 'forward' and a]
    okf = bool(fwd_args) and all(dom2.rat(a) is not None and (dom2.rat(a) * Rat(R2.atom('tau')) - Rat(R2.atom('x'))).atoms().isdisjoint({'tau', 'x'}) for a in fwd_args)
    run.check(okf, 'C06.activation', ff.qual, 'temperature', 'forward hands (x + noise)/tau to the softmax (so d/dx of its argument is 1/tau)',
              'GumbelSoftmax.forward hands %s to the softmax: its derivative with respect to x is not the 1/tau the companion applies' % [dom2.rat(a).key() if dom2.rat(a) is not None else repr(a) for a in fwd_args], ff.loc())
    # DiscreteEncoder: forward sum_k est.forward(x) * levels ; companion = est.backprop(broadcast(g) * levels)
    ciD = db.cls(A + 'DiscreteEncoder')
    it3, dom3, calls3 = stub_interp()

    def mkD():
        o = Obj(ciD)
        o.attrs.update({'est': Stub('est'), 'levels': dom3.sym('levels'), 'tmpshape': dom3.sym('tmpshape')})
        return o
    fb = db.func(A + 'DiscreteEncoder.backprop')
    rb = returns(it3.run(fb, kwargs=lambda: {fb.params[1]: dom3.sym('g')}, self_obj=mkD), fb)
    R3 = dom3.R
    wantd = Rat(R3.func('est_backprop', [Rat(R3.atom('g')) * Rat(R3.atom('levels'))]))
    okd = len(rb) == 1 and dom3.rat(rb[0].value) is not None and dom3.rat(rb[0].value) == wantd
    run.check(okd, 'C06.activation', fb.qual, 'level contraction', 'companion = est.backprop(broadcast(g) * levels)',
              'DiscreteEncoder.backprop is %s, not est.backprop(broadcast(g)*levels)' % (dom3.rat(rb[0].value).key() if rb and dom3.rat(rb[0].value) is not None else '?'), fb.loc())
    ffd = db.func(A + 'DiscreteEncoder.forward')
    rf = returns(it3.run(ffd, kwargs=lambda: {'x': dom3.sym('x')}, self_obj=mkD), ffd)
    wantf = Rat(R3.func('sum_levels', [Rat(R3.func('est_forward', [Rat(R3.atom('x'))])) * Rat(R3.atom('levels'))]))
    okdf = len(rf) == 1 and dom3.rat(rf[0].value) is not None and dom3.rat(rf[0].value) == wantf
    run.check(okdf, 'C06.activation', ffd.qual, 'level contraction', 'forward = sum over levels of est.forward(x) * levels',
              'DiscreteEncoder.forward is %s' % (dom3.rat(rf[0].value).key() if rf and dom3.rat(rf[0].value) is not None else '?'), ffd.loc())


def cost_rules(run, db):
    """Gradients of the cost functions on a generic 3-sample array (symbolic entries)."""
    it, dom = norm_interp(db)
    R = dom.R
    C = 'prysm.x.optym.cost.'

    class VecDomainPatch:
        pass
    n = 3

    def vec(name):
        return Arr((n,), [dom.sym('%s%d' % (name, i)) for i in range(n)])
    # teach the array domain .sum(), .size, .mean() through its generic method hook
    orig_method = dom.method
    orig_getattr = dom.getattr

    def method(v, name, args, kwargs, node):
        if isinstance(v, Arr) and name == 'mean' and not args and not kwargs:
            s = dom.call_ext('numpy.sum', [v], {}, node)
            return it.binop(ast.Div(), s, Const(len(v.data)), node)
        return orig_method(v, name, args, kwargs, node)
    dom.method = method
    orig_ext = dom.call_ext

    def call_ext(dotted, args, kwargs, node):
        if dotted == 'numpy.log' and args and isinstance(args[0], Arr):
            return dom._emap(lambda x: it.call_value(__import__('sa.core.interp', fromlist=['ExtRef']).ExtRef('numpy.log'), [x], {}, node, None), args[0])
        if dotted == 'numpy.zeros_like' and args and isinstance(args[0], Arr):
            return Arr(args[0].shape, [Const(0)] * len(args[0].data))
        return orig_ext(dotted, args, kwargs, node)
    dom.call_ext = call_ext
    # boolean masks: a concrete keep / drop pattern selects entries of the generic array and scatters the gradient back
    is_mask = lambda v: isinstance(v, Arr) and v.data and all(isinstance(z, Const) and isinstance(z.v, bool) for z in v.data)
    orig_sub, orig_store = dom.subscript, dom.store_subscript

    def subscript(v, idx, node):
        if isinstance(v, Arr) and is_mask(idx) and idx.shape == v.shape:
            sel = [x for x, m_ in zip(v.data, idx.data) if m_.v]
            return Arr((len(sel),), sel)
        return orig_sub(v, idx, node)

    def store_subscript(target, idx, val, node):
        if isinstance(target, Arr) and is_mask(idx) and idx.shape == target.shape:
            pos = [k for k, m_ in enumerate(idx.data) if m_.v]
            vals = val.data if isinstance(val, Arr) else [val] * len(pos)
            if len(vals) != len(pos):
                raise AnalysisError('cost gradient: masked store of %d values into %d kept entries' % (len(vals), len(pos)))
            for k, x in zip(pos, vals):
                target.data[k] = x
            return True
        return orig_store(target, idx, val, node)
    dom.subscript, dom.store_subscript = subscript, store_subscript
    keep = [True, False, True]
    for name, kwf, wrt in (('mean_square_error', lambda m: {'M': vec('M'), 'D': vec('D'), 'mask': m}, 'M'),
                           ('negative_loglikelihood', lambda m: {'y': vec('y'), 'yhat': vec('t'), 'mask': m}, 'y'),
                           ('bias_and_gain_invariant_error', lambda m: {'I': vec('I'), 'D': vec('D'), 'mask': m}, 'I')):
        f = db.func(C + name)
        for masked in (False, True):
            mk_mask = (lambda: Arr((n,), [Const(b) for b in keep])) if masked else (lambda: Const(None))
            res = returns(it.run(f, kwargs=lambda: kwf(mk_mask())), f)
            v = res[0].value
            if not (isinstance(v, Tup) and len(v.items) == 2 and isinstance(v.items[1], Arr) and len(v.items[1].data) == n):
                raise AnalysisError('%s: expected (cost, grad) with an array gradient of the input size, got %r' % (f.qual, v))
            cost = as_rat(dom, v.items[0], 'cost')
            for i in range(n):
                g = as_rat(dom, v.items[1].data[i], 'grad[%d]' % i)
                d = diff(cost, '%s%d' % (wrt, i), R)
                tag = ' with the mask [keep, drop, keep]' if masked else ''
                run.check(d == g, 'C06.cost', f.qual, 'gradient' + (' (masked)' if masked else ''), 'grad[%d] == d cost / d %s[%d] (generic %d-sample array%s)' % (i, wrt, i, n, tag),
                          '%s%s: grad[%d] = %s but d cost/d %s[%d] = %s' % (name, tag, i, g.key(), wrt, i, d.key()), f.loc())


def sum_rules(run, db, rule='C06.sum'):
    """sum_of_2d_modes contracts the mode axis, its companion the two spatial axes -- decided on shapes with pairwise
    distinct symbolic dimensions (K modes of shape (r, c)), whatever call spells the contraction."""
    from ..domains.shape import ShapeDomain, Sh, Scalar
    from ..core.interp import Interp
    for qual, kw, want_dims, want_pairs, claim in (
            ('prysm.polynomials.sum_of_2d_modes', lambda: {'modes': Sh(('K', 'r', 'c')), 'weights': Sh(('K',))}, ('r', 'c'), [{('K', 'K')}],
             'forward contracts the mode axis of modes with weights'),
            ('prysm.polynomials.sum_of_2d_modes_backprop', lambda: {'modes': Sh(('K', 'r', 'c')), 'databar': Sh(('r', 'c'))}, ('K',), [{('r', 'r'), ('c', 'c')}, {('r*c', 'r*c')}],
             'companion contracts the two spatial axes of modes with databar')):
        f = db.func(qual)
        dom = ShapeDomain()
        it = Interp(db, dom)
        res = [p for p in it.run(f, kwargs=kw) if p.outcome == 'return']
        if not res:
            raise AnalysisError('%s: no returning path' % qual)
        for p in res:
            v = p.value
            if not isinstance(v, (Sh, Scalar)):
                raise AnalysisError('%s: result shape unknown: %r' % (qual, v))
            pairs = set()
            for e in p.events:
                if e['kind'] == 'tensordot':
                    pairs |= set(e['pairs'])
            bad_layout = [e for e in p.events if e['kind'] == 'layout-order']
            mism = [e for e in p.events if e['kind'] in ('contract-mismatch', 'reshape-reorders', 'broadcast-error')]
            ok = isinstance(v, Sh) and v.dims == want_dims and pairs in want_pairs and not bad_layout and not mism
            run.check(ok, rule, f.qual, 'contraction', claim,
                      '%s returns shape %r after contracting %s%s: %s' % (f.name, getattr(v, 'dims', ()), sorted(pairs),
                                                                          ' with a memory-order flatten (%s), which pairs the samples wrongly for arrays that are not C-ordered' % bad_layout[0]['what'] if bad_layout else '',
                                                                          'it does not ' + claim.split(' ', 1)[1]), f.loc())


def _slice_bounds(dom, s, n):
    """[lo, hi) of a slice (or of one integer index) on an axis of length n, negative positions counted from the end."""
    nr = K.R_(dom, n)

    def pos(v, default):
        if isinstance(v, Const) and v.v is None:
            return default
        r = K.R_(dom, v)
        af = dom.affine(r)
        if af is not None and not af[0] and af[1] < 0:
            return nr + r
        return r
    if isinstance(s, Slice):
        if not (isinstance(s.step, Const) and s.step.v in (None, 1)):
            raise AnalysisError('stencil: strided slice')
        return pos(s.lo, K.R_(dom, Const(0))), pos(s.hi, nr)
    lo = pos(s, None)
    return lo, lo + 1


def _affine_sign(dom, d, nmin=8):
    """sign of an integer-affine difference of positions for every axis length >= nmin: -1 / 0 / +1, None if it changes"""
    af = dom.affine(d)
    if af is None:
        return None
    coeffs, c0 = af
    if not coeffs:
        return (c0 > 0) - (c0 < 0)
    if all(c > 0 for c in coeffs.values()):
        return 1 if c0 + nmin * sum(coeffs.values()) > 0 else None
    if all(c < 0 for c in coeffs.values()):
        return -1 if c0 + nmin * sum(coeffs.values()) < 0 else None
    return None


def _unview(v):
    """(the array a chain of transposed views looks at, is the chain an odd number of transpositions)"""
    tr = False
    while isinstance(v, Shaped) and v.origin is not None and v.origin[0] == 'T':
        v, tr = v.origin[1], not tr
    return v, tr


def stencil(dom, p, axis, xlabel):
    """The linear map a routine writes into its result through slice stores, along `axis` of the result: a list of bands
    (row_lo, row_hi, column offset, coefficient): result[r] += coefficient * x[r + offset] for row_lo <= r < row_hi.  A plain store
    replaces what earlier stores put in the rows it covers; `+=` / `-=` add to it.  Transposed views (moveaxis, swapaxes, .T) of the
    input and of the result are looked through."""
    from fractions import Fraction
    out_arr, out_tr = _unview(p.value)
    if not isinstance(out_arr, Shaped):
        raise AnalysisError('stencil: the result is not an array written by slice stores (%r)' % (p.value,))
    eff = (1 - axis) if out_tr else axis
    full = lambda z: isinstance(z, Slice) and all(isinstance(q, Const) and q.v is None for q in (z.lo, z.hi, z.step)) or (isinstance(z, Const) and z.v is Ellipsis)
    bands = []

    def two(idx):
        items = list(idx.items) if isinstance(idx, Tup) else [idx]
        if len(items) == 1:
            items.append(Slice(Const(None), Const(None), Const(None)))
        if len(items) != 2:
            raise AnalysisError('stencil: index is not 1- or 2-D')
        return items

    def cut(lo, hi):
        """remove the rows [lo, hi) from every band (a plain store overwrites them)"""
        kept = []
        for (a, b, off, c) in bands:
            s1, s2 = _affine_sign(dom, b - lo), _affine_sign(dom, hi - a)
            if s1 is None or s2 is None:
                raise AnalysisError('stencil: cannot order the rows of two stores')
            if s1 <= 0 or s2 <= 0:
                kept.append((a, b, off, c))
                continue
            sl, sh = _affine_sign(dom, lo - a), _affine_sign(dom, b - hi)
            if sl is None or sh is None:
                raise AnalysisError('stencil: cannot order the rows of two stores')
            if sl > 0:
                kept.append((a, lo, off, c))
            if sh > 0:
                kept.append((hi, b, off, c))
        bands[:] = kept
    for e in p.events:
        if e['kind'] != 'store':
            continue
        tgt, idx, val = e['target'], e['index'], e['value']
        tb, ttr = _unview(tgt)
        if tb is not out_arr:
            raise AnalysisError('stencil: a store into an array that is not the result')
        items = two(idx)
        ax_t = (1 - eff) if ttr else eff           # the result axis `eff`, in the frame of the view stored through
        if not full(items[1 - ax_t]):
            raise AnalysisError('stencil: the other axis is not a full slice')
        rlo, rhi = _slice_bounds(dom, items[ax_t], tgt.shape.items[ax_t])
        accumulate = [False]

        def terms(v, coef):
            if isinstance(v, Shaped) and v.origin is not None and v.origin[0] in ('Sub', 'Add'):
                return terms(v.origin[1], coef) + terms(v.origin[2], coef if v.origin[0] == 'Add' else -coef)
            if isinstance(v, Shaped) and v.origin is not None and v.origin[0] == 'scale' and v.origin[1] in ('Mult', 'Div'):
                r = dom.rat(v.origin[3])
                if r is None or not (r.num.is_const() and r.den.is_const()) or r.is_zero():
                    raise AnalysisError('stencil: scaled by something that is not a constant')
                k = Fraction(r.num.const_value()) / Fraction(r.den.const_value())
                return terms(v.origin[2], coef * k if v.origin[1] == 'Mult' else coef / k)
            if isinstance(v, Shaped) and v.origin is not None and v.origin[0] == 'slice':
                src, sidx = v.origin[1], v.origin[2]
                sb, str_ = _unview(src)
                sitems = two(sidx)
                if sb is out_arr:
                    ax_s = (1 - eff) if str_ else eff
                    slo, shi = _slice_bounds(dom, sitems[ax_s], src.shape.items[ax_s])
                    if full(sitems[1 - ax_s]) and slo == rlo and shi == rhi:
                        accumulate[0] = True
                        return []
                    raise AnalysisError('stencil: reads the result at a different place than it writes')
                if sb.label != xlabel:
                    raise AnalysisError('stencil: reads %r, which is neither the input nor the result' % (sb.label,))
                ax_s = (1 - axis) if str_ else axis        # the input axis `axis`, in the frame of the view read through
                if not full(sitems[1 - ax_s]):
                    raise AnalysisError('stencil: source slice restricts the other axis')
                slo, shi = _slice_bounds(dom, sitems[ax_s], src.shape.items[ax_s])
                if not ((shi - slo) == (rhi - rlo)):
                    raise AnalysisError('stencil: source and target slices have different lengths')
                return [(rlo, rhi, slo - rlo, coef)]
            if isinstance(v, Const) and v.v == 0:
                return []
            raise AnalysisError('stencil: unsupported value %r' % (v,))
        new = terms(val, Fraction(1))
        if not accumulate[0]:
            cut(rlo, rhi)
        bands.extend(new)
    if not bands:
        raise AnalysisError('stencil: no slice store into the result was followed (nothing to compare)')
    return bands


def canon(dom, entries, transpose=False):
    """normal form of a list of bands: per column offset, the rows are cut at every band edge, coefficients of overlapping bands are
    added, zero bands dropped and neighbouring bands with one coefficient merged."""
    from fractions import Fraction
    by_off = {}
    for rlo, rhi, off, c in entries:
        if transpose:
            # entry (r, r+off) for r in [rlo, rhi)  ->  (r+off, r): rows [rlo+off, rhi+off), offset -off
            rlo, rhi, off = rlo + off, rhi + off, -off
        by_off.setdefault(off.key(), []).append((rlo, rhi, off, Fraction(c)))
    out = set()
    for key, group in by_off.items():
        pts = {}
        for rlo, rhi, off, c in group:
            pts[rlo.key()] = rlo
            pts[rhi.key()] = rhi
        import functools

        def order(a, b):
            s_ = _affine_sign(dom, a - b)
            if s_ is None:
                raise AnalysisError('stencil: cannot order band edges %s and %s' % (a.key(), b.key()))
            return s_
        edges = sorted(pts.values(), key=functools.cmp_to_key(order))
        pieces = []
        for a, b in zip(edges, edges[1:]):
            tot = Fraction(0)
            for rlo, rhi, off, c in group:
                if order(rlo, a) <= 0 and order(b, rhi) <= 0:
                    tot += c
            if tot != 0:
                if pieces and pieces[-1][1].key() == a.key() and pieces[-1][2] == tot:
                    pieces[-1] = (pieces[-1][0], b, tot)
                else:
                    pieces.append((a, b, tot))
        for a, b, tot in pieces:
            out.add((a.key(), b.key(), key, str(tot)))
    return out


def fd_rules(run, db):
    O = 'prysm.x.optym.operators.SpatialGradient2D.'
    ci = db.cls('prysm.x.optym.operators.SpatialGradient2D')
    for ax, suffix in ((1, 'x'), (0, 'y')):
        ff, fb = db.func(O + 'forward_' + suffix), db.func(O + 'backprop_' + suffix)
        it, dom = K.mk(db, {})
        rf = [p for p in it.run(ff, kwargs=lambda: {'x': dom.array('x', 'n0', 'n1')}, self_obj=lambda: Obj(ci)) if p.outcome == 'return']
        rb = [p for p in it.run(fb, kwargs=lambda: {'xbar': dom.array('xbar', 'n0', 'n1')}, self_obj=lambda: Obj(ci)) if p.outcome == 'return']
        if len(rf) != 1 or len(rb) != 1:
            raise AnalysisError('SpatialGradient2D %s: expected one path each' % suffix)
        ef = stencil(dom, rf[0], ax, 'x')
        eb = stencil(dom, rb[0], ax, 'xbar')
        # bounds must come from the differentiated axis
        n_ax = K.R_(dom, dom.length('n%d' % ax))
        other = 'n%d' % (1 - ax)
        uses_other = any(('a_' + other in k or other in k.replace('a_' + other, '')) and False for k in [])
        txtf = ' '.join(sorted(str(t) for t in canon(dom, ef)))
        txtb = ' '.join(sorted(str(t) for t in canon(dom, eb)))
        run.check(other not in txtf, 'C06.fd', ff.qual, 'axis of the bounds', 'forward_%s takes its bounds from axis %d' % (suffix, ax),
                  'forward_%s differences axis %d but takes its bounds from the length of the other axis: %s' % (suffix, ax, txtf), ff.loc())
        run.check(other not in txtb, 'C06.fd', fb.qual, 'axis of the bounds', 'backprop_%s takes its bounds from axis %d' % (suffix, ax),
                  'backprop_%s takes its bounds from the length of the other axis: %s' % (suffix, txtb), fb.loc())
        want = canon(dom, ef, transpose=True)
        got = canon(dom, eb)
        run.check(want == got, 'C06.fd', fb.qual, 'index-set transposition', 'backprop_%s stencil == transpose of forward_%s stencil' % (suffix, suffix),
                  'backprop_%s is not the transpose of forward_%s: forward^T = %s, companion = %s (rows [lo,hi), column offset, coefficient)'
                  % (suffix, suffix, sorted(want), sorted(got)), fb.loc())


def arg_of_(seq, name, pos):
    for nm, n, st in seq:
        if nm == name:
            a = list(n.args) + [k.value for k in n.keywords]
            return ast.unparse(a[pos]) if len(a) > pos else None
    return None


def resample_adjoint_rules(run, db):
    """fourier_resample_backprop is the transpose of fourier_resample, stage by stage in reverse: the zoomed inverse matrix DFT is answered
    by its own companion with the same zoom and the input size, the forward FFT by the inverse FFT times the number of input samples
    (fft2^H = m n ifft2), shifts are mirrored, and the scalar of the forward is carried over."""
    from ..core.interp import Interp, Value
    from .common import capture_calls
    FT_ = 'prysm.fttools.'
    ff, fb = db.func(FT_ + 'fourier_resample'), db.func(FT_ + 'fourier_resample_backprop')
    E = FT_ + 'MatrixDFTExecutor.'

    def run_one(f, kw, ev_name):
        it, dom = norm_interp(db)
        oe = dom.call_ext
        seq = []

        def call_ext(dotted, args, kwargs, node):
            last = dotted.rsplit('.', 1)[-1]
            if last in ('fft2', 'ifft2', 'fftshift', 'ifftshift') and dotted.startswith(('scipy.fft', 'numpy.fft')) and args and dom.rat(args[0]) is not None:
                seq.append(last)
                return dom.func_atom(last, [args[0]]) if last in ('fft2', 'ifft2') else args[0]
            if last == 'sqrt' and args and dom.rat(args[0]) is not None:
                return oe(dotted, args, kwargs, node)
            return oe(dotted, args, kwargs, node)
        dom.call_ext = call_ext
        og = dom.getattr

        def getattr_(v, name, node):
            if dom.rat(v) is not None and name == 'shape':
                return Tup([dom.sym('m'), dom.sym('n')])
            if dom.rat(v) is not None and name == 'size':
                return it.binop(ast.Mult(), dom.sym('m'), dom.sym('n'), node)
            if dom.rat(v) is not None and name == 'real':
                seq.append('real')
                return v
            return og(v, name, node)
        dom.getattr = getattr_
        paths, calls = capture_calls(it, dom, f, kw(dom), {E + 'idft2', E + 'idft2_backprop'}, lambda f_, b_: (seq.append(f_.name), dom.sym('X_' + f_.name))[1])
        rets = [p for p in paths if p.outcome == 'return' and dom.rat(p.value) is not None and any(a.startswith(('X_', 'ifft2(', 'fft2(')) for a in dom.rat(p.value).atoms())]
        return dom, seq, calls, rets
    domf, seqf, callsf, retsf = run_one(ff, lambda d: (lambda: {'f': d.sym('F'), 'zoom': Tup([d.sym('z0'), d.sym('z1')])}), 'f')
    domb, seqb, callsb, retsb = run_one(fb, lambda d: (lambda: {'fbar': d.sym('G'), 'zoom': Tup([d.sym('z0'), d.sym('z1')]), 'samples_in': Tup([d.sym('m'), d.sym('n')])}), 'b')
    if len(callsf) != 1 or len(callsb) != 1 or not retsf or not retsb:
        raise AnalysisError('fourier_resample(_backprop): the zoomed matrix DFT call or the returned value is not followed')
    mirror = {'fftshift': 'ifftshift', 'ifftshift': 'fftshift', 'fft2': 'ifft2', 'idft2': 'idft2_backprop', 'real': 'real'}
    want = [mirror.get(x, x) for x in reversed([x for x in seqf if x != 'real'])]
    got = [x for x in seqb if x != 'real']
    run.check(got == want, 'C06.dm', fb.qual, 'resampler transpose: stages', 'the companion applies the transposes of the forward steps in reverse order: %s' % want,
              'fourier_resample applies %s; its companion applies %s, expected %s' % (seqf, seqb, want), fb.loc())
    kf, kb = callsf[0][1], callsb[0][1]
    keyf = lambda d, v: d.rat(v).key() if v is not None and d.rat(v) is not None else (('(%s)' % ','.join(keyf(d, x) for x in v.items)) if isinstance(v, Tup) else repr(v))
    okz = keyf(domf, kf.get('Q')) == keyf(domb, kb.get('Q')) == '(z0,z1)' and keyf(domb, kb.get('samples_out')) == '(m,n)'
    run.check(okz, 'C06.dm', fb.qual, 'resampler transpose: zoomed DFT', 'the zoomed inverse DFT and its companion share the zoom; the companion is given the input size (m, n)',
              'forward idft2(Q=%s, samples_out=%s); companion idft2_backprop(Q=%s, samples=%s)' % (keyf(domf, kf.get('Q')), keyf(domf, kf.get('samples_out')), keyf(domb, kb.get('Q')), keyf(domb, kb.get('samples_out'))), fb.loc())
    # scalars: forward c = z0 z1 / sqrt(m n); companion c * m n
    Rf, Rb = domf.R, domb.R
    cf_ = domf.rat(retsf[0].value) / Rat(Rf.atom('X_idft2'))
    inner = [a for a in domb.rat(retsb[0].value).atoms() if a.startswith(('ifft2(', 'fft2('))]
    if len(inner) != 1:
        raise AnalysisError('fourier_resample_backprop: the result is not a multiple of one inverse FFT')
    cb_ = domb.rat(retsb[0].value) / Rat(Rb.atom(inner[0]))
    m_, n_ = Rat(Rb.atom('m')), Rat(Rb.atom('n'))
    want_b = Rat(Rb.atom('z0')) * Rat(Rb.atom('z1')) / Rat(Rb.sqrt(m_ * n_)) * m_ * n_
    want_f = Rat(Rf.atom('z0')) * Rat(Rf.atom('z1')) / Rat(Rf.sqrt(Rat(Rf.atom('m')) * Rat(Rf.atom('n'))))
    run.check(cb_ == want_b and cf_ == want_f,
              'C06.dm', fb.qual, 'resampler transpose: scalar', 'companion scalar == forward scalar (z0 z1 / sqrt(m n)) times m n (fft2^H = m n ifft2)',
              'forward scalar %s, companion scalar %s' % (cf_.key(), cb_.key()), fb.loc())


def dm_rules(run, db):
    D = 'prysm.x.dm.DM.'
    ff, fb = db.func(D + 'render'), db.func(D + 'render_backprop')
    stage_names = {'apply_transfer_functions', 'warp', 'fourier_resample', 'fourier_resample_backprop', 'pad2d', 'crop_center'}

    def stages(fi):
        out = []
        for st in sorted([n for n in walk_no_nested(fi.node) if isinstance(n, ast.stmt)], key=lambda s: (s.lineno, s.col_offset)):
            if isinstance(st, (ast.Assign, ast.AugAssign, ast.Return, ast.Expr)):
                for n in ast.walk(st.value) if hasattr(st, 'value') and st.value is not None else []:
                    if isinstance(n, ast.Call) and ast.unparse(n.func) in stage_names:
                        out.append((ast.unparse(n.func), n, st))
                if isinstance(st, ast.AugAssign) and isinstance(st.op, ast.Mult) and 'obliquity' in ast.unparse(st.value):
                    out.append(('scale', st, st))
        return out
    sf, sb = stages(ff), stages(fb)

    def collapse(seq):
        # pad2d/crop_center alternatives of one if/elif form one "resize" stage
        out = []
        for name, n, st in seq:
            nm = 'resize' if name in ('pad2d', 'crop_center') else name
            if out and out[-1] == 'resize' and nm == 'resize':
                continue
            out.append(nm)
        return out
    cf, cb = collapse(sf), collapse(sb)
    # the companion of a Fourier resampling is its transpose; resampling by the reciprocal factor is another map (it is the approximate
    # inverse, not the adjoint: different scale and different treatment of the band edge)
    resamp_b = [nm for nm in cb if nm.startswith('fourier_resample')]
    if 'fourier_resample' in cf:
        run.check(resamp_b == ['fourier_resample_backprop'], 'C06.dm', fb.qual, 'resampling companion', 'the Fourier resampling of render is undone by fourier_resample_backprop (its transpose)',
                  'render resamples with fourier_resample; render_backprop answers with %s -- resampling by the reciprocal factor is not the transpose of the resampler, so for upsample != 1 '
                  '<ybar, render(a)> != <render_backprop(ybar), a>' % (resamp_b or 'nothing'), fb.loc())
        zf, zb = arg_of_(sf, 'fourier_resample', 1), arg_of_(sb, 'fourier_resample_backprop', 1)
        if resamp_b == ['fourier_resample_backprop']:
            run.check(zf == zb, 'C06.dm', fb.qual, 'resampling factor', 'forward and companion are given the same zoom', 'forward resamples by %s, the companion is given %s' % (zf, zb), fb.loc())
    cb = ['fourier_resample' if nm == 'fourier_resample_backprop' else nm for nm in cb]
    run.check(cb == list(reversed(cf)), 'C06.dm', fb.qual, 'stage order', 'companion stages are the forward stages in reverse: %s' % cf,
              'render_backprop stages %s are not the reverse of render stages %s' % (cb, cf), fb.loc())
    # geometric arguments correspond
    def arg_of(seq, name, pos):
        for nm, n, st in seq:
            if nm == name:
                a = list(n.args) + [k.value for k in n.keywords]
                return ast.unparse(a[pos]) if len(a) > pos else None
        return None
    run.check(arg_of(sf, 'warp', 1) == 'self.projx' and arg_of(sb, 'warp', 1) == 'self.invprojx' and arg_of(sf, 'warp', 2) == 'self.projy' and arg_of(sb, 'warp', 2) == 'self.invprojy',
              'C06.dm', fb.qual, 'warp coordinates', 'forward warps with proj, companion with invproj', 'warp coordinate sets do not correspond (forward %s, companion %s)' % (arg_of(sf, 'warp', 1), arg_of(sb, 'warp', 1)), fb.loc())
    tfb = arg_of(sb, 'apply_transfer_functions', 2)
    # a local that holds the filter list is looked through (adjoint_tf = [np.conj(tf) for tf in self.tf])
    for _ in range(3):
        if tfb is not None and tfb.isidentifier():
            defs = [n for n in walk_no_nested(fb.node) if isinstance(n, ast.Assign) and len(n.targets) == 1 and isinstance(n.targets[0], ast.Name) and n.targets[0].id == tfb]
            if len(defs) != 1:
                break
            tfb = ast.unparse(defs[0].value)
    if tfb is None or 'self.tf' not in tfb:
        raise AnalysisError('DM.render_backprop: which transfer functions the companion filters with (%s) is not followed back to self.tf' % tfb)
    run.check(arg_of(sf, 'apply_transfer_functions', 2) == 'self.tf' and tfb is not None and 'conj' in tfb and 'self.tf' in tfb, 'C06.dm', fb.qual, 'transfer function',
              'companion filters with conj(tf)', 'companion filters with %s' % tfb, fb.loc())
    # scatter / gather
    scat = [n for n in walk_no_nested(ff.node) if isinstance(n, ast.Assign) and ast.unparse(n.targets[0]) == 'self.poke_arr[self.iyy, self.ixx]']
    gath = [n for n in walk_no_nested(fb.node) if isinstance(n, ast.Return) and n.value is not None and ast.unparse(n.value).endswith('[self.iyy, self.ixx]')]
    run.check(len(scat) == 1 and len(gath) == 1, 'C06.dm', fb.qual, 'scatter/gather', 'forward scatters to [iyy, ixx], companion gathers from [iyy, ixx]',
              'actuator scatter/gather indices do not correspond', fb.loc())
    # pad-vs-crop guards compare one axis with itself
    for fi in (ff, fb):
        for n in walk_no_nested(fi.node):
            if isinstance(n, ast.If) and n.orelse and isinstance(n.orelse[0], ast.If):
                t1, t2 = n.test, n.orelse[0].test
                if all(isinstance(t, ast.Compare) and len(t.comparators) == 1 for t in (t1, t2)) and \
                        any('pad2d' in ast.unparse(x) or 'crop_center' in ast.unparse(x) for x in n.body):
                    def idxs(t):
                        return [ast.unparse(s.slice) for s in ast.walk(t) if isinstance(s, ast.Subscript)]
                    i1, i2 = idxs(t1), idxs(t2)
                    ok = len(set(i1 + i2)) == 1 and ast.unparse(t1.left) == ast.unparse(t2.left) and ast.unparse(t1.comparators[0]) == ast.unparse(t2.comparators[0])
                    run.check(ok, 'C06.dm', fi.qual, 'pad/crop guard', 'pad and crop branches compare the same axis of the same two shapes',
                              'pad/crop selection compares `%s` in one branch and `%s` in the other (mixed axes)' % (ast.unparse(t1), ast.unparse(t2)), fi.loc(n))


def inventory_rules(run, db):
    pairs = [(FT + 'MatrixDFTExecutor.dft2', FT + 'MatrixDFTExecutor.dft2_backprop'), (FT + 'MatrixDFTExecutor.idft2', FT + 'MatrixDFTExecutor.idft2_backprop'),
             (P + 'focus_fixed_sampling', P + 'focus_fixed_sampling_backprop'), (P + 'unfocus_fixed_sampling', P + 'unfocus_fixed_sampling_backprop'),
             (P + 'to_fpm_and_back', P + 'to_fpm_and_back_backprop'), (P + 'Wavefront.intensity', P + 'Wavefront.intensity_backprop'),
             (P + 'Wavefront.from_amp_and_phase', P + 'Wavefront.from_amp_and_phase_backprop_phase'), (P + 'Wavefront.focus_fixed_sampling', P + 'Wavefront.focus_fixed_sampling_backprop'),
             (P + 'Wavefront.to_fpm_and_back', P + 'Wavefront.to_fpm_and_back_backprop'), (P + 'Wavefront.babinet', P + 'Wavefront.babinet_backprop'),
             ('prysm.polynomials.sum_of_2d_modes', 'prysm.polynomials.sum_of_2d_modes_backprop'), ('prysm.x.dm.DM.render', 'prysm.x.dm.DM.render_backprop')]
    for cn in ('Softmax', 'GumbelSoftmax', 'DiscreteEncoder', 'Tanh', 'Arctan', 'Softplus', 'Sigmoid'):
        pairs.append(('prysm.x.optym.activation.%s.forward' % cn, 'prysm.x.optym.activation.%s.backprop' % cn))
    for s in 'xy':
        pairs.append(('prysm.x.optym.operators.SpatialGradient2D.forward_' + s, 'prysm.x.optym.operators.SpatialGradient2D.backprop_' + s))
    for a, b in pairs:
        run.check(db.has_func(a) and db.has_func(b), 'C06.inventory', b, 'pair', 'forward/companion pair present', 'forward or companion missing: %s / %s' % (a, b), '')


def cache_rules(run, db):
    """Adjoint bases that are memoised must be keyed by everything that determines the forward bases they are formed from."""
    # the executors' memos are decided by interpretation (DEP domain): whatever a companion stores or reads is determined by its key
    from . import c01
    from .c02 import Proxy
    run.group(c01.cache_rules, Proxy(run, {'C01.cache': 'C06.cache'}), db)
    from .purity import memo_completeness
    res = memo_completeness(db, ['prysm.fttools', 'prysm.propagation', 'prysm.x.optym.operators', 'prysm.x.dm'])
    for fi, st, memo, missing in res:
        run.check(not missing, 'C06.cache', fi.qual, 'memo %s' % memo, 'memo %s is keyed by every input its fill block reads' % memo,
                  'the memo %s is filled from %s, which its key does not contain: a companion called with a geometry that differs only there re-uses the adjoint bases of the EARLIER geometry '
                  '(e.g. the unshifted bases for a shifted transform), so it is no longer the adjoint of its forward routine' % (memo, missing), fi.loc(st))


def check(run, db, tier):
    run.trust('KERNEL/NORM engines; a matrix triple product L @ x @ R has adjoint L^H @ g @ R^H; the adjoint of a composition is the reversed composition of adjoints',
              'symbolic differentiation D_x of NORM for exp/log/arctan closed forms; slice-store stencils with affine bounds (SpatialGradient2D)')
    run.assume('real upstream gradient convention of the library (gradient w.r.t. the complex field is 2 Ibar E); rank-2 arrays',
               'cost-function gradients are decided on a generic 3-sample symbolic array (the code is uniform in the length)',
               'not decided: Softmax Jacobian-vector product, bias_and_gain_invariant_error gradient, that the inverse warp/resample are the adjoints of the forward interpolations (values)')
    run.rule('C06.inventory', 'every forward routine named by the property has its companion')
    run.rule('C06.matrix', 'dft2/idft2 companions apply the conjugate transposes of the forward bases of the same geometry (all shift contexts)')
    run.rule('C06.fixed', 'fixed-sampling companions: bases are conjugate transposes of the forward ones under the role map (gradient shape = forward output, samples = forward input), so Q agrees per axis')
    run.rule('C06.chain', 'composite companions apply the stage companions in reverse order on the same gradient (mask-and-back, Babinet)')
    run.rule('C06.conj', 'complex constants (mask, Lyot stop) enter the companion conjugated; the guard tests the array')
    run.rule('C06.scalar', 'a linear companion carries no scalar factor that the forward does not have')
    run.rule('C06.wrapper', 'Wavefront companions delegate with spacings/arguments in the companion roles')
    run.rule('C06.const', 'intensity companion == 2 Ibar E; phase companion == (2 pi/(1000 lambda)) Im(gbar conj(E))')
    run.rule('C06.activation', 'closed-form activation derivatives equal D_x forward(x); temperature and level plumbing')
    run.rule('C06.cost', 'cost gradients equal the symbolic derivative of the cost')
    run.rule('C06.sum', 'modal sum contracts the mode axis, its companion the spatial axes')
    run.rule('C06.fd', 'finite-difference companions are the index-set transposes of the forward stencils, bounds from the differentiated axis')
    run.rule('C06.cache', 'memoised (adjoint) bases are keyed by every input of the forward bases: module-level and instance-attribute dict memos, tuple keys component-wise')
    run.group(cache_rules, run, db)
    run.require_instances('C06.cache', 2)
    run.rule('C06.dm', 'DM companion runs the forward stages in reverse with corresponding geometry; pad/crop guards compare one axis')
    # the transform pairs as adjoints on values: <A x, y> == <x, A^H y> for symbolic complex samples (matrix-DFT executor and the
    # fixed-sampling routines with their _backprop companions, two size pairs each, with and without a shift)
    from .c06values import adjoint_value_rules, babinet_adjoint_value_rules, fd_adjoint_value_rules, dm_resize_value_rules
    run.group(adjoint_value_rules, run, db)
    run.babinet_on_values = run.group(babinet_adjoint_value_rules, run, db)
    for fn in (inventory_rules, matrix_rules, fixed_rules, chain_rules, babinet_bp_rules, wrapper_rules, const_rules, activation_rules, cost_rules, sum_rules, fd_rules, dm_rules, resample_adjoint_rules):
        run.group(fn, run, db)
    run.forgive('adjoint_value_rules', ['matrix_rules', 'fixed_rules'])
    run.forgive('babinet_adjoint_value_rules', ['babinet_bp_rules', 'chain_rules'])
    n_fd = run.group(fd_adjoint_value_rules, run, db)
    run.forgive('fd_adjoint_value_rules', ['fd_rules'])
    run.defer('fd_rules', 'fd_adjoint_value_rules', n_fd)
    run.group(dm_resize_value_rules, run, db)
    from .c06values import modal_sum_value_rules
    n_ms = run.group(modal_sum_value_rules, run, db)
    run.forgive('modal_sum_value_rules', ['sum_rules'])
    run.defer('sum_rules', 'modal_sum_value_rules', n_ms, [('C06.sum', 2)])
    run.forgive('dm_resize_value_rules', ['dm_rules'])
    run.require_instances('C06.matrix', 20)
    run.require_instances('C06.fixed', 16)
    run.require_instances('C06.chain', 8)
