"""Generic audit of module-level memos (a dict at module level that some function fills): shared by every property whose anchored
modules could grow one.  Decided with the DEP domain: the function that fills the memo is interpreted with every parameter an atom;
whatever the stored value (and the tests that led to the store) depends on must be determined by the key it is stored under, and an
array handed out of the memo must not be edited in place by the function that fetched it.

The pinned tree has no such memo (functools.lru_cache on scalar-argument recurrence coefficients is keyed by all arguments by
construction), so on an unchanged tree the rule has no instance in prysm; a built-in example (one complete key, one incomplete key)
is analysed on every run so that the rule cannot pass vacuously."""
import ast

from ..core.db import AnalysisError, Module, walk_no_nested

EXAMPLE = '''
_good = {}
_bad = {}


def good(n, dx, z):
    key = (n, float(dx), abs(z))
    try:
        return _good[key]
    except KeyError:
        a = abs(z)
        v = n * dx * a
        _good[key] = v
        return v


def bad(n, dx, z):
    key = (n, float(dx), abs(z))
    if key not in _bad:
        _bad[key] = n * dx * z
    return _bad[key]
'''


def _dict_globals(mod):
    out = set()
    for name, v in mod.assigns.items():
        if isinstance(v, ast.Dict) and not v.keys:
            out.add(name)
        elif isinstance(v, ast.Call) and ast.unparse(v.func).rsplit('.', 1)[-1] in ('dict', 'OrderedDict') and not v.args and not v.keywords:
            out.add(name)
    return out


def _fills(mod, names):
    """[(function, memo name)]: functions of the module (methods included) that store into a module-level dict."""
    out = []
    funcs = list(mod.functions.values()) + [m for c in mod.classes.values() for m in c.methods.values()]
    for fi in funcs:
        rebound = {n.id for n in ast.walk(fi.node) if isinstance(n, ast.Name) and isinstance(n.ctx, ast.Store)} | set(fi.params)
        for n in walk_no_nested(fi.node):
            hit = None
            if isinstance(n, (ast.Assign, ast.AugAssign)):
                tg = n.targets if isinstance(n, ast.Assign) else [n.target]
                for t in tg:
                    if isinstance(t, ast.Subscript) and isinstance(t.value, ast.Name) and t.value.id in names and t.value.id not in rebound:
                        hit = t.value.id
            elif isinstance(n, ast.Call) and isinstance(n.func, ast.Attribute) and n.func.attr in ('setdefault', 'update') and isinstance(n.func.value, ast.Name) \
                    and n.func.value.id in names and n.func.value.id not in rebound:
                hit = n.func.value.id
            if hit and (fi, hit) not in out:
                out.append((fi, hit))
    return out


def _extent_guard(fi, memo):
    """does fi compare the extent (len / shape / size) of something it read from the memo with anything?"""
    fetched = set()
    for n in walk_no_nested(fi.node):
        if isinstance(n, ast.Assign) and any(isinstance(x, ast.Name) and x.id == memo for x in ast.walk(n.value)):
            for t in n.targets:
                fetched |= {x.id for x in ast.walk(t) if isinstance(x, ast.Name)}
    for n in walk_no_nested(fi.node):
        if isinstance(n, ast.Compare):
            for side in [n.left] + list(n.comparators):
                for x in ast.walk(side):
                    if isinstance(x, ast.Call) and isinstance(x.func, ast.Name) and x.func.id == 'len' and x.args and any(isinstance(y, ast.Name) and y.id in fetched for y in ast.walk(x.args[0])):
                        return True
                    if isinstance(x, ast.Attribute) and x.attr in ('shape', 'size') and any(isinstance(y, ast.Name) and (y.id in fetched) for y in ast.walk(x.value)):
                        return True
    return False


def audit_module(db, mod, only=None):
    """[(function, memo, kind, text)] for the module-level memos of `mod`; kind in {'ok', 'incomplete', 'inplace'}.  Raises
    AnalysisError when a memo cannot be followed."""
    from ..core.interp import Interp, Obj, Unknown, Tup, DictV
    from ..domains.dep import DepDomain, MemoDict, deps_of, missing_from, UNKNOWN
    names = _dict_globals(mod)
    if not names:
        return []
    out = []
    for fi, memo in _fills(mod, names):
        if only is not None and fi.qual not in only:
            continue
        dom = DepDomain()
        it = Interp(db, dom)
        holder = {}

        def setup(interp, memo=memo, dom=dom):
            dom.reset()
            for nm in names:
                d = MemoDict(dom, nm)
                holder[nm] = d
                interp.globals_cache[(mod.name, nm)] = d
        kwargs = lambda fi=fi, dom=dom: {p: dom.atom(p) for p in fi.params if p not in ('self', 'cls')}
        self_obj = None
        if fi.cls is not None and fi.params and fi.params[0] == 'self':
            ci = fi.cls
            self_obj = lambda ci=ci: Obj(ci)
        stored = 0
        seen = set()
        for p in it.run(fi, kwargs=kwargs, self_obj=self_obj, setup=setup):
            if p.outcome != 'return':
                continue
            d = holder[memo]
            ctrl = set(dom.memo_ctrl.get(memo, ()))
            for k, v in d.entries:
                stored += 1
                need = deps_of(v) | ctrl
                if UNKNOWN in need:
                    unk = [x for x in ([v] if not isinstance(v, Tup) else v.items) if isinstance(x, Unknown)]
                    raise AnalysisError('%s: what is stored in the memo %s (or the key it is stored under) is not followed: %r' % (fi.qual, memo, unk[:2] or 'a test on the way to the store'))
                if UNKNOWN in deps_of(k):
                    raise AnalysisError('%s: the key of the memo %s is not followed' % (fi.qual, memo))
                # a derived atom (abs(z), len(x) ...) in the key determines itself only
                miss = missing_from(k, need)
                sig = tuple(miss)
                if sig in seen:
                    continue
                seen.add(sig)
                if miss and _extent_guard(fi, memo):
                    # an entry that is extended when a request needs more of it (a table of orders 0..N regrown for a larger N): the
                    # entry legitimately depends on earlier requests; whether the regrow test is right is a matter of values
                    raise AnalysisError('%s: the memo %s holds tables that are extended on demand (their extent is compared with the request): whether every request is '
                                        'covered by the table it is served from is not decided here' % (fi.qual, memo))
                if miss:
                    out.append((fi, memo, 'incomplete', 'the memo %s is filled from %s, which the key it is stored under does not determine: a later call that differs only in %s is served the entry '
                                'computed for the earlier one' % (memo, miss, miss)))
                else:
                    out.append((fi, memo, 'ok', 'everything the value stored in %s depends on is determined by its key' % memo))
            for node, m in dom.inplace:
                out.append((fi, memo, 'inplace', 'an array held by the memo %s is modified in place at line %d: every later hit is served the modified array' % (m, getattr(node, 'lineno', 0))))
        if not stored:
            raise AnalysisError('%s: no store into the memo %s was reached on any path' % (fi.qual, memo))
    return out


def _selfcheck(db):
    """the built-in example must give exactly: good -> ok, bad -> incomplete (z)."""
    mod = Module('prysm._verif_memo_example', '<memo example>', '<memo example>', EXAMPLE)
    res = audit_module(db, mod)
    got = sorted((fi.name, kind) for fi, _, kind, _ in res)
    if got != [('bad', 'incomplete'), ('good', 'ok')]:
        raise AnalysisError('memo audit self-check failed: %s' % got)
    return len(res)


def global_memo_rules(run, db, rule, modnames):
    """Audit every module-level memo in the modules `modnames` under the rule name `rule`."""
    n = _selfcheck(db)
    run.ok(rule, 'sa.rules.memo', 'built-in example: a complete key is accepted and a key through abs() of an argument the value uses with its sign is rejected', nontrivial=False)
    total = 0
    for name in modnames:
        if name not in db.modules:
            continue
        mod = db.modules[name]
        for fi, memo, kind, text in audit_module(db, mod):
            total += 1
            run.check(kind == 'ok', rule, fi.qual, 'memo %s: %s' % (memo, kind if kind != 'ok' else 'key'), text, text, fi.loc())
    if not total:
        run.ok(rule, ','.join(m for m in modnames if m in db.modules)[:120], 'no module-level memo in the anchored modules (nothing is served from a cache there)', nontrivial=False)


def _reach(db, entries, depth=5):
    """qualified names of the prysm functions reachable from `entries` through calls by name / self.method (to the given depth)."""
    seen = set()

    def rec(f, d):
        if f.qual in seen or d < 0:
            return
        seen.add(f.qual)
        for n in walk_no_nested(f.node):
            if not isinstance(n, ast.Call):
                continue
            g = None
            if isinstance(n.func, ast.Name):
                r = db.resolve_name(f.module, n.func.id)
                g = r if isinstance(getattr(r, 'node', None), ast.FunctionDef) else None
            elif isinstance(n.func, ast.Attribute) and isinstance(n.func.value, ast.Name) and n.func.value.id in ('self', 'cls') and f.cls is not None:
                g = db.method(f.cls, n.func.attr)
            if g is not None:
                rec(g, d - 1)
    for e in entries:
        rec(e, depth)
    return seen


def memo_group(run, db, prop):
    """The generic memo audit for one property: the memos filled by functions that the property's rules analysed, or that those
    functions reach, are this property's business."""
    rule = '%s.memo' % prop
    run.rule(rule, 'a module-level memo reached from the analysed functions is keyed by everything its entries depend on, and its arrays are not edited in place')
    _selfcheck(db)
    run.ok(rule, 'sa.rules.memo', 'built-in example: a complete key is accepted, a key through abs() of an argument the value uses with its sign is rejected', nontrivial=False)
    entries = []
    for q in sorted(run.analysed['functions']):
        q0 = q.split('#')[0]
        if db.has_func(q0):
            entries.append(db.func(q0))
    reach = _reach(db, entries)
    total = 0
    for name in sorted({q.rsplit('.', 1)[0] for q in reach} | {q.rsplit('.', 2)[0] for q in reach}):
        mod = db.modules.get(name)
        if mod is None or not _dict_globals(mod):
            continue
        mine = [(fi, memo) for fi, memo in _fills(mod, _dict_globals(mod)) if fi.qual in reach]
        if not mine:
            continue
        for fi, memo, kind, text in audit_module(db, mod, only={fi.qual for fi, _ in mine}):
            total += 1
            run.check(kind == 'ok', rule, fi.qual, 'memo %s: %s' % (memo, kind if kind != 'ok' else 'key'), text, text, fi.loc())
    run.info('%s: %d functions reachable from the analysed ones, %d memo stores audited' % (rule, len(reach), total)) if hasattr(run, 'info') else None
