"""C15 / C04 on values: the PSF -> OTF transforms run on small concrete arrays with exact DFTs (lengths 2, 3, 4, 6).
A flat PSF of level A has its whole transform in the DC sample, which must sit at (n0//2, n1//2); a single sample A at (n0//2, n1//2)
transforms to the constant A with no phase ramp; the MTF of the flat PSF is 1 at the centre and 0 elsewhere (normalised by its own
sample at n//2 -- a wrong centre index divides by zero)."""
from ..core.db import AnalysisError
from ..core.interp import Const, Tup, Obj
from ..core.norm import Rat
from ..domains.filedom import file_interp, FArr, Junk, is_nan

O = 'prysm.otf.'
SIZES = ((3, 4), (4, 6), (6, 3), (2, 2))


def _cells(dom, v, label):
    out = []
    for c in v.values():
        if isinstance(c, Junk) or is_nan(c):
            out.append(c)
            continue
        r = dom.rat(c)
        if r is None:
            raise AnalysisError('%s: a sample of the result is not followed: %r' % (label, c))
        out.append(r)
    return out


def otf_value_rules(run, db, rule='C15.origin'):
    ft, fm = db.func(O + 'transform_psf'), db.func(O + 'mtf_from_psf')
    n_ok = 0
    for shape in SIZES:
        cy, cx = shape[0] // 2, shape[1] // 2
        for kind in ('flat', 'impulse'):
            it, dom = file_interp(db)
            dom.positive = {'A', 'dx'}
            R = dom.R
            A = Rat(R.atom('A'))
            zero = Rat(R.const(0))
            psf = lambda: FArr.of(shape, [dom.sym('A') if (kind == 'flat' or (i, j) == (cy, cx)) else Const(0) for i in range(shape[0]) for j in range(shape[1])])
            label = 'transform_psf of a %dx%d %s' % (shape[0], shape[1], 'flat PSF of level A' if kind == 'flat' else 'PSF that is A at (%d, %d) and 0 elsewhere' % (cy, cx))
            res = it.run(ft, kwargs=lambda: {'psf': psf(), 'dx': dom.sym('dx')})
            rets = [p for p in res if p.outcome == 'return']
            if len(rets) != len(res) or not rets:
                raise AnalysisError('%s: not every path returns' % label)
            for p in rets:
                v = p.value.items[0] if isinstance(p.value, Tup) and p.value.items else p.value
                if not isinstance(v, FArr) or tuple(v.shape) != shape:
                    raise AnalysisError('%s: the transform that is returned is not followed: %r' % (label, v))
                cells = _cells(dom, v, label)
                bad = ''
                for k, c in enumerate(cells):
                    i, j = divmod(k, shape[1])
                    want = (A * (shape[0] * shape[1]) if (i, j) == (cy, cx) else zero) if kind == 'flat' else A
                    if isinstance(c, Junk) or is_nan(c) or not (c == want):
                        bad = 'sample (%d, %d) is %s, expected %s' % (i, j, c.why if isinstance(c, Junk) else ('NaN' if is_nan(c) else c.key()[:80]), want.key())
                        break
                run.check(not bad, rule, ft.qual, 'origin on values (%s)' % kind,
                          '%s: %s' % (label, 'everything in the DC sample at (n0//2, n1//2)' if kind == 'flat' else 'the constant A, no phase ramp'),
                          '%s: %s -- %s' % (label, bad, 'DC is not at n//2' if kind == 'flat' else 'the origin of the PSF grid is not sample n//2 (a linear phase across the OTF)'), ft.loc())
                n_ok += not bad
        # MTF of the flat PSF: 1 at the centre, 0 elsewhere
        it, dom = file_interp(db)
        dom.positive = {'A', 'dx'}
        R = dom.R
        label = 'mtf_from_psf of a %dx%d flat PSF' % shape
        res = it.run(fm, kwargs=lambda: {'psf': FArr.of(shape, [dom.sym('A')] * (shape[0] * shape[1])), 'dx': dom.sym('dx')})
        rets = [p for p in res if p.outcome == 'return']
        if len(rets) != len(res) or not rets:
            raise AnalysisError('%s: not every path returns' % label)
        for p in rets:
            o = p.value
            v = o.attrs.get('data') if isinstance(o, Obj) else o
            if not isinstance(v, FArr) or tuple(v.shape) != shape:
                raise AnalysisError('%s: the MTF that is returned is not followed: %r' % (label, v))
            cells = _cells(dom, v, label)
            bad = ''
            for k, c in enumerate(cells):
                i, j = divmod(k, shape[1])
                want = Rat(R.const(1 if (i, j) == (cy, cx) else 0))
                if isinstance(c, Junk) or is_nan(c) or not (c == want):
                    bad = 'sample (%d, %d) is %s, expected %s' % (i, j, c.why if isinstance(c, Junk) else ('NaN' if is_nan(c) else c.key()[:80]), want.key())
                    break
            run.check(not bad, rule, fm.qual, 'MTF normalisation on values', '%s: 1 at (n0//2, n1//2), 0 elsewhere (normalised by its own DC sample)' % label,
                      '%s: %s -- the MTF is not normalised by the sample at n//2' % (label, bad), fm.loc())
            n_ok += not bad
    return n_ok
