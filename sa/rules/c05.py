"""C05 -- fixed-sampling results depend on the physical field, not its array embedding."""
import ast

from ..core.db import AnalysisError, norm_stmt, walk_no_nested
from ..core.interp import Const, Tup, Unknown, Obj
from ..core.norm import Rat
from ..domains.index import Shaped, parity_classes, ptxt
from ..domains.kernel import Mat, Prod2
from ..domains.normdom import Sym
from . import ftkernels as K
from . import fixedsampling as FS
from .c01 import label

P = 'prysm.propagation.'


def roundtrip_rules(run, db):
    f = db.func(P + 'to_fpm_and_back')
    it, dom = K.mk(db, {})
    R = dom.R
    for sh in FS.SHIFTS:
        def kw():
            dom.nonzero = {'sx', 'sy'}
            return {'wavefunction': dom.array('ary', 'n0', 'n1'), 'dx': dom.sym('dx'), 'efl': dom.sym('efl'), 'wavelength': dom.sym('wavelength'),
                    'fpm': dom.array('fpm', 'M0', 'M1'), 'fpm_dx': dom.sym('fpm_dx'),
                    'shift': Tup([dom.sym('sx') if sh[0] else Const(0), dom.sym('sy') if sh[1] else Const(0)]),
                    'method': Const('mdft'), 'return_more': Const(False)}
        res = [p for p in it.run(f, kwargs=kw) if p.outcome == 'return']
        if not res:
            raise AnalysisError('to_fpm_and_back: no returning path')
        for pth in res:
            roundtrip_path(run, f, dom, pth, sh)


def roundtrip_path(run, f, dom, pth, sh):
        R = dom.R
        v = pth.value
        ok = isinstance(v, Prod2) and isinstance(v.arr, Shaped) and v.arr.origin is not None and v.arr.origin[0] == 'Mult'
        stage1 = mask = None
        if ok:
            a, b = v.arr.origin[1], v.arr.origin[2]
            stage1, mask = (a, b) if isinstance(a, Prod2) else (b, a)
            ok = isinstance(stage1, Prod2) and isinstance(mask, Shaped) and mask.label == 'fpm' and isinstance(stage1.arr, Shaped) and stage1.arr.label == 'ary'
        if not ok and not isinstance(v, Prod2):
            # the value that comes back is not read as a product of two kernels around the mask (the matrix route is organised another way):
            # nothing is known about it here -- what to_fpm_and_back computes is decided on values, or not at all
            if getattr(run, 'roundtrip_on_values', None):
                run.info('to_fpm_and_back (path %s): the result is not read as unfocus(focus(w) * fpm) by the KERNEL reading; the composition was decided on values' % (pth.conds,))
                return
            raise AnalysisError('to_fpm_and_back (path %s): the result is not followed as a product of kernels (%r)' % (pth.conds, v))
        run.check(ok, 'C05.roundtrip', f.qual, 'structure', 'unfocus(focus(w) * fpm) with the same field and mask',
                  'on the path %s to_fpm_and_back is not unfocus_fixed_sampling(focus_fixed_sampling(w) * fpm) but returns %r' % (pth.conds, v), f.loc())
        if not ok:
            return
        k1 = -2 * Rat(R.atom('pi')) * Rat(R.I) * Rat(R.atom('dx')) * Rat(R.atom('fpm_dx')) / (Rat(R.atom('wavelength')) * Rat(R.atom('efl')))
        sx, sy = sh
        fdx = Rat(R.atom('fpm_dx'))
        n0, n1, M0, M1 = [dom.length(x) for x in ('n0', 'n1', 'M0', 'M1')]
        # stage 1: pupil -> mask; output coordinate shifted by s/fpm_dx
        for mat, spec, in_rows, taken in (
                (stage1.left, K.AxisSpec(n0, M0, k1, Sym(Rat(R.atom('sy')) / fdx) if sy else Const(0), '0'), False, sy),
                (stage1.right, K.AxisSpec(n1, M1, k1, Sym(Rat(R.atom('sx')) / fdx) if sx else Const(0), '1'), True, sx)):
            obs, _ = K.check_dft_matrix(dom, mat, spec, in_rows, taken)
            for okk, text in obs:
                run.check(okk, 'C05.roundtrip', f.qual, 'to-mask ' + label(text), 'stage 1: ' + text, 'stage 1 (to the mask): ' + text, f.loc())
        # stage 2: mask -> pupil; the *input* (mask-plane) coordinate carries the shift in mask samples,
        # the output (pupil) grid is unshifted and sized like the input field
        k2 = -k1
        for mat, nin, nout, in_rows, taken, sname in ((v.left, M0, n0, False, sy, 'sy'), (v.right, M1, n1, True, sx, 'sx')):
            i_in, i_out = dom.idx_atom(nin), dom.idx_atom(nout)
            rows, cols = (i_in, i_out) if in_rows else (i_out, i_in)
            run.check(mat.idx0 == rows and mat.idx1 == cols, 'C05.roundtrip', f.qual, 'return-trip orientation', 'return trip basis orientation',
                      'return trip basis has rows=%s cols=%s, expected rows=%s cols=%s' % (mat.idx0, mat.idx1, rows, cols), f.loc())
            from ..domains.kernel import exp_arg, coeffs2
            ea = exp_arg(dom, mat.elem)
            if ea is None:
                raise AnalysisError('to_fpm_and_back: return-trip basis is not factor x exp(phase)')
            cf = coeffs2(dom, Sym(ea[0]), i_in, i_out)
            zero = Rat(R.const(0))
            run.check(cf.get((1, 1), zero) == k2, 'C05.roundtrip', f.qual, 'return-trip kernel frequency',
                      'return trip frequency == +2 pi i fpm_dx dx/(lambda f)', 'return trip kernel frequency %s != %s' % (cf.get((1, 1), zero).key(), k2.key()), f.loc())
            want_in = k2 * (-K.half(dom, nin) - (Rat(R.atom(sname)) / fdx if taken else zero))
            want_out = k2 * (-K.half(dom, nout))
            # coefficient of the output index alone = k * input-coordinate offset
            got_in = cf.get((0, 1), zero)
            got_out = cf.get((1, 0), zero)
            if taken:
                run.check(got_in == want_in and got_out == want_out, 'C05.roundtrip', f.qual, 'return-trip shift',
                          'return trip reads the mask plane on the grid shifted by s/fpm_dx and writes an unshifted pupil grid',
                          'return trip with a requested shift: mask-plane coordinate offset %s (expected -(M//2) - s/fpm_dx: %s), pupil coordinate offset %s '
                          '(expected -(n//2): %s) -- the focal-plane shift is re-used as a pupil-plane shift in units of the pupil spacing'
                          % (got_in.key(), want_in.key(), got_out.key(), want_out.key()), f.loc())
            else:
                run.check(got_in == want_in and got_out == want_out, 'C05.roundtrip', f.qual, 'return-trip origins',
                          'return trip grids are centred', 'return trip coordinate offsets %s / %s, expected %s / %s'
                          % (got_in.key(), got_out.key(), want_in.key(), want_out.key()), f.loc())


def roundtrip_static(run, db):
    """the requested method reaches both stages -- decided on the values bound to the stage routines' parameters (however passed)."""
    from .common import capture_calls
    f = db.func(P + 'to_fpm_and_back')
    it, dom = K.mk(db, {})
    stages = {P + 'focus_fixed_sampling', P + 'unfocus_fixed_sampling'}
    paths, calls = capture_calls(it, dom, f, lambda: {'wavefunction': dom.array('ary', 'n0', 'n1'), 'dx': dom.sym('dx'), 'wavelength': dom.sym('wavelength'), 'efl': dom.sym('efl'),
                                                       'fpm': dom.array('fpm', 'M0', 'M1'), 'fpm_dx': dom.sym('fpm_dx'), 'method': dom.sym('METHOD'), 'shift': Tup([Const(0), Const(0)]),
                                                       'return_more': Const(False)},
                                 stages, lambda fi, b: dom.array(fi.name, 'M0', 'M1') if fi.name.startswith('focus') else dom.array(fi.name, 'n0', 'n1'))
    seen = set()
    for fi, b, node, conds in calls:
        m = b.get('method')
        ok = m is not None and dom.rat(m) is not None and dom.rat(m).key() == 'METHOD'
        seen.add(fi.name)
        run.check(ok, 'C05.roundtrip', f.qual, fi.name + ' method', 'method passed through',
                  '%s is not given the requested method (it receives %r)' % (fi.name, m), f.loc(node))
    if seen != {'focus_fixed_sampling', 'unfocus_fixed_sampling'}:
        raise AnalysisError('to_fpm_and_back: expected one focus and one unfocus stage, saw %s' % sorted(seen))


def babinet_rules(run, db):
    ci = db.cls(P + 'Wavefront')
    f = db.func(P + 'Wavefront.babinet')
    it, dom = K.mk(db, {})

    def mkself():
        o = Obj(ci)
        o.attrs.update({'data': dom.array('ary', 'n0', 'n1'), 'dx': dom.sym('dx'), 'wavelength': dom.sym('wavelength'), 'space': Const('pupil')})
        return o
    for lyot in (True, False):
        def kw():
            return {'efl': dom.sym('efl'), 'lyot': dom.array('lyot', 'n0', 'n1') if lyot else Const(None), 'fpm': dom.array('fpm', 'M0', 'M1'),
                    'fpm_dx': dom.sym('fpm_dx'), 'method': Const('mdft'), 'return_more': Const(False)}
        res = [p for p in it.run(f, kwargs=kw, self_obj=mkself) if p.outcome == 'return']
        if not res:
            raise AnalysisError('babinet: no returning path')
        for pth in res:
          v = pth.value
          babinet_path(run, f, dom, v, lyot)


def _lost(x, depth=0):
    """does the provenance of an array value contain something the interpretation did not follow?  (An array without provenance that
    is not one of the named inputs is the residue of arithmetic with an operand that was lost.)"""
    if depth > 40:
        return True
    if isinstance(x, Unknown):
        return True
    if isinstance(x, Prod2):
        return _lost(x.arr, depth + 1)
    if isinstance(x, Shaped):
        if x.origin is None:
            return not getattr(x, 'is_input', False)
        return any(_lost(y, depth + 1) for y in x.origin[1:] if isinstance(y, (Shaped, Unknown)))
    return False


def babinet_path(run, f, dom, v, lyot):
    if True:
        data = v.attrs.get('data') if isinstance(v, Obj) else None
        ok = isinstance(data, Shaped) and data.origin is not None
        d = data
        if ok and lyot:
            ok = d.origin[0] == 'Mult' and any(isinstance(x, Shaped) and x.label == 'lyot' for x in d.origin[1:3])
            if ok:
                d = [x for x in d.origin[1:3] if not (isinstance(x, Shaped) and x.label == 'lyot')][0]
        if ok:
            ok = d.origin is not None and d.origin[0] == 'Sub' and isinstance(d.origin[1], Shaped) and d.origin[1].label == 'ary' and isinstance(d.origin[2], Prod2)
        mask = None
        if ok:
            back = d.origin[2]
            ok = back.arr.origin is not None and back.arr.origin[0] == 'Mult'
            if ok:
                a, b = back.arr.origin[1], back.arr.origin[2]
                stage1, mask = (a, b) if isinstance(a, Prod2) else (b, a)
                ok = isinstance(stage1, Prod2) and stage1.arr.label == 'ary' and isinstance(mask, Shaped) and mask.origin is not None \
                    and mask.origin[0] == 'scale' and mask.origin[1] == 'Sub' and mask.origin[4] is True \
                    and dom.rat(mask.origin[3]) is not None and dom.rat(mask.origin[3]) == 1 and mask.origin[2].label == 'fpm'
        if not ok and (data is None or _lost(data)):
            raise AnalysisError('babinet: the returned field is not followed back to the inputs (%r)' % (data,))
        run.check(ok, 'C05.babinet', f.qual, 'structure lyot=%s' % lyot, 'babinet == [lyot *] (field - to_fpm_and_back(field, 1 - fpm))',
                  'babinet is not [lyot *] (data - to_fpm_and_back(data, 1 - fpm)): %r' % (data,), f.loc())


def check(run, db, tier):
    run.trust('KERNEL domain (sa/domains/kernel.py) and the per-axis kernel obligations of sa/rules/ftkernels.py',
              'physical kernel of a lens Fourier transform: exp(-/+ 2 pi i x u/(lambda f)) with x = i*dx_in, u = t*dx_out (units mm*um/(um*mm))',
              'shift is (X, Y) in output units; the fixed-sampling functions divide it by output_dx')
    run.assume('rank-2 fields; a kernel whose frequency per axis is dx_in dx_out/(lambda f) independent of the array length is exactly '
               'the statement that zero-padding the input at the same spacing does not change the output, and that transposing the input '
               'and per-axis arguments transposes the output (the two axes obey the same formula)')
    run.rule('C05.axisQ', 'fixed-sampling kernels: frequency per axis == 2 pi dx_in dx_out/(lambda f) (no array length), output grid t - M//2 - shift/dx_out, both engines, both directions, all parity classes')
    run.rule('C05.roundtrip', 'to_fpm_and_back == unfocus(focus(w)*fpm) with mutually inverse kernels; the return trip reads the mask plane on the shifted grid')
    run.rule('C05.grid', 'coordinate vectors shifted in place are fresh per call (results do not depend on earlier shifted calls)')
    run.rule('C05.babinet', 'babinet == [lyot *](field - to_fpm_and_back(field, 1 - fpm))')
    quick_par = None if tier == 'thorough' else [dict(zip(['n0', 'n1', 'M0', 'M1'], b)) for b in ((0, 0, 0, 0), (1, 1, 1, 1), (0, 1, 1, 0), (1, 0, 0, 1))]
    run.group(FS.run_fixed, run, db, 'C05.axisQ', 'focus_fixed_sampling', -1, quick_par)
    run.group(FS.run_fixed, run, db, 'C05.axisQ', 'unfocus_fixed_sampling', +1, quick_par)
    # to_fpm_and_back decided on values first: equal, cell by cell, to the composition of the two fixed-sampling legs around the mask
    from .c05values import roundtrip_value_rules
    n_rt = run.group(roundtrip_value_rules, run, db)
    run.roundtrip_on_values = n_rt
    run.group(roundtrip_rules, run, db)

    def roundtrip_reading(run, db):
        try:
            return roundtrip_static(run, db)
        except AnalysisError as e:
            if not n_rt:
                raise
            run.info('roundtrip_static does not read this organisation of to_fpm_and_back (%s); the composition was decided on values (%d cases)' % (str(e)[:140], n_rt))
    run.group(roundtrip_reading, run, db)
    run.forgive('roundtrip_value_rules', ['roundtrip_reading'])
    from .c01 import fresh_rules
    run.group(fresh_rules, run, db, 'C05.grid')
    run.group(babinet_rules, run, db)
    from .c01 import iczt_rule
    from .c02 import Proxy as _P
    run.group(iczt_rule, _P(run, {'C01.conj': 'C05.axisQ'}), db)
    run.require_instances('C05.axisQ', 200)
    run.require_instances('C05.roundtrip', 20)
    run.require_instances('C05.babinet', 2)
