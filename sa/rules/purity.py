"""Input-mutation and memo-freshness rules (history independence).

`input_mutations(fi)`: in-place writes (augmented assignment, subscript store, out=) through a name
that may alias a parameter (the parameter itself, a basic-slice view, asarray/reshape/moveaxis/.T/.real
of one).  Flow-sensitive over the statement order of the function body; fancy (mask/array) indexing and
arithmetic produce fresh arrays and end the aliasing.

`memo_inplace(db, modules)`: results of functions carrying a cache decorator that are mutated in place
by a caller (two cooperating sites: the memo hands out shared storage, the caller writes to it).
"""
import ast

from ..core.db import walk_no_nested

VIEW_FUNCS = {'asarray', 'asanyarray', 'moveaxis', 'swapaxes', 'transpose', 'squeeze', 'atleast_1d', 'atleast_2d', 'broadcast_to', 'ravel', 'reshape', 'real', 'imag', 'view'}
VIEW_ATTRS = {'T', 'real', 'imag', 'flat'}
VIEW_METHODS = {'reshape', 'ravel', 'view', 'squeeze', 'transpose', 'swapaxes'}


def _basic_index(node):
    """True if a subscript index is basic slicing (-> view)."""
    items = node.elts if isinstance(node, ast.Tuple) else [node]
    for it in items:
        if isinstance(it, ast.Slice):
            continue
        if isinstance(it, ast.Constant) and (it.value is None or it.value is Ellipsis or isinstance(it.value, int)):
            continue
        if isinstance(it, ast.UnaryOp) and isinstance(it.operand, ast.Constant):
            continue
        if isinstance(it, ast.Attribute) and ast.unparse(it) in ('np.newaxis',):
            continue
        if isinstance(it, ast.Name):
            # a scalar loop index / precomputed slice object: treat as basic (conservative: view)
            continue
        return False
    return True


def _may_view(expr, aliases):
    """Does evaluating expr possibly return a view of an aliased array?"""
    if isinstance(expr, ast.Name):
        return expr.id in aliases
    if isinstance(expr, ast.Subscript):
        return _may_view(expr.value, aliases) and _basic_index(expr.slice)
    if isinstance(expr, ast.Attribute):
        return expr.attr in VIEW_ATTRS and _may_view(expr.value, aliases)
    if isinstance(expr, ast.Call):
        fn = expr.func
        if isinstance(fn, ast.Attribute) and fn.attr in VIEW_METHODS and _may_view(fn.value, aliases):
            return True
        name = fn.attr if isinstance(fn, ast.Attribute) else (fn.id if isinstance(fn, ast.Name) else '')
        if name in VIEW_FUNCS and expr.args and _may_view(expr.args[0], aliases):
            return True
    return False


def _input_mutations_v1(fi, skip_params=('self', 'cls')):
    params = [p for p in fi.params if p not in skip_params]
    a = fi.node.args
    params += [x.arg for x in a.kwonlyargs]
    aliases = set(params)
    out = []

    def visit_block(stmts):
        for st in stmts:
            visit(st)

    def visit(st):
        if isinstance(st, ast.Assign):
            v = st.value
            for t in st.targets:
                if isinstance(t, ast.Name):
                    if _may_view(v, aliases):
                        aliases.add(t.id)
                    else:
                        aliases.discard(t.id)
                elif isinstance(t, (ast.Tuple, ast.List)):
                    for i, e in enumerate(t.elts):
                        if isinstance(e, ast.Name):
                            ve = v.elts[i] if isinstance(v, (ast.Tuple, ast.List)) and len(v.elts) == len(t.elts) else None
                            if ve is not None and _may_view(ve, aliases):
                                aliases.add(e.id)
                            else:
                                aliases.discard(e.id)
                elif isinstance(t, ast.Subscript):
                    if _may_view(t.value, aliases):
                        out.append((st, ast.unparse(t.value)))
        elif isinstance(st, ast.AugAssign):
            t = st.target
            base = t.value if isinstance(t, ast.Subscript) else t
            if _may_view(base, aliases):
                out.append((st, ast.unparse(base)))
        elif isinstance(st, (ast.If, ast.For, ast.While, ast.With, ast.Try)):
            for fld in ('body', 'orelse', 'finalbody'):
                visit_block(getattr(st, fld, []) or [])
            for h in getattr(st, 'handlers', []) or []:
                visit_block(h.body)
        if isinstance(st, (ast.Expr, ast.Assign, ast.Return, ast.AugAssign)):
            val = getattr(st, 'value', None)
            if val is not None:
                for n in ast.walk(val):
                    if isinstance(n, ast.Call):
                        for k in n.keywords:
                            if k.arg == 'out' and _may_view(k.value, aliases):
                                out.append((st, ast.unparse(k.value)))
    visit_block(fi.node.body)
    return out


def cached_functions(db):
    """Functions whose result is shared storage: cache decorators, and functions that hand out an entry of a dict memo
    (module-level or instance attribute) they fill themselves -- `MEMO[k] = v ... return v` / `return MEMO[k]` without a copy."""
    out = {}
    for fi in db.all_functions():
        if any('cache' in d for d in fi.decorators):
            out[fi.name] = fi
            continue
        stored = {}          # value name -> memo text
        memo_texts = set()
        class_memos = set()
        if fi.cls is not None:
            ci = fi.cls if hasattr(fi.cls, 'methods') else None
            if ci is not None:
                for m_ in ci.methods.values():
                    for n_ in walk_no_nested(m_.node):
                        if isinstance(n_, ast.Assign) and _is_empty_dict(n_.value):
                            for t_ in n_.targets:
                                if isinstance(t_, ast.Attribute) and isinstance(t_.value, ast.Name) and t_.value.id == 'self':
                                    class_memos.add(t_.attr)
        for n in walk_no_nested(fi.node):
            if isinstance(n, ast.Assign) and len(n.targets) == 1 and isinstance(n.targets[0], ast.Subscript):
                base = n.targets[0].value
                bt = ast.unparse(base)
                is_memo = (isinstance(base, ast.Name) and base.id in fi.module.assigns and _is_empty_dict(fi.module.assigns[base.id])) or \
                          (isinstance(base, ast.Attribute) and isinstance(base.value, ast.Name) and base.value.id == 'self' and (base.attr in class_memos or 'cache' in base.attr.lower()))
                if is_memo:
                    memo_texts.add(bt)
                    if isinstance(n.value, ast.Name):
                        stored[n.value.id] = bt
        if not memo_texts:
            continue
        for n in walk_no_nested(fi.node):
            if isinstance(n, ast.Return) and n.value is not None:
                v = n.value
                if (isinstance(v, ast.Name) and v.id in stored) or (isinstance(v, ast.Subscript) and ast.unparse(v.value) in memo_texts):
                    out[fi.name] = fi
    # a function that returns the result of a hand-out function unchanged hands the same storage out
    changed = True
    while changed:
        changed = False
        for fi in db.all_functions():
            if fi.name in out:
                continue
            rets = [n for n in walk_no_nested(fi.node) if isinstance(n, ast.Return) and n.value is not None]
            if rets and any(isinstance(r.value, ast.Call) and (r.value.func.attr if isinstance(r.value.func, ast.Attribute) else getattr(r.value.func, 'id', '')) in out for r in rets):
                out[fi.name] = fi
                changed = True
    return out


def memo_inplace(db, module_names):
    """(caller fi, stmt, callee fi) for in-place mutation (augmented assignment, subscript store, out=) of a memoised
    function's result through any alias of it (may-alias, joined over branches)."""
    cached = cached_functions(db)
    found = []
    if not cached:
        return found
    for mn in module_names:
        mod = db.module(mn)
        fns = list(mod.functions.values()) + [m for c in mod.classes.values() for m in c.methods.values()]
        for fi in fns:
            for st, nm, reason in shared_entry_mutations(fi, tables=False, call_sources=cached):
                callee = cached.get(reason.split('(')[0].split('.')[-1])
                if callee is not None and callee is not fi:
                    found.append((fi, st, callee))
    return found


def _names_load(node):
    return {n.id for n in ast.walk(node) if isinstance(n, ast.Name) and isinstance(n.ctx, ast.Load)}


def _is_empty_dict(e):
    return (isinstance(e, ast.Dict) and not e.keys) or (isinstance(e, ast.Call) and ast.unparse(e.func) in ('dict', 'OrderedDict', 'collections.OrderedDict') and not e.args and not e.keywords)


def memo_completeness(db, module_names):
    """Dict memos (module-level names and instance attributes initialised to {}): every input the fill block reads must be
    represented in the key.

    Returns [(fi, store stmt, memo text, missing names)] for fills of the form
        if key not in MEMO: ... MEMO[key] = value        (or try: MEMO[key] except KeyError: ... MEMO[key] = value)
    where MEMO is a module-level name or `self.attr`.  A key built from a destructured tuple (`a, b, _, c = key`) covers the
    tuple only if every component is used.
    """
    import builtins
    out = []
    for mn in module_names:
        mod = db.module(mn)
        mod_memos = {name for name, e in mod.assigns.items() if _is_empty_dict(e)}
        module_level = set(mod.assigns) | set(mod.functions) | set(mod.classes) | set(mod.imports)
        groups = [(list(mod.functions.values()), set(mod_memos))]
        for c in mod.classes.values():
            attrs = set()
            for m in c.methods.values():
                for n in walk_no_nested(m.node):
                    if isinstance(n, ast.Assign) and _is_empty_dict(n.value):
                        for t in n.targets:
                            if isinstance(t, ast.Attribute) and isinstance(t.value, ast.Name) and t.value.id == 'self':
                                attrs.add('self.' + t.attr)
            groups.append((list(c.methods.values()), set(mod_memos) | attrs))
        for fns, memos in groups:
            if not memos:
                continue
            for fi in fns:
                out.extend(_memo_fills(fi, memos, module_level, builtins))
    return out


def _memo_fills(fi, memos, module_level, builtins):
    out = []
    params = set(fi.params) | {a.arg for a in fi.node.args.kwonlyargs}
    local_defs = {}
    for n in walk_no_nested(fi.node):
        if isinstance(n, ast.Assign):
            for t in n.targets:
                for x in ast.walk(t):
                    if isinstance(x, ast.Name) and isinstance(x.ctx, ast.Store):
                        local_defs.setdefault(x.id, []).append(n)

    def memo_of(node):
        t = ast.unparse(node)
        return t if t in memos else None

    for n in walk_no_nested(fi.node):
        block = keyexpr = memo = None
        if isinstance(n, ast.If) and isinstance(n.test, ast.Compare) and len(n.test.ops) == 1 and isinstance(n.test.ops[0], ast.NotIn) and memo_of(n.test.comparators[0]):
            block, keyexpr, memo = n.body, n.test.left, memo_of(n.test.comparators[0])
        elif isinstance(n, ast.Try) and n.handlers:
            for st in n.body:
                for sub in ast.walk(st):
                    if isinstance(sub, ast.Subscript) and memo_of(sub.value):
                        memo, keyexpr = memo_of(sub.value), sub.slice
            if memo:
                block = n.handlers[0].body
        if block is None and isinstance(n, ast.If) and isinstance(n.test, ast.Compare) and len(n.test.ops) == 1 and isinstance(n.test.ops[0], ast.Is) \
                and isinstance(n.test.left, ast.Name) and isinstance(n.test.comparators[0], ast.Constant) and n.test.comparators[0].value is None:
            # v = MEMO.get(key) ... if v is None: <fill>
            for d in local_defs.get(n.test.left.id, []):
                v = d.value
                if isinstance(v, ast.Call) and isinstance(v.func, ast.Attribute) and v.func.attr == 'get' and memo_of(v.func.value) and v.args:
                    block, keyexpr, memo = n.body, v.args[0], memo_of(v.func.value)
        if block is None:
            continue
        stores = [st for st in block for sub in ast.walk(st) if isinstance(st, ast.Assign) and isinstance(sub, ast.Subscript) and isinstance(sub.ctx, ast.Store) and memo_of(sub.value) == memo]
        if not stores:
            continue
        blockset = {id(x) for st in block for x in ast.walk(st)}
        # closure of the key over local definitions made OUTSIDE the fill block; tuple-unpacks cover their source only when complete
        covered = set(_names_load(keyexpr))
        partial = {}            # source name -> unused components
        changed = True
        while changed:
            changed = False
            for nm in list(covered):
                for d in local_defs.get(nm, []):
                    if id(d) in blockset:
                        continue
                    tgt = d.targets[0]
                    if isinstance(tgt, (ast.Tuple, ast.List)) and isinstance(d.value, ast.Name):
                        comps = [e.id if isinstance(e, ast.Name) else ast.unparse(e) for e in tgt.elts]
                        unused = [c for c in comps if c not in covered]
                        if unused:
                            partial[d.value.id] = unused
                            continue
                        partial.pop(d.value.id, None)
                    for y in _names_load(d.value):
                        if y not in covered:
                            covered.add(y)
                            changed = True
        assigned_in_block = {x.id for st in block for x in ast.walk(st) if isinstance(x, ast.Name) and isinstance(x.ctx, ast.Store)}
        reads = set()
        for st in block:
            reads |= _names_load(st)
        missing = set()
        for nm in reads:
            if nm in covered or nm in assigned_in_block or nm in module_level or hasattr(builtins, nm) or nm == 'self':
                continue
            srcs = {nm}
            seen = set()
            while srcs:
                z = srcs.pop()
                if z in seen:
                    continue
                seen.add(z)
                if z in params and z not in covered:
                    missing.add(z if z not in partial else '%s (component %s not in the memo key)' % (z, ', '.join(partial[z])))
                for d in local_defs.get(z, []):
                    if id(d) not in blockset:
                        srcs |= (_names_load(d.value) - covered)
        out.append((fi, stores[0], memo, sorted(missing)))
    return out


# --------------------------------------------------------------------------
def _sub_chain(expr):
    """(root Name, [index exprs]) of a pure subscript chain T[a][b]..., else None."""
    idx = []
    while isinstance(expr, ast.Subscript):
        idx.append(expr.slice)
        expr = expr.value
    if isinstance(expr, ast.Name) and idx:
        return expr.id, list(reversed(idx))
    return None


def _stored_names(stmts):
    out = set()
    for st in stmts:
        for n in ast.walk(st):
            if isinstance(n, ast.Name) and isinstance(n.ctx, ast.Store):
                out.add(n.id)
    return out


def input_mutations(fi, skip_params=('self', 'cls')):
    """In-place writes through a name that may alias a parameter (may-alias, joined over branches and loops).
    Returns [(stmt, text of the written name)]."""
    params = [p for p in fi.params if p not in skip_params] + [x.arg for x in fi.node.args.kwonlyargs]
    return [(st, nm) for st, nm, _ in shared_entry_mutations(fi, init={p: p for p in params}, tables=False)]


_PASS = {}


def _passthrough_params(g, _depth=[0]):
    """names of the parameters of g that some `return` of g may hand back (the array itself or a view of it)."""
    if g.qual in _PASS:
        return _PASS[g.qual]
    _PASS[g.qual] = set()           # recursion guard
    if _depth[0] > 3:
        return set()
    _depth[0] += 1
    try:
        rets = []
        params = [p for p in g.params if p not in ('self', 'cls')]
        shared_entry_mutations(g, init={p: p for p in params}, tables=False, returns=rets)
        out = {r for r in rets if r in params}
    finally:
        _depth[0] -= 1
    _PASS[g.qual] = out
    return out


def shared_entry_mutations(fi, sites=None, init=None, tables=True, call_sources=None, attr_sources=None, attr_tables=None, returns=None):
    """In-place writes through a name that may alias an entry of a table shared between loop iterations.

    Inside a `for` loop, `v = T[i][j]` (T bound outside the loop, basic/int/key indexing: the same object or a view)
    makes v an alias of storage that a later iteration can read again, unless one of the indices is the loop's own
    injective induction variable (`for i in range(..)`, the counter of `enumerate`).  An augmented assignment to v, a
    subscript store through v, or `out=v` then changes what the later iteration reads.  May-alias, joined over branches:
    `if norm: v = v * c` leaves v aliased on the other branch.  Returns [(stmt, alias name, table text)]; `sites` collects
    the alias-creating table reads that were tracked.
    """
    found = []

    def unique_names(loop):
        t, it = loop.target, loop.iter
        if isinstance(it, ast.Call) and isinstance(it.func, ast.Name):
            if it.func.id == 'range' and isinstance(t, ast.Name):
                return {t.id}
            if it.func.id == 'enumerate' and isinstance(t, ast.Tuple) and t.elts and isinstance(t.elts[0], ast.Name):
                return {t.elts[0].id}
        return set()

    def value_alias(v, st, ctx):
        """reason if evaluating v may give shared storage under state st."""
        if isinstance(v, ast.Name):
            return st.get(v.id)
        ch = _sub_chain(v)
        if ch is not None and ctx is not None and tables:
            root, idxs = ch
            loop_stores, uniq = ctx
            if root in st:
                return st[root]
            if root not in loop_stores and all(_basic_index(i) or isinstance(i, (ast.Name, ast.Constant)) for i in idxs):
                flat = [e for i in idxs for e in (i.elts if isinstance(i, ast.Tuple) else [i])]
                if not any(isinstance(i, ast.Name) and i.id in uniq for i in flat):
                    if sites is not None:
                        sites.add((v.lineno, ast.unparse(v)))
                    return ast.unparse(v)
            return None
        if isinstance(v, ast.Subscript) and attr_tables and ast.unparse(v.value) in attr_tables:
            return ast.unparse(v)
        if isinstance(v, ast.Subscript):
            r = value_alias(v.value, st, ctx)
            return r if r and _basic_index(v.slice) else None
        if isinstance(v, ast.Attribute) and attr_sources and ast.unparse(v) in attr_sources:
            return ast.unparse(v)
        if isinstance(v, ast.Attribute) and v.attr in VIEW_ATTRS:
            return value_alias(v.value, st, ctx)
        if isinstance(v, ast.Call):
            fn = v.func
            if call_sources:
                cname = fn.attr if isinstance(fn, ast.Attribute) else (fn.id if isinstance(fn, ast.Name) else '')
                if cname in call_sources:
                    return '%s(...)' % cname
            if isinstance(fn, ast.Attribute) and fn.attr in VIEW_METHODS:
                return value_alias(fn.value, st, ctx)
            if isinstance(fn, ast.Attribute) and fn.attr == 'astype' and any(k.arg == 'copy' and isinstance(k.value, ast.Constant) and k.value.value is False for k in v.keywords):
                return value_alias(fn.value, st, ctx)          # astype(copy=False) returns the array itself when the dtype already matches
            name = fn.attr if isinstance(fn, ast.Attribute) else (fn.id if isinstance(fn, ast.Name) else '')
            if name in VIEW_FUNCS and v.args:
                return value_alias(v.args[0], st, ctx)
            # a helper of the same module that may hand one of its arguments back (`return x` on some path): what it returns may be
            # the caller's own array
            if isinstance(fn, ast.Name):
                g = getattr(fi.module, 'functions', {}).get(fn.id)
                if g is not None and g is not fi:
                    for pname in _passthrough_params(g):
                        arg = None
                        if pname in g.params and g.params.index(pname) < len(v.args):
                            arg = v.args[g.params.index(pname)]
                        for k in v.keywords:
                            if k.arg == pname:
                                arg = k.value
                        if arg is not None and not isinstance(arg, ast.Starred):
                            r = value_alias(arg, st, ctx)
                            if r:
                                return r
        return None

    def block(stmts, st, ctx):
        for s in stmts:
            st = stmt(s, st, ctx)
        return st

    def join(a, b):
        out = dict(a)
        for k, v in b.items():
            out.setdefault(k, v)
        return out

    def stmt(s, st, ctx):
        if isinstance(s, ast.Assign):
            for t in s.targets:
                if isinstance(t, ast.Name):
                    r = value_alias(s.value, st, ctx)
                    st = dict(st)
                    if r:
                        st[t.id] = r
                    else:
                        st.pop(t.id, None)
                elif isinstance(t, (ast.Tuple, ast.List)):
                    st = dict(st)
                    for i, e in enumerate(t.elts):
                        if isinstance(e, ast.Name):
                            ve = s.value.elts[i] if isinstance(s.value, (ast.Tuple, ast.List)) and len(s.value.elts) == len(t.elts) else None
                            if ve is None and isinstance(s.value, (ast.GeneratorExp, ast.ListComp)):
                                ve = s.value.elt          # every unpacked element is produced by the same expression
                            r = value_alias(ve, st, ctx) if ve is not None else None
                            if r:
                                st[e.id] = r
                            else:
                                st.pop(e.id, None)
                elif isinstance(t, ast.Subscript):
                    r = value_alias(t.value, st, None)
                    if r:
                        found.append((s, ast.unparse(t.value), r))
        elif isinstance(s, ast.AugAssign):
            t = s.target
            base = t.value if isinstance(t, ast.Subscript) else t
            r = value_alias(base, st, None)
            if r:
                found.append((s, ast.unparse(base), r))
        elif isinstance(s, ast.If):
            st = join(block(s.body, st, ctx), block(s.orelse, st, ctx))
        elif isinstance(s, ast.For):
            inner = (_stored_names(s.body) | _stored_names([s.target]), unique_names(s))
            if ctx is not None:
                inner = (inner[0], inner[1] | ctx[1])
            # the entries of a sequence the caller handed over are the caller's arrays too
            st = dict(st)
            srcs = None
            if isinstance(s.iter, ast.Call) and isinstance(s.iter.func, ast.Name) and s.iter.func.id == 'zip' and isinstance(s.target, ast.Tuple) and len(s.target.elts) == len(s.iter.args):
                srcs = list(zip(s.target.elts, s.iter.args))
            elif isinstance(s.iter, ast.Call) and isinstance(s.iter.func, ast.Name) and s.iter.func.id == 'enumerate' and isinstance(s.target, ast.Tuple) and len(s.target.elts) == 2 and s.iter.args:
                srcs = [(s.target.elts[1], s.iter.args[0])]
            elif isinstance(s.target, ast.Name):
                srcs = [(s.target, s.iter)]
            for t_, src_ in srcs or []:
                if isinstance(t_, ast.Name):
                    r_ = value_alias(src_, st, None) if isinstance(src_, (ast.Name, ast.Attribute)) else None
                    if r_ and not tables:
                        st[t_.id] = 'an entry of ' + r_
                    else:
                        st.pop(t_.id, None)
            cur = st
            for _ in range(2):          # second pass: aliases created late in the body reach its head
                n_before = len(found)
                cur = join(cur, block(s.body, cur, inner))
            st = join(cur, block(s.orelse, cur, ctx))
        elif isinstance(s, (ast.While, ast.With, ast.Try)):
            for fld in ('body', 'orelse', 'finalbody'):
                st = join(st, block(getattr(s, fld, []) or [], st, ctx))
            for h in getattr(s, 'handlers', []) or []:
                st = join(st, block(h.body, st, ctx))
        if isinstance(s, ast.Return) and s.value is not None and returns is not None:
            vals = s.value.elts if isinstance(s.value, ast.Tuple) else [s.value]
            for rv in vals:
                r = value_alias(rv, st, None)
                if r:
                    returns.append(r)
        if isinstance(s, (ast.Expr, ast.Assign, ast.Return, ast.AugAssign)):
            val = getattr(s, 'value', None)
            if val is not None:
                for n in ast.walk(val):
                    if isinstance(n, ast.Call):
                        for k in n.keywords:
                            if k.arg == 'out':
                                r = value_alias(k.value, st, None)
                                if r:
                                    found.append((s, ast.unparse(k.value), r))
        return st

    block(fi.node.body, dict(init or {}), None)
    # de-duplicate (the loop body is walked twice)
    seen, out = set(), []
    for s, nm, r in found:
        if (id(s), nm) not in seen:
            seen.add((id(s), nm))
            out.append((s, nm, r))
    return out


# --------------------------------------------------------------------------
def local_memo_completeness(fi):
    """Dict memos that live inside one function (`cache = {}` ... `if key not in cache: cache[key] = f(...)` in a loop):
    every loop-variant input of the fill must be determined by the names the key mentions.

    A name is *determined* if the key mentions it, or if it is defined inside the loop and every loop-variant name its
    definitions read is determined; loop-invariant names (defined outside the loop) are constants of the memo's lifetime.
    Returns [(store stmt, memo name, undetermined names)] (empty list of names == complete)."""
    out = []
    memos = {}
    for n in walk_no_nested(fi.node):
        if isinstance(n, ast.Assign) and _is_empty_dict(n.value):
            for t in n.targets:
                if isinstance(t, ast.Name):
                    memos[t.id] = n
    if not memos:
        return out
    loops = [n for n in walk_no_nested(fi.node) if isinstance(n, (ast.For, ast.While))]
    for lp in loops:
        inloop_defs = {}
        variant = set()
        if isinstance(lp, ast.For):
            for x in ast.walk(lp.target):
                if isinstance(x, ast.Name):
                    variant.add(x.id)
        for st in lp.body:
            for n in ast.walk(st):
                if isinstance(n, (ast.For,)):
                    for x in ast.walk(n.target):
                        if isinstance(x, ast.Name):
                            variant.add(x.id)
                if isinstance(n, ast.Assign):
                    for t in n.targets:
                        for x in ast.walk(t):
                            if isinstance(x, ast.Name) and isinstance(x.ctx, ast.Store):
                                inloop_defs.setdefault(x.id, []).append(n)
                                variant.add(x.id)
                if isinstance(n, ast.AugAssign) and isinstance(n.target, ast.Name):
                    inloop_defs.setdefault(n.target.id, []).append(n)
                    variant.add(n.target.id)
        for n in ast.walk(lp):
            if not (isinstance(n, ast.If) and isinstance(n.test, ast.Compare) and len(n.test.ops) == 1 and isinstance(n.test.ops[0], ast.NotIn)
                    and isinstance(n.test.comparators[0], ast.Name) and n.test.comparators[0].id in memos):
                continue
            memo = n.test.comparators[0].id
            if memos[memo].lineno > lp.lineno:
                continue                  # the memo is re-created inside this loop: it does not outlive a pass
            stores = [st for st in n.body if isinstance(st, ast.Assign) and isinstance(st.targets[0], ast.Subscript) and ast.unparse(st.targets[0].value) == memo]
            if not stores:
                continue
            K = set(_names_load(n.test.left))
            changed = True
            while changed:                # the key may itself be a named temporary
                changed = False
                for k in list(K):
                    for d in inloop_defs.get(k, []):
                        if d.lineno < n.lineno and k in _names_load(n.test.left) and isinstance(d.targets[0], ast.Name) and d.targets[0].id == k:
                            new = _names_load(d.value) - K
                            if new and not isinstance(d.value, ast.Call):
                                pass
                    break
            keynames = set()
            for k in _names_load(n.test.left):
                ds = [d for d in inloop_defs.get(k, []) if d.lineno < n.lineno]
                if ds and all(isinstance(d, ast.Assign) and isinstance(d.value, (ast.Tuple, ast.List)) for d in ds):
                    for d in ds:
                        keynames |= _names_load(d.value)      # key = (a, b, ...) built in the loop: its components are what it mentions
                else:
                    keynames.add(k)
            memo_seen = {}

            def determined(v, depth=0):
                if v in keynames:
                    return True
                if v not in variant:
                    return True                 # loop invariant
                if v in memo_seen:
                    return memo_seen[v]
                memo_seen[v] = False
                ds = [d for d in inloop_defs.get(v, []) if d.lineno < n.lineno]
                if not ds or depth > 12:
                    return False                # loop target / carried value not mentioned by the key
                ok = all(all(determined(y, depth + 1) for y in _names_load(d.value) if y != v) for d in ds)
                memo_seen[v] = ok
                return ok
            reads = set()
            for st in stores:
                reads |= _names_load(st.value)
            import builtins
            bad = sorted(v for v in reads if v != memo and not hasattr(builtins, v) and not determined(v))
            out.append((stores[0], memo, bad))
    return out


def module_global_mutations(db, module_name):
    """In-place writes, inside functions, through a name that may alias a module-level array/container (constants built at
    import time are shared by every call: editing one makes results depend on how often the function ran)."""
    mod = db.module(module_name)
    out = []
    # dict/OrderedDict memos are filled on purpose (their soundness is the memo-completeness rule's business); arrays, lists and
    # expressions of them are constants
    names = {n for n, e in mod.assigns.items() if isinstance(e, (ast.Call, ast.List, ast.Tuple, ast.BinOp)) and not _is_empty_dict(e)
             and not (isinstance(e, ast.Call) and ast.unparse(e.func).split('.')[-1] in ('dict', 'OrderedDict', 'defaultdict', 'set', 'WeakValueDictionary'))}
    if not names:
        return out
    fns = list(mod.functions.values()) + [m for c in mod.classes.values() for m in c.methods.values()]
    for fi in fns:
        local = {n.id for n in ast.walk(fi.node) if isinstance(n, ast.Name) and isinstance(n.ctx, ast.Store)} | set(fi.params)
        glob = set()
        for n in ast.walk(fi.node):
            if isinstance(n, ast.Global):
                glob |= set(n.names)
        init = {n: n for n in names if n not in local or n in glob}
        for st, nm, r in shared_entry_mutations(fi, init=init, tables=False):
            out.append((fi, st, nm, r))
    return out


def sibling_alias_mutations(fi):
    """In-place writes through a local name that may be the SAME OBJECT as another local name which is still read
    afterwards (`Y = X if square else f(); Y -= s; ... X ...`).  Returns [(stmt, written name, other name)]."""
    out = []
    # alias classes by plain name copies (a = b, a = b if c else ..., a, b = c, d)
    pairs = set()

    def names_of(v):
        if isinstance(v, ast.Name):
            return {v.id}
        if isinstance(v, ast.IfExp):
            return names_of(v.body) | names_of(v.orelse)
        return set()
    stmts = sorted([n for n in walk_no_nested(fi.node) if isinstance(n, (ast.Assign, ast.AugAssign))], key=lambda s: (s.lineno, s.col_offset))
    loads = sorted([n for n in walk_no_nested(fi.node) if isinstance(n, ast.Name) and isinstance(n.ctx, ast.Load)], key=lambda n: (n.lineno, n.col_offset))
    alias = {}          # name -> set of names it may be identical to
    for st in stmts:
        if isinstance(st, ast.Assign):
            for t in st.targets:
                if isinstance(t, ast.Name):
                    src = names_of(st.value) - {t.id}
                    alias[t.id] = set()
                    for s_ in src:
                        alias[t.id] |= {s_} | alias.get(s_, set())
                    for o in list(alias):
                        if o != t.id and t.id in alias[o] and t.id not in src:
                            alias[o].discard(t.id)
                    for s_ in alias[t.id]:
                        alias.setdefault(s_, set()).add(t.id)
                elif isinstance(t, (ast.Tuple, ast.List)) and isinstance(st.value, (ast.GeneratorExp, ast.ListComp)) and isinstance(st.value.elt, ast.Subscript) \
                        and isinstance(st.value.elt.value, ast.Name):
                    # a, b, c = (T[k] for k in keys): two keys may be equal, then two targets are one object
                    names = [e.id for e in t.elts if isinstance(e, ast.Name)]
                    for e in names:
                        alias[e] = set(names) - {e}
                elif isinstance(t, (ast.Tuple, ast.List)) and isinstance(st.value, (ast.Tuple, ast.List)) and len(t.elts) == len(st.value.elts):
                    for e, v in zip(t.elts, st.value.elts):
                        if isinstance(e, ast.Name):
                            src = names_of(v) - {e.id}
                            alias[e.id] = set()
                            for s_ in src:
                                alias[e.id] |= {s_} | alias.get(s_, set())
                            for s_ in alias[e.id]:
                                alias.setdefault(s_, set()).add(e.id)
                elif isinstance(t, ast.Subscript) and isinstance(t.value, ast.Name):
                    w = t.value.id
                    for o in alias.get(w, ()):
                        if any(l.id == o and (l.lineno, l.col_offset) > (st.lineno, st.col_offset) for l in loads):
                            out.append((st, w, o))
        else:
            t = st.target
            base = t.value if isinstance(t, ast.Subscript) else t
            if isinstance(base, ast.Name):
                w = base.id
                for o in alias.get(w, ()):
                    if any(l.id == o and (l.lineno, l.col_offset) > (st.lineno, st.col_offset) for l in loads):
                        out.append((st, w, o))
    return out


def derived_attr_staleness(ci):
    """Attributes computed once in __init__ from a constructor argument that is ALSO kept as a plain public attribute:
    a method that combines the live attribute with the derived one sees a stale derivation as soon as the attribute is
    re-assigned after construction (annealing a temperature, changing a bit depth).  Returns [(method fi, derived attr,
    source attr, node)].  Properties with a setter are exempt (the setter can refresh the derivation)."""
    init = ci.methods.get('__init__')
    if init is None:
        return []
    params = set(init.params[1:])
    stored = {}          # attr -> param stored verbatim
    derived = {}         # attr -> set of params it was computed from
    cond_params = []

    def visit(stmts, guards):
        for st in stmts:
            if isinstance(st, ast.Assign):
                for t in st.targets:
                    if isinstance(t, ast.Attribute) and isinstance(t.value, ast.Name) and t.value.id == 'self':
                        used = {n.id for n in ast.walk(st.value) if isinstance(n, ast.Name)} & params
                        if isinstance(st.value, ast.Name) and st.value.id in params and not guards:
                            stored[t.attr] = st.value.id
                        elif used | guards:
                            derived.setdefault(t.attr, set()).update(used | guards)
            elif isinstance(st, ast.If):
                g = {n.id for n in ast.walk(st.test) if isinstance(n, ast.Name)} & params
                visit(st.body, guards | g)
                visit(st.orelse, guards | g)
    visit(init.node.body, set())
    props = {m for m, fi in ci.methods.items() if any('property' in d or 'setter' in d for d in fi.decorators)}
    out = []
    for a, ps in derived.items():
        srcs = [attr for attr, p in stored.items() if p in ps and attr not in props and attr != a]
        if not srcs:
            continue
        for mname, fi in ci.methods.items():
            if mname == '__init__':
                continue
            reads = {}
            for n in walk_no_nested(fi.node):
                if isinstance(n, ast.Attribute) and isinstance(n.value, ast.Name) and n.value.id == 'self' and isinstance(n.ctx, ast.Load):
                    reads.setdefault(n.attr, n)
            if a in reads:
                for sattr in srcs:
                    if sattr in reads:          # the method mixes the LIVE attribute with the value derived from it at construction
                        out.append((fi, a, sattr, reads[a]))
    return out


def argument_role_swaps(db, module_names):
    """Call sites that pass a value NAMED like one parameter of the callee into the slot of ANOTHER parameter of the same
    callee (`Wavefront(data, self.dx, self.wavelength)` for `__init__(self, cmplx_field, wavelength, dx, ...)`).
    Only plain names / `self.<attr>` arguments are considered, and only when both parameter names exist in the callee.
    Returns [(caller fi, call node, slot param, argument text)]."""
    out = []
    by_name = {}
    for mn, mod in db.modules.items():
        for f in mod.functions.values():
            by_name.setdefault(f.name, []).append(f)
        for c in mod.classes.values():
            init = c.methods.get('__init__')
            if init is not None:
                by_name.setdefault(c.name, []).append(init)
            for m in c.methods.values():
                by_name.setdefault(m.name, []).append(m)
    for mn in module_names:
        mod = db.module(mn)
        fns = list(mod.functions.values()) + [m for c in mod.classes.values() for m in c.methods.values()]
        for fi in fns:
            for c in walk_no_nested(fi.node):
                if not isinstance(c, ast.Call):
                    continue
                cname = c.func.attr if isinstance(c.func, ast.Attribute) else (c.func.id if isinstance(c.func, ast.Name) else None)
                cands = by_name.get(cname, [])
                if len(cands) != 1:
                    continue
                callee = cands[0]
                params = list(callee.params)
                if params and params[0] in ('self', 'cls'):
                    params = params[1:]
                if isinstance(c.func, ast.Attribute) and callee.cls is None and False:
                    continue
                bound = {}
                if any(isinstance(a, ast.Starred) for a in c.args):
                    continue
                for p_, a in zip(params, c.args):
                    bound[p_] = a
                for k in c.keywords:
                    if k.arg:
                        bound[k.arg] = k.value
                for slot, a in bound.items():
                    nm = a.id if isinstance(a, ast.Name) else (a.attr if isinstance(a, ast.Attribute) and isinstance(a.value, ast.Name) and a.value.id == 'self' else None)
                    if nm is None or nm == slot or nm not in params:
                        continue
                    # the value is named like another parameter of the callee: a swap if that other slot does not get it too
                    other = bound.get(nm)
                    onm = other.id if isinstance(other, ast.Name) else (other.attr if isinstance(other, ast.Attribute) else None)
                    if onm == nm:
                        continue
                    out.append((fi, c, slot, ast.unparse(a)))
    return out


def memo_entry_writes(ci):
    """Methods that write in place into an entry of one of the class's dict memos after taking it out
    (`work = self.cache[k] ... work[:m, :n] = data`): the entry keeps what earlier calls left in it.
    Returns [(method fi, stmt, written name, entry text)]."""
    memos = set()
    for m_ in ci.methods.values():
        for n_ in walk_no_nested(m_.node):
            if isinstance(n_, ast.Assign) and _is_empty_dict(n_.value):
                for t_ in n_.targets:
                    if isinstance(t_, ast.Attribute) and isinstance(t_.value, ast.Name) and t_.value.id == 'self':
                        memos.add('self.' + t_.attr)
    out = []
    if not memos:
        return out
    for fi in ci.methods.values():
        for st, nm, r in shared_entry_mutations(fi, tables=False, attr_tables=memos):
            if nm.startswith('self.'):
                continue          # `self.memo[k] = v` is the fill itself
            out.append((fi, st, nm, r))
    return out
