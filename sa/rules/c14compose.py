"""C14 by composition: the writer is interpreted into a symbolic file (FILE domain: small arrays of symbolic samples, text with number
tokens, bytes with packed fields) and the reader is interpreted on that file.  What comes back is compared, sample by sample, with what
went in.  Nothing here reads the organisation of the two routines -- only what they write and what they return."""
import ast

from ..core.db import AnalysisError
from ..core.interp import Const, Tup, Unknown, DictV
from ..core.norm import Rat
from ..domains.filedom import file_interp, FArr, NAN, is_nan, Junk, BytesV
from ..domains.normdom import Sym

IO = 'prysm.io.'

# (shape, flat positions of the invalid samples)
CASES = (((2, 3), (1,)), ((3, 2), (4,)), ((1, 3), ()), ((3, 1), (0,)))


def _input(dom, shape, nans):
    vals = []
    k = 0
    for i in range(shape[0]):
        for j in range(shape[1]):
            vals.append(NAN if k in nans else dom.sym('x%d_%d' % (i, j)))
            k += 1
    return FArr.of(shape, vals)


def _file_of(path):
    ev = [e for e in path.events if e['kind'] == 'file']
    return ev[-1]['content'] if ev else None


def _cell_text(dom, v):
    if is_nan(v):
        return 'NaN'
    if isinstance(v, Sym):
        return v.r.key()[:120]
    if isinstance(v, Const):
        return repr(v.v)
    return repr(v)[:120]


def compare_maps(run, dom, rule, where, label, got, shape, nans, loc, out_scale=None):
    """got (an FArr) against the input map: shape, invalid samples, values up to the quantisation.  Returns False after a finding."""
    if not isinstance(got, FArr):
        raise AnalysisError('%s: the map that is read back is not followed: %r' % (label, got))
    if tuple(got.shape) != tuple(shape):
        run.finding(rule, where, label, '%s: a map of shape %s comes back with shape %s' % (label, tuple(shape), tuple(got.shape)), loc)
        return False
    cells = got.values()
    bad = []
    lost = []
    k = 0
    for i in range(shape[0]):
        for j in range(shape[1]):
            v = cells[k]
            want_nan = k in nans
            k += 1
            if isinstance(v, Unknown):
                lost.append('(%d, %d): %s' % (i, j, v.why))
                continue
            if isinstance(v, Junk):
                if want_nan and is_nan(getattr(v, 'maybe', None)):
                    lost.append('(%d, %d): invalid, or %s' % (i, j, v.why))
                    continue
                bad.append('sample (%d, %d) comes back as %s' % (i, j, v.why))
                continue
            if want_nan:
                if not is_nan(v):
                    bad.append('the invalid sample (%d, %d) comes back as the number %s' % (i, j, _cell_text(dom, v)))
                continue
            if is_nan(v):
                bad.append('the valid sample (%d, %d) comes back invalid' % (i, j))
                continue
            r = dom.rat(v)
            if r is None:
                lost.append('(%d, %d): %r' % (i, j, v))
                continue
            r = dom.strip_quant(r)
            want = Rat(dom.R.atom('x%d_%d' % (i, j)))
            if out_scale is not None:
                want = want * out_scale
            if not (r == want):
                src = [a for a in r.atoms() if a.startswith('x') and '_' in a]
                if src and all(a != 'x%d_%d' % (i, j) for a in src) and len(set(src)) == 1:
                    bad.append('sample (%d, %d) comes back holding %s (%s)' % (i, j, src[0].replace('x', 'sample (').replace('_', ', ') + ')', r.key()[:100]))
                else:
                    bad.append('sample (%d, %d) comes back as %s, not as itself' % (i, j, r.key()[:160]))
    if lost and not bad:
        raise AnalysisError('%s: samples that are read back are not followed: %s' % (label, '; '.join(lost[:3])))
    if bad:
        run.finding(rule, where, label, '%s: %s' % (label, '; '.join(bad[:4])), loc)
        return False
    return True


def codev_compose_rules(run, db):
    fw, fr = db.func(IO + 'write_codev_gridint'), db.func(IO + 'read_codev_gridint')
    n_ok = 0
    # sizes at which the packing into lines changes: a map with as many samples as a line length the writer names (585 values per line)
    widths = set()
    mod = fw.module
    for n in ast.walk(fw.node):
        if isinstance(n, ast.Constant) and isinstance(n.value, int) and not isinstance(n.value, bool) and 16 <= n.value <= 2000:
            widths.add(n.value)
        if isinstance(n, ast.Name) and n.id in getattr(mod, 'assigns', {}):
            e = mod.assigns[n.id]
            if isinstance(e, ast.Constant) and isinstance(e.value, int) and not isinstance(e.value, bool) and 16 <= e.value <= 2000:
                widths.add(e.value)
    for shape, nans in CASES + tuple(((1, w), ()) for w in sorted(widths)[:3]):
        it, dom = file_interp(db)
        dom.count_range = (-32767, 32767)
        dom.file_keys = {'F'}
        label = 'write_codev_gridint -> read_codev_gridint, %dx%d map%s' % (shape[0], shape[1], (' with an invalid sample at flat position %s' % list(nans)) if nans else '')
        wres = it.run(fw, kwargs=lambda: {'array': _input(dom, shape, nans), 'filename': Const('F'), 'comment': Const('c'), 'typ': Const('SUR'), 'nnb': Const(False)})
        wpaths = [p for p in wres if p.outcome == 'return']
        if not wpaths:
            raise AnalysisError('%s: the writer has no returning path' % label)
        for wp in wpaths:
            content = _file_of(wp)
            if content is None:
                raise AnalysisError('%s: what the writer writes is not followed (no file content on the path %s)' % (label, wp.conds))
            if shape[0] * shape[1] <= 16 and codev_range(run, dom, fw, wp, content, label):
                run.ok('C14.range', fw.qual, '%s (writer path %s): every stored count is bounded by 32767 in magnitude' % (label, list(wp.conds)))
            dom.files = {'F': content}
            rres = it.run(fr, kwargs=lambda: {'file': Const('F')})
            for rp in rres:
                if rp.outcome != 'return':
                    run.finding('C14.compose', fr.qual, label, '%s: the reader raises %s on the file the writer wrote (writer path %s)' % (label, getattr(getattr(rp.value, 'exc', rp.value), 'v', rp.value), wp.conds), fr.loc())
                    continue
                v = rp.value
                got = v.items[0] if isinstance(v, Tup) and v.items else v
                if compare_maps(run, dom, 'C14.compose', fr.qual, label, got, shape, nans, fr.loc()):
                    run.ok('C14.compose', fr.qual, '%s (writer path %s, reader path %s): shape, orientation, invalid samples and values (up to the quantisation) come back'
                           % (label, [c for c in wp.conds], [c for c in rp.conds]))
                    n_ok += 1
    return n_ok


ZYGO_RANGE = (-(2 ** 31), 2147483639)


def _dict_get(d, key):
    if isinstance(d, DictV):
        return d.get(Const(key))
    return None


def _frame(dom, kind):
    if kind is None:
        return Const(None)
    from ..domains.filedom import DType
    return FArr.of((2, 2), [dom.sym('frame%d' % k) for k in range(4)], None if kind == 'f8' else DType('u', 2))


def zygo_write(it, dom, fw, shape, nans, label, frame=None):
    wres = it.run(fw, kwargs=lambda: {'file': Const('F'), 'phase': _input(dom, shape, nans), 'dx': dom.sym('dx'), 'wavelength': dom.sym('wavelength'), 'intensity': _frame(dom, frame)})
    wpaths = [p for p in wres if p.outcome == 'return']
    if not wpaths:
        raise AnalysisError('%s: the writer has no returning path (%s)' % (label, [getattr(p.value, 'exc', p.value) for p in wres][:3]))
    out = []
    for wp in wpaths:
        content = _file_of(wp)
        if not isinstance(content, BytesV):
            raise AnalysisError('%s: what the writer writes is not followed' % label)
        out.append((wp, content))
    return out


def zygo_compose_rules(run, db):
    fw, fr = db.func(IO + 'write_zygo_dat'), db.func(IO + 'read_zygo_dat')
    n_ok = 0
    for shape, nans, frame in [c + (None,) for c in CASES] + [CASES[0] + ('f8',), CASES[0] + ('u2',)]:
        it, dom = file_interp(db)
        dom.count_range = ZYGO_RANGE
        dom.file_keys = {'F'}
        label = 'write_zygo_dat -> read_zygo_dat, %dx%d map%s%s' % (shape[0], shape[1], (' with an invalid sample at flat position %s' % list(nans)) if nans else '',
                                                                    '' if frame is None else ', with a 2x2 %s camera frame' % {'f8': 'float64', 'u2': 'uint16'}[frame])
        for wp, content in zygo_write(it, dom, fw, shape, nans, label, frame):
            dom.files = {'F': BytesV(content.items)}
            rres = it.run(fr, kwargs=lambda: {'file': Const('F'), 'multi_intensity_action': Const('first')})
            for rp in rres:
                if rp.outcome != 'return':
                    run.finding('C14.compose', fr.qual, label, '%s: the reader raises %s on the file the writer wrote' % (label, getattr(rp.value, 'exc', rp.value)), fr.loc())
                    continue
                got = _dict_get(rp.value, 'phase')
                if got is None:
                    raise AnalysisError('%s: the reader does not return a dictionary with a phase entry that is followed' % label)
                ok = compare_maps(run, dom, 'C14.compose', fr.qual, label, got, shape, nans, fr.loc())
                meta = _dict_get(rp.value, 'meta')
                for key, want, unit in (('wavelength', Rat(dom.R.atom('wavelength')) / 1000000, 'um -> m'), ('lateral_resolution', Rat(dom.R.atom('dx')) / 1000, 'mm -> m')):
                    mv = _dict_get(meta, key)
                    r = dom.rat(mv) if mv is not None else None
                    if r is None:
                        raise AnalysisError('%s: meta[%r] is not followed: %r' % (label, key, mv))
                    if not (r == want):
                        run.finding('C14.compose', fr.qual, label + ' ' + key, '%s: the header %s comes back as %s, the writer was given %s (%s)' % (label, key, r.key()[:80], want.key(), unit), fr.loc())
                        ok = False
                if ok:
                    run.ok('C14.compose', fr.qual, '%s (reader path %s): shape, orientation, invalid samples, values (up to the quantisation), wavelength and spacing come back' % (label, list(rp.conds)))
                    n_ok += 1
    return n_ok


def _sample_positions(dom, content, shape, nans):
    """file order of the samples: for each 4-byte sample of the phase block (the last size*4 bytes), the map position it holds"""
    n = shape[0] * shape[1]
    block = content.items[len(content.items) - 4 * n:]
    if len(block) != 4 * n:
        raise AnalysisError('the phase block is shorter than the map')
    where = []
    nan_pos = [(k // shape[1], k % shape[1]) for k in nans]
    for s in range(n):
        items = block[4 * s:4 * s + 4]
        if all(isinstance(x, int) for x in items):
            where.append(('invalid', None))
            continue
        fids = {x[0] for x in items if not isinstance(x, int)}
        if len(fids) != 1 or any(isinstance(x, int) for x in items):
            raise AnalysisError('the phase block is not a sequence of whole samples')
        code, val = dom.fields[list(fids)[0]]
        r = dom.rat(val)
        if r is None:
            raise AnalysisError('a stored sample is not followed: %r' % (val,))
        ats = [a for a in dom.strip_quant(r).atoms() if a.startswith('x') and '_' in a]
        if len(set(ats)) != 1:
            raise AnalysisError('a stored sample does not hold one sample of the map: %s' % r.key()[:80])
        i, j = ats[0][1:].split('_')
        where.append(('valid', (int(i), int(j))))
    inv = [w for w in where if w[0] == 'invalid']
    if len(inv) != len(nan_pos):
        raise AnalysisError('the invalid samples of the phase block are not followed')
    return where


def zygo_truncation_rules(run, db):
    """every cut of the written file: the reader raises, or warns and returns the map with every sample that is not wholly in the file
    marked invalid (and no sample holding another sample's value)"""
    fw, fr = db.func(IO + 'write_zygo_dat'), db.func(IO + 'read_zygo_dat')
    n_ok = 0
    for shape, nans in (((2, 3), (1,)), ((3, 1), ())):
        it, dom = file_interp(db)
        dom.count_range = ZYGO_RANGE
        dom.file_keys = {'F'}
        label0 = 'write_zygo_dat -> read_zygo_dat, %dx%d map' % shape
        for wp, content in zygo_write(it, dom, fw, shape, nans, label0):
            n = shape[0] * shape[1]
            where = _sample_positions(dom, content, shape, nans)
            total = len(content.items)
            start = total - 4 * n
            cuts = [start + v for v in range(0, 4 * n)] + [start - 1, start // 2, 9, 0]
            for cut in cuts:
                valid = cut - start
                label = '%s, file cut to %d of %d bytes (%s)' % (label0, cut, total, ('%d bytes of the phase block left' % valid) if valid >= 0 else 'inside the header')
                dom.files = {'F': BytesV(content.items[:cut])}
                rres = it.run(fr, kwargs=lambda: {'file': Const('F'), 'multi_intensity_action': Const('first')})
                for rp in rres:
                    if rp.outcome != 'return':
                        run.ok('C14.trunc', fr.qual, '%s: rejected with %s' % (label, getattr(rp.value, 'exc', rp.value)))
                        n_ok += 1
                        continue
                    got = _dict_get(rp.value, 'phase')
                    if not isinstance(got, FArr):
                        raise AnalysisError('%s: what the reader returns is not followed: %r' % (label, got))
                    bad = []
                    lost = []
                    if not any(e['kind'] == 'warn' for e in rp.events):
                        bad.append('the reader returns without a warning')
                    if valid >= 0 and tuple(got.shape) != tuple(shape):
                        bad.append('the map comes back with shape %s' % (tuple(got.shape),))
                    else:
                        cells = got.values()
                        # which output cell holds which file sample: by the full-file reading, the map position itself
                        for s, (kind, pos) in enumerate(where):
                            complete = valid >= 4 * (s + 1)
                            if kind == 'invalid':
                                continue
                            v = cells[pos[0] * shape[1] + pos[1]] if valid >= 0 else None
                            if v is None:
                                continue
                            if isinstance(v, Unknown):
                                lost.append('(%d, %d): %s' % (pos[0], pos[1], v.why))
                            elif is_nan(v):
                                continue
                            elif not complete:
                                bad.append('sample (%d, %d), of which %d of 4 bytes are in the file, comes back as a number (%s)'
                                           % (pos[0], pos[1], max(0, min(4, valid - 4 * s)), v.why if isinstance(v, Junk) else _cell_text(dom, v)))
                            else:
                                r = dom.rat(v)
                                r = dom.strip_quant(r) if r is not None else None
                                if r is None or not (r == Rat(dom.R.atom('x%d_%d' % pos))):
                                    bad.append('sample (%d, %d), wholly in the file, comes back as %s' % (pos[0], pos[1], v.why if isinstance(v, Junk) else _cell_text(dom, v)))
                        if valid < 0:
                            for v in cells:
                                if not is_nan(v):
                                    bad.append('a file cut inside its header is read as a map with numbers in it')
                                    break
                    if lost and not bad:
                        raise AnalysisError('%s: samples that are read back are not followed: %s' % (label, '; '.join(lost[:3])))
                    if bad:
                        run.finding('C14.trunc', fr.qual, 'cut: ' + ('phase block, %d mod 4 bytes' % (valid % 4) if valid >= 0 else 'header'),
                                    '%s: %s' % (label, '; '.join(bad[:3])), fr.loc())
                    else:
                        run.ok('C14.trunc', fr.qual, '%s: warned, and every sample that is not wholly in the file is invalid' % label)
                        n_ok += 1
    return n_ok


# ---------------------------------------------------------------------------------------------------------------------------------
# the range of the stored counts (Code V): every count the writer stores fits int16 for every range of values
def evalf(dom, r, env):
    """the number a closed form takes for numbers given to the samples (order statistics, abs, max, quantisations evaluated)"""
    R = dom.R

    def atomv(a):
        if a in env:
            return env[a]
        if a in dom.stats:
            base, els = dom.stats[a]
            vals = [ev(e) for e in els]
            return {'min': min, 'max': max, 'mean': lambda v: sum(v) / len(v), 'ptp': lambda v: max(v) - min(v)}[base](vals)
        if a in dom.tiny:
            return 2.220446049250313e-16
        info = R.info.get(a)
        if info:
            f, args = info[0], [ev(x) for x in info[1]]
            if f == 'abs':
                return abs(args[0])
            if f in ('max', 'min'):
                return (max if f == 'max' else min)(args)
            if f in ('max_by_abs', 'min_by_abs'):
                return (max if f == 'max_by_abs' else min)(args, key=abs)
            if f == 'quant':
                return float(round(args[0]))
            if f == 'floordiv':
                return float(args[0] // args[1])
        raise KeyError(a)

    def poly(p):
        tot = 0.0
        for mono, c in p.t.items():
            term = float(c)
            for a, k in mono:
                term *= atomv(a) ** k
            tot += term
        return tot

    def ev(x):
        x = x if isinstance(x, Rat) else Rat(x)
        return poly(x.num) / poly(x.den)
    return ev(r)


def _dominates(dom, M, u, in_magnitude=True):
    """is |u| <= |M| for every input (in_magnitude), or |u| <= M itself (M is then known to be non-negative)?  M a closed form; u one
    sample (a Rat)"""
    R = dom.R
    ats = M.atoms()
    if len(ats) != 1 or not (M == Rat(R.atom(list(ats)[0]))):
        return False
    m = list(ats)[0]

    def abs_of(r):
        a = list(r.atoms())
        if len(a) == 1 and r == Rat(R.atom(a[0])) and R.info.get(a[0], ('',))[0] == 'abs':
            return R.info[a[0]][1][0]
        return None

    def stat_of(r, neg=False):
        rr = -r if neg else r
        a = list(rr.atoms())
        if len(a) == 1 and rr == Rat(R.atom(a[0])) and a[0] in dom.stats:
            return dom.stats[a[0]]
        return None

    def holds(els):
        return any((e == u) or (e == -u) for e in els)
    if m in dom.stats:
        base, els = dom.stats[m]
        if base == 'max':
            inner = [abs_of(e if isinstance(e, Rat) else Rat(e)) for e in els]
            if all(i is not None for i in inner) and holds([i if isinstance(i, Rat) else Rat(i) for i in inner]):
                return True
        return False
    info = R.info.get(m)
    if info and info[0] == 'max_by_abs' and in_magnitude:
        # the argument of largest magnitude, with its sign: in magnitude it is max(|a|, |b|, ...)
        sts = [stat_of(a if isinstance(a, Rat) else Rat(a)) for a in info[1]]
        los = [st[1] for st in sts if st and st[0] == 'min']
        his = [st[1] for st in sts if st and st[0] == 'max']
        return any(holds(lo) and holds(hi) for lo in los for hi in his)
    if info and info[0] == 'max':
        args = [a if isinstance(a, Rat) else Rat(a) for a in info[1]]
        if any(_dominates(dom, a, u, in_magnitude=False) for a in args):
            return True
        lo_sets, hi_sets = [], []
        for a in args:
            inner = abs_of(a)
            if inner is not None:
                inner = inner if isinstance(inner, Rat) else Rat(inner)
                st = stat_of(inner)
                if st and st[0] == 'min':
                    lo_sets.append(st[1])
                if st and st[0] == 'max':
                    hi_sets.append(st[1])
            st = stat_of(a)
            if st and st[0] == 'max':
                hi_sets.append(st[1])
            st = stat_of(a, neg=True)
            if st and st[0] == 'min':
                lo_sets.append(st[1])
        for lo in lo_sets:
            for hi in hi_sets:
                if holds(lo) and holds(hi):
                    return True
    return False


WITNESS_PATTERNS = (('all positive, large', lambda k: 4.0e6 + 1.0e5 * k), ('all negative, large', lambda k: -4.0e6 - 1.0e5 * k), ('mixed', lambda k: (-1) ** k * (2.0e5 + 1.0e4 * k)),
                    ('constant', lambda k: 2500.0), ('constant, negative', lambda k: -2500.0), ('tiny', lambda k: 1.0e-13 * (k + 1)), ('deep valley, low peak', lambda k: -9.0e5 if k == 0 else 1.0e3 + k),
                    ('high peak, shallow valley', lambda k: 9.0e5 if k == 0 else -1.0e3 - k), ('zero', lambda k: 0.0))


def codev_range(run, dom, fw, wp, content, label, limit=32767):
    """True: every stored count proven within +/-limit on this writer path; a finding with a witness when one overflows"""
    text = content if isinstance(content, str) else None
    if text is None:
        raise AnalysisError('%s: the written text is not followed' % label)
    counts = []
    for ch in text:
        if ch in dom.holes:
            val, exact = dom.holes[ch]
            r = dom.rat(val)
            if r is None:
                continue
            a = list(r.atoms())
            if len(a) == 1 and r == Rat(dom.R.atom(a[0])) and dom.R.info.get(a[0], ('',))[0] == 'quant':
                counts.append(dom.R.info[a[0]][1][0])
    if not counts:
        raise AnalysisError('%s: no stored counts found in the written text' % label)
    counts = [c if isinstance(c, Rat) else Rat(c) for c in counts]
    tests = [e for e in wp.events if e['kind'] == 'test']
    xs = sorted({a for c in counts for a in _deep_atoms(dom, c) if a.startswith('x') and '_' in a})
    proven = True
    for e in counts:
        q = e / limit
        ok = False
        # (a) q = u / M with |u| <= M
        for m in _deep_atoms(dom, q, top_only=True):
            M = Rat(dom.R.atom(m))
            u = q * M
            if not (set(u.atoms()) & {m}) and any(_dominates(dom, M, u * s) for s in (1,)):
                ok = True
                break
            # u may carry the unit conversion on both sides: u = c*x, M over c*x as well -- covered by equality of the elements
        # (b) a constant scale on a path whose tests bound the magnitude by a machine epsilon
        if not ok:
            for t in tests:
                lt, rt = dom.rat(t['left']), dom.rat(t['right'])
                if lt is None or rt is None:
                    continue
                small = rt if (t['op'] in ('Lt', 'LtE') and t['truth']) else (lt if (t['op'] in ('Gt', 'GtE') and t['truth']) else None)
                big = lt if small is rt else rt
                if small is None and not t['truth']:
                    small = lt if t['op'] in ('Lt', 'LtE') else (rt if t['op'] in ('Gt', 'GtE') else None)
                    big = rt if small is lt else lt
                    small, big = (big, small) if small is not None else (None, None)      # not (a < b)  ==  b <= a
                if small is None:
                    continue
                sa = list(small.atoms())
                tiny = (len(sa) == 1 and sa[0] in dom.tiny and small == Rat(dom.R.atom(sa[0]))) or \
                    (small.num.is_const() and small.den.is_const() and abs(small.num.const_value() / small.den.const_value()) <= 1)
                if not tiny:
                    continue
                # big < tiny: if big dominates u and q = c*u with a moderate constant c, |q| < 1
                for x in xs:
                    pass
                ats = [a for a in q.atoms()]
                if q.den.is_const() and len(q.num.t) == 1:
                    (mono, c), = q.num.t.items()
                    if len(mono) == 1 and mono[0][1] == 1 and abs(c / q.den.const_value()) <= 2 ** 20:
                        u = Rat(dom.R.atom(mono[0][0]))
                        # the test bounds `big` itself from above: it must dominate |u| as a number, not only in magnitude
                        if any(_dominates(dom, big, w, in_magnitude=False) for w in (u, u * (c / q.den.const_value()), u * (Rat(dom.R.const(1)) / 1000))):
                            ok = True
                            break
        if not ok:
            proven = False
            break
    if proven:
        return True
    # a witness: numbers for the samples that satisfy the tests of this path and push a stored count out of range
    for name, gen in WITNESS_PATTERNS:
        env = {x: gen(k) for k, x in enumerate(xs)}
        try:
            consistent = True
            for t in tests:
                lt, rt = dom.rat(t['left']), dom.rat(t['right'])
                if lt is None or rt is None:
                    raise KeyError('test')
                import operator
                f = {'Lt': operator.lt, 'LtE': operator.le, 'Gt': operator.gt, 'GtE': operator.ge, 'Eq': operator.eq, 'NotEq': operator.ne}.get(t['op'])
                if f is None:
                    raise KeyError('op')
                if f(evalf(dom, lt, env), evalf(dom, rt, env)) != t['truth']:
                    consistent = False
                    break
            if not consistent:
                continue
            vals = [evalf(dom, e, env) for e in counts]
        except (KeyError, ZeroDivisionError, OverflowError, TypeError):
            continue
        worst = max(vals, key=abs)
        if abs(worst) > limit + 0.5:
            run.finding('C14.range', fw.qual, 'stored counts', '%s: for data that is %s (samples %s nm) the writer stores the count %.6g, outside +/-%d: it wraps in the cast to int16 and the reader '
                        'returns a full-size map of wrong numbers (writer path %s)' % (label, name, ', '.join('%.4g' % env[x] for x in xs[:4]), worst, limit, [(t['text'], t['truth']) for t in tests]), fw.loc())
            return False
    raise AnalysisError('%s: the stored counts (%s) are neither proven to fit int16 nor shown to overflow' % (label, counts[0].key()[:100]))


def _deep_atoms(dom, r, top_only=False):
    out = set()
    todo = [r]
    seen = set()
    while todo:
        x = todo.pop()
        x = x if isinstance(x, Rat) else Rat(x)
        for a in x.atoms():
            if a in seen:
                continue
            seen.add(a)
            out.add(a)
            if top_only:
                continue
            if a in dom.stats:
                todo.extend(dom.stats[a][1])
            info = dom.R.info.get(a)
            if info:
                todo.extend(info[1])
    return out


def interferogram_compose_rules(run, db):
    """Interferogram.save_zygo_dat -> Interferogram.from_zygo_dat: the object that is loaded holds the map, the spacing and the wavelength
    of the object that was saved (the unit conversions around the file layer compose to the identity)"""
    from ..core.interp import Obj
    ci = db.cls('prysm.interferogram.Interferogram')
    fs, fl = db.func('prysm.interferogram.Interferogram.save_zygo_dat'), db.func('prysm.interferogram.Interferogram.from_zygo_dat')
    n_ok = 0
    for shape, nans in CASES[:2]:
        it, dom = file_interp(db)
        dom.count_range = ZYGO_RANGE
        dom.file_keys = {'F'}
        label = 'Interferogram.save_zygo_dat -> Interferogram.from_zygo_dat, %dx%d map' % shape

        def mk():
            o = Obj(ci)
            o.attrs.update({'data': _input(dom, shape, nans), 'dx': dom.sym('DX'), 'wavelength': dom.sym('WL'), 'intensity': Const(None), 'meta': Const(None),
                            '_latcaled': Unknown('calibration flag')})
            return o
        saved = [p for p in it.run(fs, kwargs=lambda: {'file': Const('F')}, self_obj=mk) if p.outcome == 'return']
        if not saved:
            raise AnalysisError('%s: save has no returning path' % label)
        for sp in saved:
            content = _file_of(sp)
            if not isinstance(content, BytesV):
                raise AnalysisError('%s: what save writes is not followed (path %s)' % (label, sp.conds))
            dom.files = {'F': BytesV(content.items)}
            for lp in it.run(fl, kwargs=lambda: {'path': Const('F'), 'multi_intensity_action': Const('first')}):
                if lp.outcome != 'return':
                    run.finding('C14.compose', fl.qual, label, '%s: loading the saved file raises %s' % (label, getattr(getattr(lp.value, 'exc', lp.value), 'v', lp.value)), fl.loc())
                    continue
                o = lp.value
                if not isinstance(o, Obj):
                    raise AnalysisError('%s: what the loader returns is not followed: %r' % (label, o))
                ok = compare_maps(run, dom, 'C14.compose', fl.qual, label, o.attrs.get('data'), shape, nans, fl.loc())
                for attr, atom, what in (('dx', 'DX', 'spacing'), ('wavelength', 'WL', 'wavelength')):
                    r = dom.rat(o.attrs.get(attr)) if o.attrs.get(attr) is not None else None
                    if r is None:
                        raise AnalysisError('%s: the %s of the loaded object is not followed: %r' % (label, what, o.attrs.get(attr)))
                    if not (r == Rat(dom.R.atom(atom))):
                        run.finding('C14.compose', fl.qual, label + ' ' + what, '%s: an object saved with %s %s is loaded with %s %s (save path %s)'
                                    % (label, what, atom, what, r.key()[:100], list(sp.conds)), fl.loc())
                        ok = False
                if ok:
                    run.ok('C14.compose', fl.qual, '%s (save path %s, load path %s): map, spacing and wavelength come back' % (label, list(sp.conds), list(lp.conds)))
                    n_ok += 1
    return n_ok
