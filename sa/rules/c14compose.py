"""C14 by composition: the writer is interpreted into a symbolic file (FILE domain: small arrays of symbolic samples, text with number
tokens, bytes with packed fields) and the reader is interpreted on that file.  What comes back is compared, sample by sample, with what
went in.  Nothing here reads the organisation of the two routines -- only what they write and what they return."""
import ast

from ..core.db import AnalysisError
from ..core.interp import Const, Tup, Unknown, DictV
from ..core.norm import Rat
from ..domains.filedom import file_interp, FArr, NAN, is_nan, Junk, BytesV
from ..domains.normdom import Sym

IO = 'prysm.io.'

# (shape, flat positions of the invalid samples)
CASES = (((2, 3), (1,)), ((3, 2), (4,)), ((1, 3), ()), ((3, 1), (0,)))


def _input(dom, shape, nans):
    vals = []
    k = 0
    for i in range(shape[0]):
        for j in range(shape[1]):
            vals.append(NAN if k in nans else dom.sym('x%d_%d' % (i, j)))
            k += 1
    return FArr.of(shape, vals)


def _file_of(path):
    ev = [e for e in path.events if e['kind'] == 'file']
    return ev[-1]['content'] if ev else None


def _cell_text(dom, v):
    if is_nan(v):
        return 'NaN'
    if isinstance(v, Sym):
        return v.r.key()[:120]
    if isinstance(v, Const):
        return repr(v.v)
    return repr(v)[:120]


def compare_maps(run, dom, rule, where, label, got, shape, nans, loc, out_scale=None):
    """got (an FArr) against the input map: shape, invalid samples, values up to the quantisation.  Returns False after a finding."""
    if not isinstance(got, FArr):
        raise AnalysisError('%s: the map that is read back is not followed: %r' % (label, got))
    if tuple(got.shape) != tuple(shape):
        run.finding(rule, where, label, '%s: a map of shape %s comes back with shape %s' % (label, tuple(shape), tuple(got.shape)), loc)
        return False
    cells = got.values()
    bad = []
    lost = []
    k = 0
    for i in range(shape[0]):
        for j in range(shape[1]):
            v = cells[k]
            want_nan = k in nans
            k += 1
            if isinstance(v, Unknown):
                lost.append('(%d, %d): %s' % (i, j, v.why))
                continue
            if isinstance(v, Junk):
                bad.append('sample (%d, %d) comes back as %s' % (i, j, v.why))
                continue
            if want_nan:
                if not is_nan(v):
                    bad.append('the invalid sample (%d, %d) comes back as the number %s' % (i, j, _cell_text(dom, v)))
                continue
            if is_nan(v):
                bad.append('the valid sample (%d, %d) comes back invalid' % (i, j))
                continue
            r = dom.rat(v)
            if r is None:
                lost.append('(%d, %d): %r' % (i, j, v))
                continue
            r = dom.strip_quant(r)
            want = Rat(dom.R.atom('x%d_%d' % (i, j)))
            if out_scale is not None:
                want = want * out_scale
            if not (r == want):
                src = [a for a in r.atoms() if a.startswith('x') and '_' in a]
                if src and all(a != 'x%d_%d' % (i, j) for a in src) and len(set(src)) == 1:
                    bad.append('sample (%d, %d) comes back holding %s (%s)' % (i, j, src[0].replace('x', 'sample (').replace('_', ', ') + ')', r.key()[:100]))
                else:
                    bad.append('sample (%d, %d) comes back as %s, not as itself' % (i, j, r.key()[:160]))
    if lost and not bad:
        raise AnalysisError('%s: samples that are read back are not followed: %s' % (label, '; '.join(lost[:3])))
    if bad:
        run.finding(rule, where, label, '%s: %s' % (label, '; '.join(bad[:4])), loc)
        return False
    return True


def codev_compose_rules(run, db):
    fw, fr = db.func(IO + 'write_codev_gridint'), db.func(IO + 'read_codev_gridint')
    n_ok = 0
    for shape, nans in CASES:
        it, dom = file_interp(db)
        dom.count_range = (-32767, 32767)
        dom.file_keys = {'F'}
        label = 'write_codev_gridint -> read_codev_gridint, %dx%d map%s' % (shape[0], shape[1], (' with an invalid sample at flat position %s' % list(nans)) if nans else '')
        wres = it.run(fw, kwargs=lambda: {'array': _input(dom, shape, nans), 'filename': Const('F'), 'comment': Const('c'), 'typ': Const('SUR'), 'nnb': Const(False)})
        wpaths = [p for p in wres if p.outcome == 'return']
        if not wpaths:
            raise AnalysisError('%s: the writer has no returning path' % label)
        for wp in wpaths:
            content = _file_of(wp)
            if content is None:
                raise AnalysisError('%s: what the writer writes is not followed (no file content on the path %s)' % (label, wp.conds))
            dom.files = {'F': content}
            rres = it.run(fr, kwargs=lambda: {'file': Const('F')})
            for rp in rres:
                if rp.outcome != 'return':
                    run.finding('C14.compose', fr.qual, label, '%s: the reader raises %s on the file the writer wrote (writer path %s)' % (label, getattr(rp.value, 'exc', rp.value), wp.conds), fr.loc())
                    continue
                v = rp.value
                got = v.items[0] if isinstance(v, Tup) and v.items else v
                if compare_maps(run, dom, 'C14.compose', fr.qual, label, got, shape, nans, fr.loc()):
                    run.ok('C14.compose', fr.qual, '%s (writer path %s, reader path %s): shape, orientation, invalid samples and values (up to the quantisation) come back'
                           % (label, [c for c in wp.conds], [c for c in rp.conds]))
                    n_ok += 1
    return n_ok
