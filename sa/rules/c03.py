"""C03 -- output sampling and coordinates are physically correct."""
import ast
from fractions import Fraction

from ..core.db import AnalysisError, norm_stmt, walk_no_nested
from ..core.interp import Const, Tup, Unknown, Obj
from ..core.norm import Rat
from ..domains.index import Shaped
from ..domains.kernel import Mat, Prod2, Vec, exp_arg, coeffs2
from ..domains.normdom import Sym
from . import ftkernels as K
from . import fixedsampling as FS
from .c01 import label
from .common import norm_interp, returns, as_rat

P = 'prysm.propagation.'


def formula_rules(run, db):
    it, dom = norm_interp(db)
    R = dom.R
    A = lambda n: Rat(R.atom(n))
    f = db.func(P + 'Q_for_sampling')
    v = as_rat(dom, returns(it.run(f), f)[0].value, f.qual)
    want = A('wavelength') * A('prop_dist') / (A('input_diameter') * A('output_dx'))
    run.check(v == want, 'C03.formula', f.qual, norm_stmt(f.node.body[-1]), 'Q_for_sampling == lambda z/(D dx_out)', 'Q_for_sampling = %s, expected %s' % (v.key(), want.key()), f.loc())
    f1 = db.func(P + 'pupil_sample_to_psf_sample')
    v1 = as_rat(dom, returns(it.run(f1), f1)[0].value, f1.qual)
    want = A('efl') * A('wavelength') / (A('pupil_sample') * A('samples'))
    run.check(v1 == want, 'C03.formula', f1.qual, norm_stmt(f1.node.body[-1]), 'pupil->psf spacing == lambda f/(N dx)', 'pupil_sample_to_psf_sample = %s, expected %s' % (v1.key(), want.key()), f1.loc())
    f2 = db.func(P + 'psf_sample_to_pupil_sample')
    v2 = as_rat(dom, returns(it.run(f2), f2)[0].value, f2.qual)
    want = A('efl') * A('wavelength') / (A('psf_sample') * A('samples'))
    run.check(v2 == want, 'C03.formula', f2.qual, norm_stmt(f2.node.body[-1]), 'psf->pupil spacing == lambda f/(N dx)', 'psf_sample_to_pupil_sample = %s, expected %s' % (v2.key(), want.key()), f2.loc())
    # composition is the identity rational function
    comp = v2.subs({'psf_sample': v1})
    run.check(comp == A('pupil_sample'), 'C03.formula', f2.qual, 'inverse pair', 'psf_sample_to_pupil_sample(pupil_sample_to_psf_sample(x)) == x',
              'the two conversions are not inverses: composition = %s' % comp.key(), f2.loc())


def units_rules(run, db):
    """exp/cos/sin arguments under the documented units equal the textbook dimensionless phase."""
    it, dom = K.mk(db, {})
    R = dom.R
    A = lambda n: Rat(R.atom(n))
    I, pi = Rat(R.I), A('pi')
    ci = db.cls(P + 'Wavefront')

    def exp_args(p):
        return [e for e in p.events if e['kind'] == 'extcall' and e['name'] == 'numpy.exp']

    thousand = Rat(R.const(1000))
    for name, kw, want, text in (
            ('from_amp_and_phase', lambda: {'amplitude': dom.sym('amplitude'), 'phase': dom.sym('phase'), 'wavelength': dom.sym('wavelength'), 'dx': dom.sym('dx')},
             2 * pi * I * A('phase') / (thousand * A('wavelength')), '2 pi i OPD[nm]/lambda[um] = 2 pi i phase/(1000 wavelength)'),
            ('phase_screen', lambda: {'phase': dom.sym('phase'), 'wavelength': dom.sym('wavelength'), 'dx': dom.sym('dx')},
             2 * pi * I * A('phase') / (thousand * A('wavelength')), '2 pi i OPD[nm]/lambda[um]'),
    ):
        f = db.func(P + 'Wavefront.' + name)
        res = [p for p in it.run(f, args=lambda: [Const(None)][:0], kwargs=lambda kw=kw: dict(kw(), cls=Const('cls'))) if p.outcome == 'return']
        n = 0
        for p in res:
            for e in exp_args(p):
                n += 1
                got = dom.rat(e['args'][0])
                run.check(got is not None and got == want, 'C03.units', f.qual, 'phase argument', 'exp argument == ' + text,
                          'exp argument is %s, expected %s = %s' % (got.key() if got is not None else e['args'][0], text, want.key()), f.loc(e['node']))
        if n == 0:
            raise AnalysisError('%s: no exp() found' % f.qual)
    f = db.func(P + 'Wavefront.thin_lens')
    res = [p for p in it.run(f, kwargs=lambda: {'cls': Const('cls'), 'f': dom.sym('f'), 'wavelength': dom.sym('wavelength'), 'x': dom.sym('x'), 'y': dom.sym('y')})]
    n = 0
    want = -pi * I * (A('x') * A('x') + A('y') * A('y')) * thousand / (A('f') * A('wavelength'))
    for p in res:
        for e in exp_args(p):
            n += 1
            got = dom.rat(e['args'][0])
            run.check(got is not None and got == want, 'C03.units', f.qual, 'lens phase', 'thin lens phase == -i pi r^2[mm]/(lambda[um] f[mm]) * 1e3',
                      'thin lens phase is %s, expected %s' % (got.key() if got is not None else e['args'][0], want.key()), f.loc(e['node']))
    if n == 0:
        raise AnalysisError('thin_lens: no exp() found')
    # free space transfer function
    f = db.func(P + 'angular_spectrum_transfer_function')
    res = [p for p in it.run(f, kwargs=lambda: {'samples': Tup([dom.length('n0'), dom.length('n1')]), 'wvl': dom.sym('wvl'), 'dx': dom.sym('dx'), 'z': dom.sym('z')}) if p.outcome == 'return']
    if not res:
        raise AnalysisError('angular_spectrum_transfer_function: no returning path')
    return res, f


def freespace_obligations(run, db, rule):
    """Shared with C02: the exponent of each factor is -i pi lambda z k^2 in consistent units."""
    # decided on values first (2x3, 3x2, 2x2, 1x4 grids); the reading of outer(tfy, tfx) below defers to it
    from .c02values import freespace_value_rules
    n_val = run.group(freespace_value_rules, run, db, rule)
    db._freespace_values = n_val
    it, dom = K.mk(db, {})

    def fftfreq_hook(dotted, args, kwargs, node, orig=dom.call_ext):
        if dotted.endswith('fft.fftfreq') and args:
            n = args[0]
            v = dom.func_atom('fftfreq', [n, args[1] if len(args) > 1 else Const(1)])
            return Vec(v, n, dom.idx_atom(n))
        return orig(dotted, args, kwargs, node)
    dom.call_ext = fftfreq_hook
    R = dom.R
    A = lambda n: Rat(R.atom(n))
    I, pi = Rat(R.I), A('pi')
    f = db.func(P + 'angular_spectrum_transfer_function')
    res = [p for p in it.run(f, kwargs=lambda: {'samples': Tup([dom.length('n0'), dom.length('n1')]), 'wvl': dom.sym('wvl'), 'dx': dom.sym('dx'), 'z': dom.sym('z')}) if p.outcome == 'return']
    if not res:
        raise AnalysisError('angular_spectrum_transfer_function: no returning path')
    for p in res:
        v = p.value
        for e in p.events:
            if e['kind'] == 'vecstore':
                run.finding(rule, f.qual, 'store into a transfer-function factor', 'samples of the transfer function are overwritten with %r after exp(): the kernel no longer has unit modulus everywhere '
                            '(energy is not conserved, -z does not undo z)' % (e['value'],), f.loc(e['node']))
        if not isinstance(v, Mat):
            if n_val:
                run.info('angular_spectrum_transfer_function is not read as outer(tfy, tfx) (%r); its samples were decided on values (%d grids)' % (v, n_val))
                return dom
            raise AnalysisError('angular_spectrum_transfer_function does not return outer(tfy, tfx): %r' % (v,))
        ea = exp_arg(dom, v.elem)
        if ea is None:
            raise AnalysisError('transfer function is not a single exp(phase)')
        arg, fac = ea
        n0, n1 = dom.length('n0'), dom.length('n1')
        ky = dom.func_atom('fftfreq', [n0, dom.sym('dx')]).r
        kx = dom.func_atom('fftfreq', [n1, dom.sym('dx')]).r
        want = -I * pi * A('wvl') * A('z') * (kx * kx + ky * ky) / 1000
        run.check(arg == want and fac == 1, rule, f.qual, 'transfer function phase', 'tf == exp(-i pi lambda[um->mm] z (kx^2 + ky^2)), unit modulus',
                  'transfer function phase is %s (factor %s), expected %s' % (arg.key(), fac.key(), want.key()), f.loc())
        run.check(v.idx0 == dom.idx_atom(n0) and v.idx1 == dom.idx_atom(n1), rule, f.qual, 'transfer function axes', 'rows follow samples[0], columns samples[1]',
                  'outer product axes are (%s, %s), expected rows from samples[0]' % (v.idx0, v.idx1), f.loc())
    return dom


def wavefront_rules(run, db):
    ci = db.cls(P + 'Wavefront')
    # fixed-sampling wrappers: spacings in the right roles, result carries the requested dx
    for meth, sign, space_in in (('focus_fixed_sampling', -1, 'pupil'), ('unfocus_fixed_sampling', +1, 'psf')):
        f = db.func(P + 'Wavefront.' + meth)
        it, dom = K.mk(db, {})
        R = dom.R

        def mkself():
            o = Obj(ci)
            o.attrs.update({'data': dom.array('ary', 'n0', 'n1'), 'dx': dom.sym('self_dx'), 'wavelength': dom.sym('wavelength'), 'space': Const(space_in)})
            return o
        res = [p for p in it.run(f, kwargs=lambda: {'efl': dom.sym('efl'), 'dx': dom.sym('dx'), 'samples': Tup([dom.length('M0'), dom.length('M1')]),
                                                    'shift': Tup([Const(0), Const(0)]), 'method': Const('mdft')}, self_obj=mkself) if p.outcome == 'return']
        if len(res) != 1:
            raise AnalysisError('%s: expected one path' % f.qual)
        w = res[0].value
        if not isinstance(w, Obj):
            raise AnalysisError('%s does not return a Wavefront' % f.qual)
        dxv = dom.rat(w.attrs.get('dx'))
        run.check(dxv is not None and dxv == Rat(R.atom('dx')), 'C03.wrapper', f.qual, 'result dx', 'result carries the requested spacing', 'result dx is %r, expected the requested dx' % (w.attrs.get('dx'),), f.loc())
        data = w.attrs.get('data')
        k = sign * 2 * Rat(R.atom('pi')) * Rat(R.I) * Rat(R.atom('self_dx')) * Rat(R.atom('dx')) / (Rat(R.atom('wavelength')) * Rat(R.atom('efl')))
        if not isinstance(data, Prod2):
            raise AnalysisError('%s: data is not the matrix DFT of self.data' % f.qual)
        for mat, nin, nout, in_rows in ((data.left, 'n0', 'M0', False), (data.right, 'n1', 'M1', True)):
            spec = K.AxisSpec(dom.length(nin), dom.length(nout), k, Const(0), nin[-1])
            obs, _ = K.check_dft_matrix(dom, mat, spec, in_rows, False)
            for ok, text in obs:
                run.check(ok, 'C03.wrapper', f.qual, label(text), text, '%s: %s' % (meth, text), f.loc())
        sp = w.attrs.get('space')
        run.check(isinstance(sp, Const) and sp.v == ('psf' if space_in == 'pupil' else 'pupil'), 'C03.wrapper', f.qual, 'space', 'space flips', 'result space is %r' % (sp,), f.loc())
        # the same with a requested shift: the kernel frequency is symmetric in the two spacings, the translation is not -- it is the
        # shift in units of the spacing of the OUTPUT plane (the requested dx), whichever spacing the wrapper calls input and output
        dom.nonzero = {'sx', 'sy'}
        res = [p for p in it.run(f, kwargs=lambda: {'efl': dom.sym('efl'), 'dx': dom.sym('dx'), 'samples': Tup([dom.length('M0'), dom.length('M1')]),
                                                    'shift': Tup([dom.sym('sx'), dom.sym('sy')]), 'method': Const('mdft')}, self_obj=mkself) if p.outcome == 'return']
        res = [p for p in res if not any(e['kind'] == 'coincidence' for e in p.events)]
        if len(res) != 1 or not isinstance(res[0].value, Obj) or not isinstance(res[0].value.attrs.get('data'), Prod2):
            raise AnalysisError('%s with a shift: the result is not followed as the matrix DFT of self.data' % f.qual)
        data = res[0].value.attrs.get('data')
        odx = Rat(R.atom('dx'))
        for mat, nin, nout, in_rows, sh in ((data.left, 'n0', 'M0', False, 'sy'), (data.right, 'n1', 'M1', True, 'sx')):
            spec = K.AxisSpec(dom.length(nin), dom.length(nout), k, Sym(Rat(R.atom(sh)) / odx), nin[-1])
            obs, _ = K.check_dft_matrix(dom, mat, spec, in_rows, True)
            for ok, text in obs:
                run.check(ok, 'C03.wrapper', f.qual, 'shifted: ' + label(text), text + ' (shift in units of the requested dx)', '%s with shift: %s' % (meth, text), f.loc())
    # FFT route: reported dx is lambda f/(N_k dx) for BOTH axes of the (padded) array
    for meth, conv in (('focus', 'pupil_sample_to_psf_sample'), ('unfocus', 'psf_sample_to_pupil_sample')):
        f = db.func(P + 'Wavefront.' + meth)
        it, dom = K.mk(db, {})
        dom.fresh_lengths = ['P0', 'P1']
        R = dom.R

        def mkself():
            o = Obj(ci)
            o.attrs.update({'data': dom.array('ary', 'n0', 'n1'), 'dx': dom.sym('self_dx'), 'wavelength': dom.sym('wavelength'),
                            'space': Const('pupil' if meth == 'focus' else 'psf')})
            return o
        res = [p for p in it.run(f, kwargs=lambda: {'efl': dom.sym('efl'), 'Q': dom.sym('Q')}, self_obj=mkself) if p.outcome == 'return']
        seen = set()
        for p in res:
            w = p.value
            if not isinstance(w, Obj):
                raise AnalysisError('%s does not return a Wavefront' % f.qual)
            data = w.attrs.get('data')
            dxv = dom.rat(w.attrs.get('dx'))
            if not isinstance(data, Shaped) or dxv is None:
                raise AnalysisError('%s: result data/dx not analysable: %r %r' % (f.qual, data, w.attrs.get('dx')))
            for ax in (0, 1):
                N = K.R_(dom, data.shape.items[ax])
                want = Rat(R.atom('wavelength')) * Rat(R.atom('efl')) / (N * Rat(R.atom('self_dx')))
                key = (ax, dxv.key(), want.key())
                if key in seen:
                    continue
                seen.add(key)
                run.check(dxv == want, 'C03.fftdx', f.qual, 'reported dx, axis %d' % ax, 'reported dx == lambda f/(N_%d dx) of the transformed array' % ax,
                          'Wavefront.%s reports the single spacing %s, but the spacing of axis %d of the result is lambda f/(N_%d dx) = %s (they differ for non-square arrays)'
                          % (meth, dxv.key(), ax, ax, want.key()), f.loc())


def check(run, db, tier):
    run.trust('NORM/KERNEL engines; documented units: pupil dx mm, focal dx um, wavelength um, distances mm, OPD nm (prysm/propagation.py docstrings)',
              'textbook: focal spacing lambda f/(N dx); Fourier kernel exp(-2 pi i x u/(lambda f)); phase 2 pi OPD/lambda; lens phase -pi r^2/(lambda f); free space exp(-i pi lambda z k^2)')
    run.assume('a kernel with frequency 2 pi dx_in dx_out/(lambda f) and output grid (t - M//2) dx_out - shift puts a pupil tilt of k waves at k lambda f/D: '
               'that is a property of the exact DFT sum which the kernel rule establishes; sampled-tilt aliasing is not decided')
    run.rule('C03.formula', 'the three spacing formulas equal their reference rational functions and the two conversions are inverses')
    run.rule('C03.kernel', 'fixed-sampling kernels have the physical frequency per axis and an output grid translated by exactly shift/dx_out samples (both engines)')
    run.rule('C03.units', 'every phase argument equals the textbook dimensionless phase under the documented units')
    run.rule('C03.wrapper', 'Wavefront fixed-sampling wrappers pass spacings in the right roles and report the requested dx')
    run.rule('C03.grid', 'coordinate vectors that the engines shift in place are fresh per call (never shared through a memo)')
    run.rule('C03.fftdx', 'the dx reported by the FFT route equals lambda f/(N dx) for each axis of the transformed array')
    run.group(formula_rules, run, db)
    par = [dict(zip(['n0', 'n1', 'M0', 'M1'], b)) for b in ((0, 0, 0, 0), (0, 1, 1, 0))]
    run.group(FS.run_fixed, run, db, 'C03.kernel', 'focus_fixed_sampling', -1, par)
    run.group(FS.run_fixed, run, db, 'C03.kernel', 'unfocus_fixed_sampling', +1, par)
    run.group(units_rules, run, db)
    run.group(freespace_obligations, run, db, 'C03.units')
    run.forgive('freespace_value_rules', ['freespace_obligations'])
    run.group(wavefront_rules, run, db)
    from .c02 import ctor_role_rules
    run.group(ctor_role_rules, run, db, 'C03.wrapper')
    from .c01 import fresh_rules
    run.group(fresh_rules, run, db, 'C03.grid')
    from .c01 import iczt_rule
    from .c02 import Proxy as _P
    run.group(iczt_rule, _P(run, {'C01.conj': 'C03.kernel'}), db)
    # where the two engines put the field: chirp-Z == matrix DFT cell by cell (in modulus under a shift) on values; a shift that one
    # engine does not apply is a displaced image (the reading of the chirp filter above defers to this when it cannot read the code)
    from .c01values import route_value_rules
    run.group(route_value_rules, _P(run, {'C01.route': 'C03.kernel'}), db)
    run.forgive('route_value_rules', ['run_fixed'])
    # the coordinate grids a sampled field is located with: built from fftrange*dx over (row, col), unpacked in the order they are returned (shared with C04)
    from . import c04
    from .c02 import Sub
    run.group(c04.check, Sub(run, lambda r: 'C03.grid'), db, tier)
    run.require_instances('C03.formula', 4)
    run.require_instances('C03.kernel', 100)
    run.require_instances('C03.units', 4)
    run.require_instances('C03.wrapper', 10)
    run.require_instances('C03.fftdx', 4)
