"""C20 -- Jones / Mueller calculus (symbolic 2x2 algebra in NORM)."""
import ast

from ..core.db import AnalysisError, norm_stmt, walk_no_nested
from ..core.interp import Const, Tup, Unknown, LambdaRef, Frame
from .common import norm_interp, returns, as_rat, show, Sym, Arr, Rat, _rat
from .purity import input_mutations

M = 'prysm.x.polarization.'


def _mat(dom, v, what):
    if not (isinstance(v, Arr) and v.shape == (2, 2)):
        raise AnalysisError('%s is not a concrete 2x2 matrix: %r' % (what, v))
    return [[as_rat(dom, v.get(i, j), what) for j in range(2)] for i in range(2)]


def _mm(a, b):
    return [[a[i][0] * b[0][j] + a[i][1] * b[1][j] for j in range(2)] for i in range(2)]


def _h(a):
    return [[a[j][i].conj() for j in range(2)] for i in range(2)]


def _eq(a, b):
    return all(a[i][j] == b[i][j] for i in range(2) for j in range(2))


def _txt(a):
    return '[[%s, %s], [%s, %s]]' % (a[0][0].key(), a[0][1].key(), a[1][0].key(), a[1][1].key())


def check(run, db, tier):
    it, dom = norm_interp(db)
    R = dom.R
    one, zero = Rat(R.const(1)), Rat(R.const(0))
    I2 = [[one, zero], [zero, one]]
    run.trust('NORM canonical forms with sin^2 -> 1-cos^2, I^2 -> -1, exp(a)exp(b)=exp(a+b), conj(exp(I u)) = exp(-I u) for real u',
              'abstract interpretation of subscript stores into the zero matrix returned by _empty_jones (missing entries are 0)',
              'Mueller matrix definition M_ij = 1/2 tr(sigma_i J sigma_j J^H) (Chipman, Lam, Young)')
    run.assume('angles/retardances are real symbols; Jones matrix entries of the generic matrix are complex symbols; '
               'the batched case is the same code applied elementwise (batch plumbing not decided)')
    run.rule('C20.unitary', 'U^H U == I symbolically for every retarder constructor; rotation matrix orthogonal')
    run.rule('C20.rotation', 'element(theta) == R(-theta) diag R(theta) with the reference rotation [[c,s],[-s,c]]')
    run.rule('C20.polarizer', 'linear_polarizer is idempotent and obeys Malus law')
    run.rule('C20.wrappers', 'half/quarter wave plates are linear retarders of pi, pi/2; polarizer is the alpha=0 diattenuator')
    run.rule('C20.pauli', 'sum_i c_i sigma_i == J entrywise')
    run.rule('C20.mueller', 'jones_to_mueller(J)[i,j] == 1/2 tr(sigma_i J sigma_j J^H) for a generic complex J, both code paths')
    run.rule('C20.pure', 'no constructor writes in place through an argument (spatially varying elements are reproducible)')
    run.rule('C20.adapter', 'the propagation adapter maps component (i,j) to component (i,j)')

    def call(name, **kw):
        fi = db.func(M + name)
        ps = returns(it.run(fi, kwargs=lambda: dict(kw)), fi)
        vals = [p.value for p in ps]
        for v in vals[1:]:
            if v != vals[0]:
                raise AnalysisError('%s: paths disagree' % fi.qual)
        return fi, vals[0]

    th = R.atom('theta')
    c, s = _rat(R.trig('cos', th)), _rat(R.trig('sin', th))
    Rref = [[c, s], [-s, c]]
    Rrefm = [[c, -s], [s, c]]

    fi, v = call('jones_rotation_matrix', shape=Const(None))
    rot = _mat(dom, v, fi.qual)
    run.check(_eq(rot, Rref), 'C20.rotation', fi.qual, 'matrix', 'jones_rotation_matrix == [[c,s],[-s,c]]',
              'rotation matrix is %s' % _txt(rot), fi.loc())
    run.check(_eq(_mm(_h(rot), rot), I2), 'C20.unitary', fi.qual, 'orthogonal', 'R^T R == I', 'R^H R = %s' % _txt(_mm(_h(rot), rot)), fi.loc())

    # retarders
    delta = R.atom('retardance')
    ph = _rat(R.exp(R.I * delta))
    for name, kw, diag in (
            ('linear_retarder', {'shape': Const(None)}, [[one, zero], [zero, ph]]),
            ('half_wave_plate', {'shape': Const(None)}, None),
            ('quarter_wave_plate', {'shape': Const(None)}, None)):
        fi, v = call(name, **kw)
        J = _mat(dom, v, fi.qual)
        uu = _mm(_h(J), J)
        run.check(_eq(uu, I2), 'C20.unitary', fi.qual, 'unitary', '%s^H %s == I for all theta, retardance' % (name, name),
                  'U^H U = %s' % _txt(uu), fi.loc())
        if diag is not None:
            want = _mm(_mm(Rrefm, diag), Rref)
            run.check(_eq(J, want), 'C20.rotation', fi.qual, 'conjugation', '%s(theta) == R(-theta) diag(1,e^{i d}) R(theta)' % name,
                      '%s = %s, expected %s' % (name, _txt(J), _txt(want)), fi.loc())
    # wrappers agree with linear_retarder at pi, pi/2
    pi = dom.sym('pi')
    fr = db.func(M + 'linear_retarder')
    for name, ret in (('half_wave_plate', pi), ('quarter_wave_plate', Sym(pi.r / 2))):
        fi, v = call(name, shape=Const(None))
        ps = returns(it.run(fr, kwargs=lambda: {'retardance': ret, 'shape': Const(None)}), fr)
        run.check(ps[0].value == v, 'C20.wrappers', fi.qual, 'delegation', '%s == linear_retarder(%s)' % (name, ret.r.key()),
                  '%s differs from linear_retarder(%s)' % (name, ret.r.key()), fi.loc())

    # diattenuator / polarizer
    al = _rat(R.atom('alpha'))
    fi, v = call('linear_diattenuator', shape=Const(None))
    J = _mat(dom, v, fi.qual)
    want = _mm(_mm(Rrefm, [[one, zero], [zero, al]]), Rref)
    run.check(_eq(J, want), 'C20.rotation', fi.qual, 'conjugation', 'linear_diattenuator == R(-theta) diag(1,alpha) R(theta)',
              'diattenuator = %s' % _txt(J), fi.loc())
    fi, v = call('linear_polarizer', shape=Const(None))
    P = _mat(dom, v, fi.qual)
    run.check(_eq(_mm(P, P), P), 'C20.polarizer', fi.qual, 'idempotent', 'P^2 == P', 'P^2 = %s != P = %s' % (_txt(_mm(P, P)), _txt(P)), fi.loc())
    # Malus: |P(theta) x_hat|^2 == cos^2 theta
    ex = [P[0][0], P[1][0]]
    inten = ex[0] * ex[0].conj() + ex[1] * ex[1].conj()
    run.check(inten == c * c, 'C20.polarizer', fi.qual, 'malus', '|P(theta) x|^2 == cos(theta)^2', '|P x|^2 = %s' % inten.key(), fi.loc())
    want0 = _mm(_mm(Rrefm, [[one, zero], [zero, zero]]), Rref)
    run.check(_eq(P, want0), 'C20.wrappers', fi.qual, 'delegation', 'linear_polarizer == diattenuator(alpha=0)', 'polarizer = %s' % _txt(P), fi.loc())

    # vortex retarder
    fi = db.func(M + 'vector_vortex_retarder')
    ps = returns(it.run(fi), fi)
    J = _mat(dom, ps[0].value, fi.qual)
    for p in ps[1:]:
        if p.value != ps[0].value:
            raise AnalysisError('vector_vortex_retarder: paths disagree')
    uu = _mm(_h(J), J)
    stores = [n for n in walk_no_nested(fi.node) if isinstance(n, ast.Assign) and isinstance(n.targets[0], ast.Subscript)]
    construct = 'vvr unitarity'
    # diagnose: name an entry never stored / stored twice
    seen = {}
    for st in stores:
        k = ast.unparse(st.targets[0])
        seen.setdefault(k, []).append(st)
    dup = [k for k, v in seen.items() if len(v) > 1]
    msg = 'U^H U = %s' % _txt(uu)
    if dup:
        msg += ' (entry %s is stored twice; another entry is never stored)' % dup[0]
    run.check(_eq(uu, I2), 'C20.unitary', fi.qual, construct, 'vortex retarder unitary for all charge, theta, retardance, rotate', msg,
              fi.loc(seen[dup[0]][1]) if dup else fi.loc())
    # reference form of the vortex retarder at rotate = 0
    ps0 = returns(it.run(fi, kwargs=lambda: {'rotate': Const(0)}), fi)
    J0 = _mat(dom, ps0[0].value, fi.qual)
    ct = _rat(R.trig('cos', R.atom('charge') * R.atom('theta')))
    stt = _rat(R.trig('sin', R.atom('charge') * R.atom('theta')))
    half = R.atom('retardance') * R.const(1) * (R.const(1) * 1)
    sh = _rat(R.trig('sin', R.atom('retardance') * R.const(1) * R.const(1) * R.const(1) * (R.const(1)) * R.const(__import__('fractions').Fraction(1, 2))))
    ch = _rat(R.trig('cos', R.atom('retardance') * R.const(__import__('fractions').Fraction(1, 2))))
    mi = _rat(-R.I)
    want = [[sh * ct + mi * ch, sh * stt], [sh * stt, -sh * ct + mi * ch]]
    run.check(_eq(J0, want), 'C20.rotation', fi.qual, 'mawet-eq7', 'vortex retarder == sin(d/2)[[c,s],[s,-c]] - i cos(d/2) I (Mawet 2009 eq 7)',
              'vortex retarder (rotate=0) = %s, expected %s' % (_txt(J0), _txt(want)), fi.loc())

    # rotating the plate is conjugation with the rotation matrix, for every charge
    cr_, sr_ = _rat(R.trig('cos', R.atom('rotate'))), _rat(R.trig('sin', R.atom('rotate')))
    Rrot, Rrotm = [[cr_, sr_], [-sr_, cr_]], [[cr_, -sr_], [sr_, cr_]]
    wantrot = _mm(_mm(Rrotm, J0), Rrot)
    run.check(_eq(J, wantrot), 'C20.rotation', fi.qual, 'vortex rotation', 'vector_vortex_retarder(rotate) == R(-rotate) V(rotate=0) R(rotate) for every charge',
              'the rotated vortex retarder is not the conjugation of the unrotated one with the rotation matrix (folding the rotation into the azimuth is only right for charge 2)', fi.loc())

    # Pauli
    fp = db.func(M + 'pauli_spin_matrix')
    sig = []
    for i in range(4):
        ps = returns(it.run(fp, kwargs=lambda i=i: {'index': Const(i), 'shape': Const(None)}), fp)
        sig.append(_mat(dom, ps[0].value, fp.qual))
    ref_sig = [[[one, zero], [zero, one]], [[one, zero], [zero, -one]], [[zero, one], [one, zero]],
               [[zero, _rat(-R.I)], [_rat(R.I), zero]]]
    for i in range(4):
        run.check(_eq(sig[i], ref_sig[i]), 'C20.pauli', fp.qual, 'sigma%d' % i, 'pauli_spin_matrix(%d) is sigma_%d' % (i, i),
                  'sigma_%d = %s' % (i, _txt(sig[i])), fp.loc())
    fc = db.func(M + 'pauli_coefficients')
    Jatoms = lambda: [Arr((2, 2), [dom.sym('J%d%d' % (i, j), real=False) for i in range(2) for j in range(2)])]
    ps = returns(it.run(fc, args=Jatoms), fc)
    cs = ps[0].value
    if not (isinstance(cs, Tup) and len(cs.items) == 4):
        raise AnalysisError('pauli_coefficients does not return 4 coefficients')
    cr = [as_rat(dom, x, 'pauli coefficient') for x in cs.items]
    Jg = [[_rat(R.atom('J%d%d' % (i, j), real=False)) for j in range(2)] for i in range(2)]
    rec = [[sum((cr[k] * sig[k][i][j] for k in range(4)), zero) for j in range(2)] for i in range(2)]
    run.check(_eq(rec, Jg), 'C20.pauli', fc.qual, 'reconstruction', 'sum c_i sigma_i == J', 'sum c_i sigma_i = %s' % _txt(rec), fc.loc())
    # a field of Jones matrices (leading axis of length 3, the 2x2 part last): every coefficient is one number per matrix of the field,
    # the decomposition of that matrix
    B = 3
    Jbatch = lambda: [Arr((B, 2, 2), [dom.sym('K%d_%d%d' % (b, i, j), real=False) for b in range(B) for i in range(2) for j in range(2)])]
    psb = returns(it.run(fc, args=Jbatch), fc)
    csb = psb[0].value
    if not (isinstance(csb, Tup) and len(csb.items) == 4):
        raise AnalysisError('pauli_coefficients of a field of matrices does not return 4 coefficients')
    if not all(isinstance(x, Arr) and all(dom.rat(y) is not None for y in x.data) for x in csb.items):
        raise AnalysisError('pauli_coefficients of a field of matrices: the coefficients are not followed (%r)' % (csb.items[0],))
    okb = all(x.shape == (B,) for x in csb.items)
    detail = 'coefficient shapes %s for a field of shape (%d, 2, 2)' % ([x.shape for x in csb.items], B)
    if okb:
        for b in range(B):
            Kb = [[_rat(R.atom('K%d_%d%d' % (b, i, j), real=False)) for j in range(2)] for i in range(2)]
            recb = [[sum((as_rat(dom, csb.items[k].data[b], 'pauli coefficient') * sig[k][i][j] for k in range(4)), zero) for j in range(2)] for i in range(2)]
            if not _eq(recb, Kb):
                okb = False
                detail = 'for matrix %d of the field, sum c_i sigma_i = %s' % (b, _txt(recb))
                break
    run.check(okb, 'C20.pauli', fc.qual, 'reconstruction, field of matrices', 'for J of shape (N, 2, 2) each coefficient has shape (N,) and decomposes its own matrix',
              'pauli_coefficients of a field of Jones matrices: %s' % detail, fc.loc())

    # Mueller
    fm = db.func(M + 'jones_to_mueller')
    Jh = _h(Jg)
    for bc in (True, False):
        ps = returns(it.run(fm, args=Jatoms, kwargs=lambda: {'broadcast': Const(bc)}), fm)
        Mv = ps[0].value
        if not (isinstance(Mv, Arr) and Mv.shape == (4, 4)):
            raise AnalysisError('jones_to_mueller(broadcast=%s) is not a concrete 4x4: %r' % (bc, Mv))
        verdicts = []
        for eps in (1, -1):
            # the sign of sigma_3 (handedness of S3) is a convention; either is accepted, consistently
            sg = list(ref_sig[:3]) + [[[x * eps for x in row] for row in ref_sig[3]]]
            bad = []
            for i in range(4):
                for j in range(4):
                    t = _mm(_mm(_mm(sg[i], Jg), sg[j]), Jh)
                    want = (t[0][0] + t[1][1]) / 2
                    got = as_rat(dom, Mv.get(i, j), 'M%d%d' % (i, j))
                    if not (got == want):
                        bad.append((i, j, got.key(), want.key()))
            verdicts.append(bad)
        bad = min(verdicts, key=len)
        run.check(not bad, 'C20.mueller', fm.qual, 'broadcast=%s' % bc, 'all 16 entries equal 1/2 tr(s_i J s_j J^H) (either S3 handedness)',
                  'entries differ: ' + '; '.join('M[%d,%d]=%s expected %s' % b for b in bad[:3]), fm.loc())

    # both code paths of the Mueller map agree with each other (batched == elementwise conversion)
    mv = []
    for bc in (True, False):
        ps = returns(it.run(fm, args=Jatoms, kwargs=lambda: {'broadcast': Const(bc)}), fm)
        mv.append(ps[0].value)
    same = isinstance(mv[0], Arr) and isinstance(mv[1], Arr) and all(as_rat(dom, x, 'M') == as_rat(dom, y, 'M') for x, y in zip(mv[0].data, mv[1].data))
    run.check(same, 'C20.mueller', fm.qual, 'path agreement', 'broadcast and non-broadcast conversions give the same matrix',
              'jones_to_mueller(broadcast=True) and (broadcast=False) give different matrices (the two Kronecker products disagree)', fm.loc())

    # constructors do not write through their arguments
    for nm in ('jones_rotation_matrix', 'linear_retarder', 'linear_diattenuator', 'half_wave_plate', 'quarter_wave_plate', 'linear_polarizer',
               'vector_vortex_retarder', 'jones_to_mueller', 'pauli_coefficients', 'broadcast_kron', 'linear_pol_vector', 'apply_polarization_optic'):
        fi = db.func(M + nm)
        muts = input_mutations(fi)
        for st, name in muts:
            run.finding('C20.pure', fi.qual, norm_stmt(st), 'in-place write through the argument `%s`: the caller\'s array is modified, so a second construction from the same grid differs from the first' % name, fi.loc(st))
        if not muts:
            run.ok('C20.pure', fi.qual, 'no in-place write through an argument')

    from .purity import module_global_mutations
    gm = module_global_mutations(db, 'prysm.x.polarization')
    for fi_, st, nm, r in gm:
        run.finding('C20.pure', fi_.qual, norm_stmt(st), '`%s` writes in place through `%s`, which may alias the module-level constant %s: the constant changes with every call, so the second and later '
                    'results differ from the first (e.g. a Mueller matrix scaled down once more per call)' % (norm_stmt(st), nm, r), fi_.loc(st))
    if not gm:
        run.ok('C20.pure', 'prysm.x.polarization', 'module-level constants are never written in place')

    # adapter
    fa = db.func(M + 'jones_adapter')
    lam = ast.parse('lambda E: E', mode='eval').body

    def run_adapter():
        def args():
            return [LambdaRef(lam, Frame(fa, fa.module, {}))]
        ps = returns(it.run(fa, args=args), fa)
        w = ps[0].value
        W = Arr((1, 2, 2), [dom.sym('W%d%d' % (i, j), real=False) for i in range(2) for j in range(2)])
        return it.call_value(w, [W], {}, fa.node, None), W
    it._reset_run([])
    out, W = run_adapter()
    ok = isinstance(out, Arr) and out.shape == (1, 2, 2) and out.data == W.data
    run.check(ok, 'C20.adapter', fa.qual, 'component map', 'adapter(identity)(W)[..., i, j] == W[..., i, j] for the 4 components',
              'adapter permutes/loses components: %s' % (show(dom, out) if isinstance(out, Arr) else repr(out)), fa.loc())
    # spatial axes: every propagated component keeps its orientation inside the (..., 2, 2) result
    from ..domains.shape import ShapeDomain, Sh, Scalar
    from ..core.interp import Interp as _Interp
    sdom = ShapeDomain({})
    sit = _Interp(db, sdom)
    lam2 = ast.parse('lambda E: P', mode='eval').body

    def sargs():
        return [LambdaRef(lam2, Frame(fa, fa.module, {'P': Sh(('T0', 'T1'))}))]
    sps = [p for p in sit.run(fa, args=sargs) if p.outcome == 'return']
    if not sps:
        raise AnalysisError('jones_adapter: no returning path in the shape run')
    sit._reset_run([])
    sout = sit.call_value(sps[0].value, [Sh(('S0', 'S1', 2, 2))], {}, fa.node, None)
    sev = list(sit.events)
    bad = [e for e in sev if e['kind'] in ('reshape-reorders', 'broadcast-error', 'index-error') or (e['kind'] == 'store' and e.get('ok') is False)]
    nst = [e for e in sev if e['kind'] == 'store']
    oks = isinstance(sout, Sh) and sout.dims == ('T0', 'T1', 2, 2) and not bad
    run.check(oks, 'C20.adapter', fa.qual, 'spatial axes', 'a (S0, S1, 2, 2) field whose components propagate to (T0, T1) comes back as (T0, T1, 2, 2) with no axis exchanged',
              'the adapter returns %r%s: the spatial axes of the propagated components are exchanged / re-flowed (invisible for transposition-symmetric fields on square grids)'
              % (sout, '; ' + bad[0]['kind'] + ' %s -> %s' % (bad[0].get('old'), bad[0].get('new')) if bad else ''), fa.loc())
    run.require_instances('C20.unitary', 5)
    run.require_instances('C20.mueller', 2)
